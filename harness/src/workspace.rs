//! Building real analysis workspaces the way the repository's own TestDB does.
use ide::{AnalysisHost, Change, FileId, FileSet, PackageGraph, SourceRoot, VfsPath};

pub struct Ws {
    pub host: AnalysisHost,
    /// (path, text) in FileId order; the last one is /gleam.toml
    pub files: Vec<(String, String)>,
}

/// One local package rooted at "/": modules under /test/<name>.gleam, /gleam.toml last.
pub fn single_package(modules: &[(&str, &str)]) -> Ws {
    let mut files: Vec<(String, String)> = modules.iter().map(|(n, t)| (format!("/test/{n}.gleam"), t.to_string())).collect();
    files.push(("/gleam.toml".to_string(), String::new()));
    let mut host = AnalysisHost::new();
    host.apply_change(change_for(&files, true));
    Ws { host, files }
}

pub fn change_for(files: &[(String, String)], structural: bool) -> Change {
    let mut change = Change::default();
    let mut set = FileSet::default();
    for (i, (p, t)) in files.iter().enumerate() {
        let f = FileId(i as u32);
        set.insert(f, VfsPath::new(p));
        change.change_file(f, t.as_str().into());
    }
    if structural {
        change.set_roots(vec![SourceRoot::new(set, "/".into())]);
        let mut g = PackageGraph::default();
        g.add_package("test".into(), FileId(files.len() as u32 - 1), true);
        change.set_package_graph(g);
    }
    change
}

/// Shape of a GleamGen workspace.  `TwoPackages`: m1 is the module of the local package `app`, the library modules belong
/// to a second local package `lib` that `app` depends on (a path dependency: renames are allowed in both).
/// `OnePackage`: all modules in one local package.  Gleam resolves imports through dependencies, so every answer of the
/// analysis must be the same in both shapes.
#[derive(Debug, Clone, Copy, PartialEq, Eq)]
pub enum Shape {
    OnePackage,
    TwoPackages,
    /// the modules belong to no package of the package graph: a source root without a gleam.toml that the graph knows
    /// (what the server makes of a free-standing file, and of a project whose graph has not been assembled yet)
    NoPackage,
}

impl Shape {
    /// three of four workspaces have two packages
    pub fn seeded(seed: u64, case_index: usize) -> Shape {
        if (seed.wrapping_add(case_index as u64)) % 4 == 3 { Shape::OnePackage } else { Shape::TwoPackages }
    }
    pub fn parse(s: &str) -> Option<Shape> {
        match s { "one-package" => Some(Shape::OnePackage), "two-packages" => Some(Shape::TwoPackages), "no-package" => Some(Shape::NoPackage), _ => None }
    }
    pub fn name(self) -> &'static str {
        match self { Shape::OnePackage => "one-package", Shape::TwoPackages => "two-packages", Shape::NoPackage => "no-package" }
    }
}

/// Workspace of a generated program: FileId(0) = the first module (`m1`), FileId(1 + i) = the i-th further (library) module,
/// then the gleam.toml file(s).  Module names may be paths (`sub/m2`).  A name `@twin/<module>` puts the file into the OTHER
/// source directory of its package (`test/` besides `src/`): a second file that maps to the same module name (which Gleam
/// rejects as a duplicate module; an editor workspace can be in that state, and every file of it can be queried).
/// A module belongs to `app` if it is the first one or its twin, to `lib` otherwise.
pub fn gen_workspace(shape: Shape, modules: &[(&str, &str)]) -> Ws {
    let mut host = AnalysisHost::new();
    let mut change = Change::default();
    let mut files: Vec<(String, String)> = vec![];
    let n = modules.len() as u32;
    let split = |name: &str| -> (bool, String) { match name.strip_prefix("@twin/") { Some(r) => (true, r.to_string()), None => (false, name.to_string()) } };
    let first = modules.first().map(|m| split(m.0).1).unwrap_or_default();
    match shape {
        Shape::OnePackage => {
            let mut set = FileSet::default();
            for (n, t) in modules {
                let (twin, name) = split(n);
                files.push((format!("/{}/{name}.gleam", if twin { "src" } else { "test" }), t.to_string()));
            }
            files.push(("/gleam.toml".to_string(), String::new()));
            for (i, (p, t)) in files.iter().enumerate() {
                set.insert(FileId(i as u32), VfsPath::new(p));
                change.change_file(FileId(i as u32), t.as_str().into());
            }
            change.set_roots(vec![SourceRoot::new(set, "/".into())]);
            let mut g = PackageGraph::default();
            g.add_package("test".into(), FileId(n), true);
            change.set_package_graph(g);
        }
        Shape::NoPackage => {
            let mut set = FileSet::default();
            for (n, t) in modules {
                let (twin, name) = split(n);
                files.push((format!("/{}/{name}.gleam", if twin { "src" } else { "test" }), t.to_string()));
            }
            for (i, (p, t)) in files.iter().enumerate() {
                set.insert(FileId(i as u32), VfsPath::new(p));
                change.change_file(FileId(i as u32), t.as_str().into());
            }
            change.set_roots(vec![SourceRoot::new(set, "/".into())]);
            change.set_package_graph(PackageGraph::default());
        }
        Shape::TwoPackages => {
            let mut app = FileSet::default();
            let mut lib = FileSet::default();
            for (i, (n, t)) in modules.iter().enumerate() {
                let (twin, name) = split(n);
                let pkg = if i == 0 || name == first { "app" } else { "lib" };
                files.push((format!("/{pkg}/{}/{name}.gleam", if twin { "test" } else { "src" }), t.to_string()));
            }
            files.push(("/app/gleam.toml".to_string(), "name = \"app\"\nversion = \"1.0.0\"\n\n[dependencies]\nlib = { path = \"../lib\" }\n".to_string()));
            files.push(("/lib/gleam.toml".to_string(), "name = \"lib\"\nversion = \"1.0.0\"\n".to_string()));
            for (i, (p, t)) in files.iter().enumerate() {
                let set = if p.starts_with("/app/") { &mut app } else { &mut lib };
                set.insert(FileId(i as u32), VfsPath::new(p));
                change.change_file(FileId(i as u32), t.as_str().into());
            }
            change.set_roots(vec![SourceRoot::new(app, "/app".into()), SourceRoot::new(lib, "/lib".into())]);
            let mut g = PackageGraph::default();
            let app_p = g.add_package("app".into(), FileId(n), true);
            let lib_p = g.add_package("lib".into(), FileId(n + 1), true);
            g.add_dep(app_p, ide::Dependency { package: lib_p });
            change.set_package_graph(g);
        }
    }
    host.apply_change(change);
    Ws { host, files }
}
