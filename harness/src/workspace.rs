//! Building real analysis workspaces the way the repository's own TestDB does.
use ide::{AnalysisHost, Change, FileId, FileSet, PackageGraph, SourceRoot, VfsPath};

pub struct Ws {
    pub host: AnalysisHost,
    /// (path, text) in FileId order; the last one is /gleam.toml
    pub files: Vec<(String, String)>,
}

/// One local package rooted at "/": modules under /test/<name>.gleam, /gleam.toml last.
pub fn single_package(modules: &[(&str, &str)]) -> Ws {
    let mut files: Vec<(String, String)> = modules.iter().map(|(n, t)| (format!("/test/{n}.gleam"), t.to_string())).collect();
    files.push(("/gleam.toml".to_string(), String::new()));
    let mut host = AnalysisHost::new();
    host.apply_change(change_for(&files, true));
    Ws { host, files }
}

pub fn change_for(files: &[(String, String)], structural: bool) -> Change {
    let mut change = Change::default();
    let mut set = FileSet::default();
    for (i, (p, t)) in files.iter().enumerate() {
        let f = FileId(i as u32);
        set.insert(f, VfsPath::new(p));
        change.change_file(f, t.as_str().into());
    }
    if structural {
        change.set_roots(vec![SourceRoot::new(set, "/".into())]);
        let mut g = PackageGraph::default();
        g.add_package("test".into(), FileId(files.len() as u32 - 1), true);
        change.set_package_graph(g);
    }
    change
}
