//! Rendering of GleamGen programs (token records emitted by the specification) to text.
use crate::util::Rng;
use serde_json::Value;

pub const LIB_NAME: &str = "m2";
pub const LIB_TEXT: &str = "pub fn a(x) { x }\npub fn c() { 1 }\nfn p() { 2 }\npub type A { A(a: Int) C }\npub const k = 1\npub type T { W }\ntype P { Q }\npub type I = Int\npub type R { R(f: I) }\ntype N { M }\npub type M { N }\n";
/// The second library module: its path shares the last segment with the first, it declares the same names (ids 3001..)
/// in another order, and it uses them itself in the extra function `s` (so a rename has to edit uses inside the library too).
pub const SUB_NAME: &str = "sub/m2";
/// It also imports the first one and hands out a value of ITS record type (`mk`): a module that imports only `sub/m2` can then
/// hold a record whose type and field `f` are declared in a module it does not import.
pub const SUB_TEXT: &str = "import m2\npub type M { N }\ntype N { M }\npub const k = 2\npub type R { R(f: Int) }\npub type T { W }\npub fn c() { 3 }\ntype P { Q }\npub type A { C A(a: Int) }\nfn p() { 4 }\npub fn a(x) { x }\npub fn s(y: A) -> T { let _ = #(c(), a(k), A(a: 1), C, y, R(f: 2)) W }\npub fn mk() -> m2.R { m2.R(f: 1) }\nfn ev(n) { case n { 0 -> m2.a(1) _ -> od(n) } }\nfn od(n) { case n { 0 -> m2.c() _ -> ev(n) } }\n";

/// The library modules of a GleamGen workspace: (module path, text, id of the module in the specification); the module with
/// index i is FileId(1 + i).
pub const LIBS: [(&str, &str, u64); 2] = [(LIB_NAME, LIB_TEXT, 2000), (SUB_NAME, SUB_TEXT, 3000)];

/// index into LIBS of the module that declares the specification's id
pub fn lib_of(id: u64) -> usize {
    if id >= 3000 { 1 } else { 0 }
}

/// (declaration id in the specification, byte offset of the declaring name token in the library's text, length)
pub fn lib_decls_of(lib: usize) -> Vec<(u64, usize, usize)> {
    let (_, text, base) = LIBS[lib];
    let f = |pat: &str, skip: usize| text.find(pat).unwrap() + skip;
    let mut v = vec![
        (base + 1, f("fn a(", 3), 1),
        (base + 2, f("fn c(", 3), 1),
        (base + 3, f("A(a: Int)", 0), 1),
        (base + 4, f(" C ", 1), 1),
        (base + 5, f("const k", 6), 1),
        (base + 6, f("type T {", 5), 1),
        (base + 7, f("type A {", 5), 1),
        (base + 8, f("A(a: Int)", 2), 1),
        (base + 9, f("R(f: ", 0), 1),
        (base + 10, f("type R {", 5), 1),
        (base + 11, f("R(f: ", 2), 1),
    ];
    if lib == 1 {
        v.push((base + 12, f("fn mk(", 3), 2));
    }
    v.push((base + 13, f("type M { N }", 9), 1));
    v
}

/// the first library module's declarations (ids 2001..)
pub fn lib_decls() -> Vec<(u64, usize, usize)> {
    lib_decls_of(0)
}

/// (declaration id, byte offset) of every USE of a library declaration - of either module - inside the text of library `lib`
pub fn lib_uses_of(lib: usize) -> Vec<(u64, usize)> {
    if lib != 1 {
        return vec![];
    }
    let body = SUB_TEXT.find("pub fn s(").unwrap();
    let f = |pat: &str, skip: usize| body + SUB_TEXT[body..].find(pat).unwrap() + skip;
    let mk = SUB_TEXT.find("pub fn mk(").unwrap();
    let g = |pat: &str, skip: usize| mk + SUB_TEXT[mk..].find(pat).unwrap() + skip;
    vec![
        (3001, f("a(k)", 0)),
        (3002, f("c()", 0)),
        (3003, f("A(a: 1)", 0)),
        (3004, f(" C,", 1)),
        (3005, f("a(k)", 2)),
        (3006, f("-> T", 3)),
        (3007, f("y: A", 3)),
        (3008, f("A(a: 1)", 2)),
        (3009, f("R(f: 2)", 0)),
        (3011, f("R(f: 2)", 2)),
        // the first module's record R, used by `mk`
        (2010, g("-> m2.R", 6)),
        (2009, g("m2.R(f: 1)", 3)),
        (2011, g("m2.R(f: 1)", 5)),
        // a recursion group of two private functions, each with a qualified access at the same place of its body
        (2001, SUB_TEXT.find("m2.a(1)").unwrap() + 3),
        (2002, SUB_TEXT.find("m2.c()").unwrap() + 3),
    ]
}

#[derive(Debug, Clone)]
pub struct Tok {
    pub t: String,
    pub r: String,
    pub tg: u64,
    pub vis: Vec<String>,
    pub start: usize,
    pub end: usize,
    /// bracket kinds enclosing this token, outermost first
    pub ctx: Vec<String>,
    /// index in the specification's `out` (1-based)
    pub idx: usize,
}

pub struct Program {
    pub text: String,
    pub toks: Vec<Tok>,
}

/// Render with seeded layout: tokens separated by a space, newline, or a comment line.
pub fn render(case: &Value, rng: &mut Rng, plain: bool) -> Program {
    let mut text = String::new();
    let mut toks = vec![];
    let mut ctx: Vec<String> = vec![];
    for (i, t) in case["out"].as_array().unwrap().iter().enumerate() {
        let r = t["r"].as_str().unwrap();
        let s = t["t"].as_str().unwrap();
        if r == "open" {
            ctx.push(s.to_string());
            continue;
        }
        if r == "close" {
            ctx.pop();
            continue;
        }
        if s.is_empty() {
            continue;
        }
        if !text.is_empty() {
            let mut sep = if plain { " " } else { [" ", " ", " ", "\n", "\n  ", " // é💣\n", "\t"][rng.below(7)] };
            // documentation comments where Gleam attaches them: in front of a definition, of a variant and of a labelled
            // field of a custom type
            let prev = toks.last().map(|t: &Tok| t.t.as_str()).unwrap_or("");
            let item_start = ctx.len() == 1 && matches!(s, "fn" | "pub" | "type" | "const") && prev != "pub";
            let in_adt = ctx.last().map(|c| c == "ADT").unwrap_or(false) && (r == "def" || r == "fieldalt") && matches!(prev, "{" | "(" | "," | ")");
            if !plain && (item_start || in_adt) && rng.chance(1, 3) {
                sep = "\n/// doc é\n";
            }
            // keep `fn name`, `const name` etc. readable; any whitespace is legal between tokens
            text.push_str(sep);
        }
        // a string literal is any member of its class: also one that contains comment openers or non-ASCII text
        let s = if !plain && s == "\"s\"" { ["\"s\"", "\"//\"", "\"a // b\"", "\"é💣\"", "\"/// x\""][rng.below(5)] } else { s };
        let start = text.len();
        text.push_str(s);
        toks.push(Tok {
            t: s.to_string(),
            r: r.to_string(),
            tg: t["tg"].as_u64().unwrap_or(0),
            vis: t["vis"].as_array().map(|a| a.iter().map(|x| x.as_str().unwrap().to_string()).collect()).unwrap_or_default(),
            start,
            end: text.len(),
            ctx: ctx.clone(),
            idx: i + 1,
        });
    }
    // the last token may be the very end of the file (no trailing newline)
    if plain || rng.chance(1, 2) {
        text.push('\n');
    }
    Program { text, toks }
}
