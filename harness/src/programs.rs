//! Rendering of GleamGen programs (token records emitted by the specification) to text.
use crate::util::Rng;
use serde_json::Value;

pub const LIB_NAME: &str = "m2";
pub const LIB_TEXT: &str = "pub fn a(x) { x }\npub fn c() { 1 }\nfn p() { 2 }\npub type A { A(a: Int) C }\npub const k = 1\npub type T { W }\ntype P { Q }\n";

/// (declaration id in the specification, byte offset of the declaring name token in LIB_TEXT, length)
pub fn lib_decls() -> Vec<(u64, usize, usize)> {
    let f = |pat: &str, skip: usize| LIB_TEXT.find(pat).unwrap() + skip;
    vec![
        (2001, f("fn a(", 3), 1),
        (2002, f("fn c(", 3), 1),
        (2003, f("A(a: Int)", 0), 1),
        (2004, f(" C }", 1), 1),
        (2005, f("const k", 6), 1),
        (2006, f("type T {", 5), 1),
        (2007, f("type A {", 5), 1),
        (2008, f("A(a: Int)", 2), 1),
    ]
}

#[derive(Debug, Clone)]
pub struct Tok {
    pub t: String,
    pub r: String,
    pub tg: u64,
    pub vis: Vec<String>,
    pub start: usize,
    pub end: usize,
    /// bracket kinds enclosing this token, outermost first
    pub ctx: Vec<String>,
    /// index in the specification's `out` (1-based)
    pub idx: usize,
}

pub struct Program {
    pub text: String,
    pub toks: Vec<Tok>,
}

/// Render with seeded layout: tokens separated by a space, newline, or a comment line.
pub fn render(case: &Value, rng: &mut Rng, plain: bool) -> Program {
    let mut text = String::new();
    let mut toks = vec![];
    let mut ctx: Vec<String> = vec![];
    for (i, t) in case["out"].as_array().unwrap().iter().enumerate() {
        let r = t["r"].as_str().unwrap();
        let s = t["t"].as_str().unwrap();
        if r == "open" {
            ctx.push(s.to_string());
            continue;
        }
        if r == "close" {
            ctx.pop();
            continue;
        }
        if s.is_empty() {
            continue;
        }
        if !text.is_empty() {
            let sep = if plain { " " } else { [" ", " ", " ", "\n", "\n  ", " // é💣\n", "\t"][rng.below(7)] };
            // keep `fn name`, `const name` etc. readable; any whitespace is legal between tokens
            text.push_str(sep);
        }
        let start = text.len();
        text.push_str(s);
        toks.push(Tok {
            t: s.to_string(),
            r: r.to_string(),
            tg: t["tg"].as_u64().unwrap_or(0),
            vis: t["vis"].as_array().map(|a| a.iter().map(|x| x.as_str().unwrap().to_string()).collect()).unwrap_or_default(),
            start,
            end: text.len(),
            ctx: ctx.clone(),
            idx: i + 1,
        });
    }
    // the last token may be the very end of the file (no trailing newline)
    if plain || rng.chance(1, 2) {
        text.push('\n');
    }
    Program { text, toks }
}
