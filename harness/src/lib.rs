//! Glue between TLC-generated cases and the real glas crates.
pub mod lexis;
pub mod programs;
pub mod queries;
pub mod util;
pub mod workspace;
