//! Glue between TLC-generated cases and the real glas crates.
pub mod util;
