//! Rendering of the specification's token kinds / character names to concrete text,
//! and the "contexts" (where in a file a token sequence is placed).
use crate::util::Rng;
use std::collections::BTreeMap;
use syntax::SyntaxKind;

/// name -> kind for every lexer kind (everything below EOF).
pub fn token_kinds() -> BTreeMap<String, SyntaxKind> {
    let mut m = BTreeMap::new();
    let eof = SyntaxKind::EOF as u16;
    for raw in 0..eof {
        let k: SyntaxKind = syntax::rowan::SyntaxKind(raw).into();
        m.insert(format!("{k:?}"), k);
    }
    m
}

/// Concrete spellings of a token kind. The first is the canonical one.
pub fn lexemes(kind: &str, k: SyntaxKind) -> Vec<String> {
    let v: &[&str] = match kind {
        "WHITESPACE" => &[" ", "\n", "\t", "\n\n  "],
        "COMMENT" => &["// c\n", "//\n", "// é💣\n"],
        "COMMENT_STATEMENT" => &["/// d\n", "///\n"],
        "COMMENT_MODULE" => &["//// m\n", "////\n"],
        "IDENT" => &["a", "b", "x1", "foo_bar"],
        "BAD_IDENT" => &["aB", "fooBar"],
        "DISCARD_IDENT" => &["_", "_x"],
        "U_IDENT" => &["A", "Foo", "B1"],
        "BAD_U_IDENT" => &["A_b", "Foo_"],
        "FLOAT" => &["1.0", "1.5e3", "0.1", "1_0.5", "0.1e-3", "1.0_1"],
        "INTEGER" => &["1", "0", "1_000", "0x1", "0b1"],
        "STRING" => &["\"s\"", "\"\"", "\"é\\\"💣\"", "\"a\nb\"", "\"\\ℝ\"", "\"\\💣x\"", "\"c:\\日本\"", "\"日本\"", "\"héé\"", "\"\\\\\"",
                      // escapes, well-formed and not (any character may follow a backslash as far as the lexer is concerned)
                      "\"\\u{41}\"", "\"\\u{100000000}\"", "\"\\u{FFFFFFFFFFFFFFFFF}\"", "\"\\u}\"", "\"\\u{\"", "\"\\uℝ}\"", "\"\\u{zz}\"", "\"\\x\\n\\t\""],
        "ERROR" => &["$", "\"", "é", "\r", "&", "'", "~", "\"unterminated \\", "`", "?", "^", ";", "\u{FEFF}", "\u{00A0}", "\u{2028}", "ℝ", "💣"],
        _ => {
            // symbols and keywords: Display is the quoted token text
            let s = format!("{k}");
            let s = s.trim_matches('"').to_string();
            return vec![s];
        }
    };
    v.iter().map(|s| s.to_string()).collect()
}

pub fn chr(name: &str) -> &'static str {
    match name {
        "a" => "a", "A" => "A", "_" => "_", "0" => "0", "." => ".", "dq" => "\"", "bs" => "\\", "/" => "/",
        "sp" => " ", "nl" => "\n", "cr" => "\r", "+" => "+", "-" => "-", "<" => "<", ">" => ">", "=" => "=",
        "|" => "|", "{" => "{", "}" => "}", "(" => "(", ")" => ")", "[" => "[", "]" => "]", "#" => "#",
        "@" => "@", ":" => ":", "," => ",", "!" => "!", "c2" => "ß", "c4" => "💣",
        "c3" => "ℝ", "tab" => "\t", "bom" => "\u{FEFF}", "nbsp" => "\u{00A0}", "ls" => "\u{2028}",
        o => panic!("unknown char name {o}"),
    }
}

/// Every context but the first two puts a complete definition in front of the construct (a damaged construct that is the
/// FIRST item of a file only mis-shapes the tree, the same construct after another item can make the tree builder fail);
/// the `*_first` contexts keep the construct first.
pub const CONTEXTS: &[(&str, &str, &str)] = &[
    ("top", "", ""),
    ("top_between", "fn e() { 1 }\n", "\nfn g() { 1 }\n"),
    ("fn_body", "fn e() { 1 }\nfn f(x) { ", " }\nfn g() { 1 }\n"),
    ("let_rhs", "fn e() { 1 }\nfn f(x) { let y = ", "\n x }\nfn g() { 1 }\n"),
    ("case_clause", "fn e() { 1 }\nfn f(x) { case x { ", " -> 1 } }\nfn g() { 1 }\n"),
    ("case_body", "fn e() { 1 }\nfn f(x) { case x { A -> ", " } }\nfn g() { 1 }\n"),
    ("pattern_args", "fn e() { 1 }\nfn f(x) { case x { A(", ") -> 1 } }\n"),
    ("type_body", "fn e() { 1 }\ntype T { A ", " }\nfn g() { 1 }\n"),
    ("variant_fields", "fn e() { 1 }\ntype T { A(", ") }\nfn g() { 1 }\n"),
    ("param_list", "fn e() { 1 }\nfn f(", ") { 1 }\nfn g() { 1 }\n"),
    ("ret_type", "fn e() { 1 }\nfn f() -> ", " { 1 }\n"),
    ("import", "import c\nimport a/b.{", "}\nfn g() { 1 }\n"),
    ("import_path", "import c\nimport ", "\nfn g() { 1 }\n"),
    ("call_args", "fn e() { 1 }\nfn f() { g(", ") }\n"),
    ("list", "fn e() { 1 }\nfn f() { [", "] }\n"),
    ("const", "fn e() { 1 }\nconst c = ", "\nfn g() { 1 }\n"),
    ("alias", "fn e() { 1 }\ntype A = ", "\nfn g() { 1 }\n"),
    ("attr", "fn e() { 1 }\n@external(", ")\nfn g() -> Int\n"),
    ("use", "fn e() { 1 }\nfn f() { use ", " <- g(1)\n 1 }\n"),
    ("eof_in_fn", "fn e() { 1 }\nfn f(x) { let y = ", ""),
    ("eof_in_type", "fn e() { 1 }\npub type T(a) { A(x: ", ""),
    ("import_first", "import a/b.{", "}\nfn g() { 1 }\n"),
    ("fn_first", "fn f(x) { ", " }\nfn g() { 1 }\n"),
    ("type_first", "type T { A(", ") }\nfn g() { 1 }\n"),
];

/// Render a token-kind sequence. `variant` 0 = canonical spellings joined by single spaces.
pub fn render_tokens(seq: &[(String, SyntaxKind)], rng: &mut Rng, canonical: bool) -> String {
    let mut s = String::new();
    for (i, (name, k)) in seq.iter().enumerate() {
        let lx = lexemes(name, *k);
        let l = if canonical { &lx[0] } else { &lx[rng.below(lx.len())] };
        if i > 0 {
            let sep = if canonical { " " } else { [" ", " ", "\n", "", " // c\n", "\t"][rng.below(6)] };
            s.push_str(sep);
        }
        s.push_str(l);
    }
    s
}
