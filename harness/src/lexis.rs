//! Rendering of the specification's token kinds / character names to concrete text,
//! and the "contexts" (where in a file a token sequence is placed).
use crate::util::Rng;
use std::collections::BTreeMap;
use syntax::SyntaxKind;

/// name -> kind for every lexer kind (everything below EOF).
pub fn token_kinds() -> BTreeMap<String, SyntaxKind> {
    let mut m = BTreeMap::new();
    let eof = SyntaxKind::EOF as u16;
    for raw in 0..eof {
        let k: SyntaxKind = syntax::rowan::SyntaxKind(raw).into();
        m.insert(format!("{k:?}"), k);
    }
    m
}

/// Concrete spellings of a token kind. The first is the canonical one.
pub fn lexemes(kind: &str, k: SyntaxKind) -> Vec<String> {
    let v: &[&str] = match kind {
        "WHITESPACE" => &[" ", "\n", "\t", "\n\n  "],
        "COMMENT" => &["// c\n", "//\n", "// é💣\n"],
        "COMMENT_STATEMENT" => &["/// d\n", "///\n"],
        "COMMENT_MODULE" => &["//// m\n", "////\n"],
        "IDENT" => &["a", "b", "x1", "foo_bar"],
        "BAD_IDENT" => &["aB", "fooBar"],
        "DISCARD_IDENT" => &["_", "_x"],
        "U_IDENT" => &["A", "Foo", "B1"],
        "BAD_U_IDENT" => &["A_b", "Foo_"],
        "FLOAT" => &["1.0", "1.5e3", "0.1"],
        "INTEGER" => &["1", "0", "1_000", "0x1", "0b1"],
        "STRING" => &["\"s\"", "\"\"", "\"é\\\"💣\"", "\"a\nb\""],
        "ERROR" => &["$", "\"", "é", "\r", "&", "'", "~", "\"unterminated \\", "`", "?", "^", ";", "\u{FEFF}", "\u{00A0}", "\u{2028}", "ℝ", "💣"],
        _ => {
            // symbols and keywords: Display is the quoted token text
            let s = format!("{k}");
            let s = s.trim_matches('"').to_string();
            return vec![s];
        }
    };
    v.iter().map(|s| s.to_string()).collect()
}

pub fn chr(name: &str) -> &'static str {
    match name {
        "a" => "a", "A" => "A", "_" => "_", "0" => "0", "." => ".", "dq" => "\"", "bs" => "\\", "/" => "/",
        "sp" => " ", "nl" => "\n", "cr" => "\r", "+" => "+", "-" => "-", "<" => "<", ">" => ">", "=" => "=",
        "|" => "|", "{" => "{", "}" => "}", "(" => "(", ")" => ")", "[" => "[", "]" => "]", "#" => "#",
        "@" => "@", ":" => ":", "," => ",", "!" => "!", "c2" => "ß", "c4" => "💣",
        "c3" => "ℝ", "tab" => "\t", "bom" => "\u{FEFF}", "nbsp" => "\u{00A0}", "ls" => "\u{2028}",
        o => panic!("unknown char name {o}"),
    }
}

pub const CONTEXTS: &[(&str, &str, &str)] = &[
    ("top", "", ""),
    ("top_between", "fn e() { 1 }\n", "\nfn g() { 1 }\n"),
    ("fn_body", "fn f(x) { ", " }\nfn g() { 1 }\n"),
    ("let_rhs", "fn f(x) { let y = ", "\n x }\nfn g() { 1 }\n"),
    ("case_clause", "fn f(x) { case x { ", " -> 1 } }\nfn g() { 1 }\n"),
    ("case_body", "fn f(x) { case x { A -> ", " } }\nfn g() { 1 }\n"),
    ("pattern_args", "fn f(x) { case x { A(", ") -> 1 } }\n"),
    ("type_body", "type T { A ", " }\nfn g() { 1 }\n"),
    ("variant_fields", "type T { A(", ") }\nfn g() { 1 }\n"),
    ("param_list", "fn f(", ") { 1 }\nfn g() { 1 }\n"),
    ("ret_type", "fn f() -> ", " { 1 }\n"),
    ("import", "import a/b.{", "}\nfn g() { 1 }\n"),
    ("import_path", "import ", "\nfn g() { 1 }\n"),
    ("call_args", "fn f() { g(", ") }\n"),
    ("list", "fn f() { [", "] }\n"),
    ("const", "const c = ", "\nfn g() { 1 }\n"),
    ("alias", "type A = ", "\nfn g() { 1 }\n"),
    ("attr", "@external(", ")\nfn g() -> Int\n"),
    ("use", "fn f() { use ", " <- g(1)\n 1 }\n"),
    ("eof_in_fn", "fn f(x) { let y = ", ""),
    ("eof_in_type", "pub type T(a) { A(x: ", ""),
];

/// Render a token-kind sequence. `variant` 0 = canonical spellings joined by single spaces.
pub fn render_tokens(seq: &[(String, SyntaxKind)], rng: &mut Rng, canonical: bool) -> String {
    let mut s = String::new();
    for (i, (name, k)) in seq.iter().enumerate() {
        let lx = lexemes(name, *k);
        let l = if canonical { &lx[0] } else { &lx[rng.below(lx.len())] };
        if i > 0 {
            let sep = if canonical { " " } else { [" ", " ", "\n", "", " // c\n", "\t"][rng.below(6)] };
            s.push_str(sep);
        }
        s.push_str(l);
    }
    s
}
