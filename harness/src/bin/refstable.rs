//! C06 (and C20) recorder for arbitrary workspaces: for every identifier token of every file, what
//! goto_definition, references and highlight_related answer.  Input: ndjson {"files":[[name,text],..]};
//! output (--out FILE): one table per workspace for TLC (spec/Refs.tla); stdout: panics + summary.
//! The first file is the module of the local package `app`, the others belong to a second local package `lib` that `app`
//! depends on (one workspace in four, by VERIF_SEED and index or by "shape": all files in one package).
use ide::{FileId, FilePos, GotoDefinitionResult};
use serde_json::{json, Value};
use std::io::{BufRead, Write};
use syntax::lexer::GleamLexer;
use syntax::SyntaxKind;
use verif_harness::util::{catch, quiet_panics};
use verif_harness::workspace::{self, Shape};

fn ident_at(text: &str, start: usize, end: usize) -> Option<(usize, String)> {
    // first identifier token inside [start, end)
    let slice = text.get(start..end)?;
    for t in GleamLexer::new(slice) {
        if matches!(t.kind, SyntaxKind::IDENT | SyntaxKind::U_IDENT) {
            return Some((start + usize::from(t.range.start()), t.text.to_string()));
        }
    }
    None
}

fn shape_name(v: &Value, seed: u64, wi: usize) -> &'static str {
    match v["shape"].as_str() { Some(x) => Shape::parse(x).unwrap_or(Shape::TwoPackages), None => Shape::seeded(seed, wi) }.name()
}

fn main() {
    quiet_panics();
    let args: Vec<String> = std::env::args().collect();
    let arg = |name: &str| args.iter().position(|a| a == name).and_then(|i| args.get(i + 1)).cloned();
    let out_path = arg("--out").expect("--out");
    let ranges_out = arg("--ranges");
    let mut f = std::io::BufWriter::new(std::fs::File::create(out_path).unwrap());
    let mut range_recs = std::collections::BTreeSet::<String>::new();
    let so = std::io::stdout();
    let mut so = so.lock();
    let (mut nws, mut nocc, mut nq) = (0u64, 0u64, 0u64);
    let seed: u64 = std::env::var("VERIF_SEED").ok().and_then(|s| s.parse().ok()).unwrap_or(1);
    for (wi, line) in std::io::stdin().lock().lines().enumerate() {
        let line = line.unwrap();
        if line.trim().is_empty() {
            continue;
        }
        let v: Value = serde_json::from_str(&line).unwrap();
        let files: Vec<(String, String)> = v["files"].as_array().unwrap().iter().map(|p| (p[0].as_str().unwrap().to_string(), p[1].as_str().unwrap().to_string())).collect();
        let mods: Vec<(&str, &str)> = files.iter().map(|(n, t)| (n.as_str(), t.as_str())).collect();
        let r = catch(|| {
            let shape = match v["shape"].as_str() { Some(x) => Shape::parse(x).unwrap_or(Shape::TwoPackages), None => Shape::seeded(seed, wi) };
            let ws = workspace::gen_workspace(shape, &mods);
            let a = ws.host.snapshot();
            let mut occ: Vec<Value> = vec![];
            let mut ranges: Vec<(u32, usize, usize)> = vec![];
            let mut q = 0u64;
            let key = |fi: u32, off: usize| format!("{fi}:{off}");
            for (fi, (_, text)) in files.iter().enumerate() {
                for t in GleamLexer::new(text) {
                    if !matches!(t.kind, SyntaxKind::IDENT | SyntaxKind::U_IDENT) {
                        continue;
                    }
                    let off = usize::from(t.range.start());
                    let pos = FilePos::new(FileId(fi as u32), t.range.start());
                    let mut gkind = "plain";
                    let (goto, gname) = match a.goto_definition(pos).unwrap() {
                        Some(GotoDefinitionResult::Targets(ts)) if !ts.is_empty() => {
                            let n = &ts[0];
                            ranges.push((n.file_id.0, n.full_range.start().into(), n.full_range.end().into()));
                            ranges.push((n.file_id.0, n.focus_range.start().into(), n.focus_range.end().into()));
                            let tf = n.file_id.0 as usize;
                            if files.get(tf).and_then(|(_, tx)| tx.get(usize::from(n.focus_range.start())..usize::from(n.focus_range.end()))).map_or(false, |s| s.starts_with("..")) {
                                gkind = "spread";
                            }
                            match files.get(tf).and_then(|(_, tx)| ident_at(tx, n.focus_range.start().into(), n.focus_range.end().into())) {
                                Some((o, name)) => (key(n.file_id.0, o), name),
                                None => (format!("{}:{}-", n.file_id.0, u32::from(n.focus_range.start())), String::new()),
                            }
                        }
                        _ => ("none".to_string(), String::new()),
                    };
                    let refs = a.references(pos).unwrap();
                    let mut dup = false;
                    let refs_k: Option<Vec<String>> = refs.map(|v| {
                        let mut ks: Vec<String> = v.iter().map(|fr| {
                            ranges.push((fr.file_id.0, fr.range.start().into(), fr.range.end().into()));
                            key(fr.file_id.0, fr.range.start().into())
                        }).collect();
                        ks.sort();
                        let n = ks.len();
                        ks.dedup();
                        dup = n != ks.len();
                        ks
                    });
                    let mut hl: Vec<String> = a.highlight_related(pos).unwrap().iter().map(|h| {
                        ranges.push((fi as u32, h.range.start().into(), h.range.end().into()));
                        key(fi as u32, h.range.start().into())
                    }).collect();
                    hl.sort();
                    hl.dedup();
                    q += 3;
                    occ.push(json!({"k": key(fi as u32, off), "f": fi, "name": t.text, "goto": goto, "gname": gname, "gkind": gkind,
                        "hasrefs": refs_k.is_some(), "refs": refs_k.unwrap_or_default(), "dup": dup, "hl": hl}));
                }
            }
            (occ, ranges, q)
        });
        match r {
            Ok((occ, ranges, q)) => {
                nws += 1;
                nocc += occ.len() as u64;
                nq += q;
                for (fi, s, e) in ranges {
                    let (len, bs, be) = match files.get(fi as usize) {
                        Some((_, tx)) => (tx.len(), tx.is_char_boundary(s.min(tx.len())), tx.is_char_boundary(e.min(tx.len()))),
                        None => (0, false, false),
                    };
                    range_recs.insert(format!("{{\"f\":{fi},\"nf\":{},\"s\":{s},\"e\":{e},\"len\":{len},\"bs\":{bs},\"be\":{be}}}", files.len()));
                }
                writeln!(f, "{}", json!({"ws": wi, "label": v["label"], "shape": shape_name(&v, seed, wi), "occ": occ})).unwrap();
            }
            Err(p) => {
                writeln!(so, "{}", json!({"kind": "mismatch", "prop": "C10", "features": {"what": "panic", "panic": p}, "detail": {"case": v}})).unwrap();
            }
        }
    }
    if let Some(p) = ranges_out {
        let mut rf = std::io::BufWriter::new(std::fs::File::create(p).unwrap());
        for t in range_recs.iter() {
            writeln!(rf, "{t}").unwrap();
        }
    }
    writeln!(so, "{}", json!({"kind": "summary", "workspaces": nws, "occurrences": nocc, "queries": nq, "ranges": range_recs.len()})).unwrap();
}
