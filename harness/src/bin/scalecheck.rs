//! C10, scale family: large, flat programs (tens of thousands of clauses / elements / statements) queried the way the
//! server queries them - on a thread with the 2 MiB stack of its worker threads.
//!   scalecheck            stdin = ndjson {"name": .., "text": ..}; each case runs in a child process (an overflow kills it)
//!   scalecheck --one      stdin = one case; prints one JSON line {"calls": n, "panics": [..]}
use ide::FileId;
use serde_json::{json, Value};
use std::io::{BufRead, Read, Write};
use verif_harness::queries::{self, FILE_QUERIES, POSITION_QUERIES};
use verif_harness::util::{catch, quiet_panics};

const WORKER_STACK: usize = 2 << 20;

fn one(case: &Value) -> Value {
    let text = case["text"].as_str().unwrap().to_string();
    let h = std::thread::Builder::new().stack_size(WORKER_STACK).spawn(move || {
        let ws = verif_harness::workspace::single_package(&[("m1", text.as_str())]);
        let a = ws.host.snapshot();
        let file = FileId(0);
        let mut calls = 0u64;
        let mut panics: Vec<Value> = vec![];
        for q in FILE_QUERIES {
            calls += 1;
            if let Err(p) = catch(|| queries::file_query(&a, q, file, text.len())) {
                panics.push(json!({"query": q, "panic": p}));
            }
        }
        // a spread of positions: the start, the end and fourteen in between (token boundaries)
        let offs = queries::boundaries(&text);
        let step = (offs.len() / 15).max(1);
        for off in offs.iter().step_by(step).chain(offs.last()) {
            for q in POSITION_QUERIES {
                calls += 1;
                if let Err(p) = catch(|| queries::position_query(&a, q, file, *off)) {
                    if panics.len() < 10 {
                        panics.push(json!({"query": q, "offset": off, "panic": p}));
                    }
                }
            }
        }
        json!({"calls": calls, "panics": panics})
    }).expect("spawn");
    h.join().unwrap_or_else(|_| json!({"calls": 0, "panics": [{"query": "?", "panic": "the worker thread died"}]}))
}

fn main() {
    quiet_panics();
    let args: Vec<String> = std::env::args().collect();
    if args.iter().any(|a| a == "--one") {
        let mut s = String::new();
        std::io::stdin().read_to_string(&mut s).unwrap();
        let case: Value = serde_json::from_str(&s).unwrap();
        println!("{}", one(&case));
        return;
    }
    let exe = std::env::current_exe().unwrap();
    let mut total = 0u64;
    let mut n = 0u64;
    for line in std::io::stdin().lock().lines() {
        let line = line.unwrap();
        if line.trim().is_empty() { continue; }
        let case: Value = serde_json::from_str(&line).unwrap();
        n += 1;
        let mut child = std::process::Command::new(&exe).arg("--one").stdin(std::process::Stdio::piped()).stdout(std::process::Stdio::piped())
            .stderr(std::process::Stdio::null()).spawn().unwrap();
        child.stdin.take().unwrap().write_all(line.as_bytes()).unwrap();
        let out = child.wait_with_output().unwrap();
        let shape = json!({"name": case["name"], "bytes": case["text"].as_str().unwrap().len()});
        if !out.status.success() {
            use std::os::unix::process::ExitStatusExt;
            println!("{}", json!({"kind": "mismatch", "prop": "C10", "features": {"what": "aborted", "signal": out.status.signal(), "family": "scale", "shape": case["name"]},
                "detail": {"case": shape, "generator": case["gen"]}}));
            continue;
        }
        let r: Value = serde_json::from_slice(&out.stdout).unwrap_or(json!({"calls": 0, "panics": [{"panic": "no output"}]}));
        total += r["calls"].as_u64().unwrap_or(0);
        for p in r["panics"].as_array().cloned().unwrap_or_default() {
            println!("{}", json!({"kind": "mismatch", "prop": "C10", "features": {"what": "panic", "query": p["query"], "panic": p["panic"], "family": "scale", "shape": case["name"]},
                "detail": {"case": shape, "generator": case["gen"], "offset": p["offset"]}}));
        }
    }
    println!("{}", json!({"kind": "summary", "cases": n, "calls": total}));
}
