//! C01 / C02 replay: TLC-enumerated adversarial inputs against the real parser.
//!   parsecheck [--trace-out FILE] [--trace-max N] [--threads N] [--check-kinds K1,K2,..] < cases.ndjson
//!   parsecheck --one            (child mode: text on stdin, prints one result line)
//! case: {"mode":"tok"|"chr","seq":[...]} | {"mode":"tower","seq":[opener,n]} | {"mode":"text","text":..,"ctx":..}
use serde_json::{json, Value};
use std::io::{BufRead, Read, Write};
use std::sync::atomic::{AtomicU64, AtomicUsize, Ordering};
use std::sync::{Arc, Mutex};
use syntax::parser::verif::TraceEvent;
use syntax::{NodeOrToken, SyntaxKind};
use verif_harness::lexis::{self, CONTEXTS};
use verif_harness::util::{catch, quiet_panics, Rng};

/// The observable of one parse. Ok(None) = all good; Ok(Some(v)) = round-trip defect; Err = panic.
fn check_text(text: &str, want_trace: bool) -> (Result<Option<Value>, String>, Option<Value>) {
    let r = catch(|| {
        let (parse, trace) = syntax::parser::parse_module_traced(text);
        let root = parse.syntax_node();
        // the typed root every consumer starts from (it asserts that the tree's root is a source file)
        let _ = parse.root();
        let mut pos: u32 = 0;
        let mut cat = String::with_capacity(text.len());
        let mut bad: Option<Value> = None;
        for el in root.descendants_with_tokens() {
            if let NodeOrToken::Token(t) = el {
                let r = t.text_range();
                if u32::from(r.start()) != pos && bad.is_none() {
                    bad = Some(json!({"what": "gap", "at": pos, "token_start": u32::from(r.start())}));
                }
                if r.is_empty() && bad.is_none() {
                    bad = Some(json!({"what": "empty token", "at": pos, "kind": format!("{:?}", t.kind())}));
                }
                pos = r.end().into();
                cat.push_str(t.text());
            }
        }
        if bad.is_none() && cat != text {
            let i = cat.bytes().zip(text.bytes()).position(|(a, b)| a != b).unwrap_or(cat.len().min(text.len()));
            bad = Some(json!({"what": "text differs", "first_diff_byte": i, "tree_len": cat.len(), "input_len": text.len()}));
        }
        if bad.is_none() && pos as usize != text.len() {
            bad = Some(json!({"what": "length", "tree_end": pos, "input_len": text.len()}));
        }
        if bad.is_none() && u32::from(root.text_range().end()) as usize != text.len() {
            bad = Some(json!({"what": "root range", "root_end": u32::from(root.text_range().end())}));
        }
        for e in parse.errors() {
            if u32::from(e.range.end()) as usize > text.len() && bad.is_none() {
                bad = Some(json!({"what": "error range outside text", "range": format!("{:?}", e.range)}));
            }
        }
        let tr = if want_trace {
            let raw: Vec<&str> = trace.raw_kinds.iter().map(|k| match k {
                SyntaxKind::WHITESPACE => "ws",
                SyntaxKind::COMMENT => "cmt",
                SyntaxKind::COMMENT_STATEMENT => "doc",
                SyntaxKind::COMMENT_MODULE => "mdoc",
                _ => "tok",
            }).collect();
            let ev: Vec<Value> = trace.events.iter().zip(trace.cursors.iter()).map(|(e, c)| match e {
                TraceEvent::Open(_) => json!(["open", c]),
                TraceEvent::Close => json!(["close", c]),
                TraceEvent::Advance => json!(["adv", c]),
            }).collect();
            Some(json!({"raw": raw, "ev": ev, "fin": trace.final_cursor, "nerr": parse.errors().len(), "min_fuel": trace.min_fuel}))
        } else {
            None
        };
        (bad, tr)
    });
    match r {
        Ok((bad, tr)) => (Ok(bad), tr),
        Err(p) => (Err(p), None),
    }
}

fn tower_text(opener: &str, n: usize) -> String {
    // a flat run "run|<lead>|<unit>": the lead, then n units, then the end of the input
    if let Some(rest) = opener.strip_prefix("run|") {
        let (lead, unit) = rest.split_once('|').expect("run|lead|unit");
        let mut t = String::with_capacity(lead.len() + (unit.len() + 1) * n + 2);
        t.push_str(lead);
        for _ in 0..n {
            t.push(' ');
            t.push_str(unit);
        }
        return t;
    }
    let mut s = String::from("fn a() { ");
    let unit = match opener {
        "List(" => { s = String::from("fn a(x: "); "List(" }
        "fn(" => { s = String::from("fn a(x: "); "fn(" }
        "x ->" => { s = String::from("fn a() { case x { "); "x -> case x { " }
        "fn(a) -> " => { s = String::from("fn a(x: "); "fn(a) -> " }
        "const [" => { s = String::from("pub const c = "); "[" }
        "const #(" => { s = String::from("const c = "); "#(" }
        "const A(" => { s = String::from("const c = "); "A(" }
        "A(a: " => { s = String::from("fn a(x) { case x { "); "A(a: " }
        "1 +" | "x |>" | "1 <>" | "a ||" => {
            // left-nested binary chain: operand op operand op ...
            let mut t = String::from("fn a() { ");
            t.reserve(opener.len() * n + 16);
            for _ in 0..n {
                t.push_str(opener);
                t.push(' ');
            }
            t.push_str("1 }");
            return t;
        }
        "a(1)" => {
            let mut t = String::from("fn a() { a");
            for _ in 0..n {
                t.push_str("(1)");
            }
            t.push_str(" }");
            return t;
        }
        "a.0" => {
            let mut t = String::from("fn a() { a");
            for _ in 0..n {
                t.push_str(".0 ");
            }
            t.push_str(" }");
            return t;
        }
        o => o,
    };
    s.reserve(unit.len() * n + 8);
    for _ in 0..n {
        s.push_str(unit);
        s.push(' ');
    }
    s
}

fn run_child(text: &str, timeout_s: u64) -> Value {
    use std::process::{Command, Stdio};
    let exe = std::env::current_exe().unwrap();
    let mut child = Command::new(exe).arg("--one").stdin(Stdio::piped()).stdout(Stdio::piped()).stderr(Stdio::null()).spawn().unwrap();
    let mut stdin = child.stdin.take().unwrap();
    let t = text.to_string();
    let w = std::thread::spawn(move || { let _ = stdin.write_all(t.as_bytes()); });
    let start = std::time::Instant::now();
    loop {
        match child.try_wait().unwrap() {
            Some(st) => {
                let _ = w.join();
                let mut out = String::new();
                child.stdout.take().unwrap().read_to_string(&mut out).ok();
                if let Some(line) = out.lines().find(|l| l.starts_with('{')) {
                    return serde_json::from_str(line).unwrap();
                }
                use std::os::unix::process::ExitStatusExt;
                return json!({"outcome": "aborted", "signal": st.signal(), "code": st.code()});
            }
            None => {
                if start.elapsed().as_secs() > timeout_s {
                    let _ = child.kill();
                    let _ = child.wait();
                    return json!({"outcome": "timeout", "seconds": timeout_s});
                }
                std::thread::sleep(std::time::Duration::from_millis(20));
            }
        }
    }
}

fn outcome_of(text: &str) -> Value {
    match check_text(text, false).0 {
        Ok(None) => json!({"outcome": "returned"}),
        Ok(Some(b)) => json!({"outcome": "roundtrip", "bad": b}),
        Err(p) => json!({"outcome": "panicked", "panic": p}),
    }
}

fn main() {
    quiet_panics();
    let args: Vec<String> = std::env::args().collect();
    if args.iter().any(|a| a == "--one") {
        let mut text = String::new();
        std::io::stdin().read_to_string(&mut text).unwrap();
        // deep inputs: run on a thread with the default main-thread-like stack (8 MiB) so that
        // "takes the process down through unbounded recursion" is observable as an abort
        println!("{}", outcome_of(&text));
        return;
    }
    let arg = |name: &str| args.iter().position(|a| a == name).and_then(|i| args.get(i + 1)).cloned();
    let trace_out = arg("--trace-out");
    let trace_max: usize = arg("--trace-max").and_then(|s| s.parse().ok()).unwrap_or(0);
    let threads: usize = arg("--threads").and_then(|s| s.parse().ok()).unwrap_or(16);
    let seed: u64 = std::env::var("VERIF_SEED").ok().and_then(|s| s.parse().ok()).unwrap_or(1);
    let kinds = lexis::token_kinds();
    if let Some(list) = arg("--check-kinds") {
        let spec: std::collections::BTreeSet<String> = list.split(',').map(|s| s.to_string()).collect();
        let real: std::collections::BTreeSet<String> = kinds.keys().cloned().collect();
        if spec != real {
            eprintln!("KIND-MISMATCH spec-only={:?} lexer-only={:?}", spec.difference(&real).collect::<Vec<_>>(), real.difference(&spec).collect::<Vec<_>>());
            std::process::exit(4);
        }
    }
    let cases: Vec<Value> = std::io::stdin().lock().lines().filter_map(|l| {
        let l = l.unwrap();
        if l.trim().is_empty() { None } else { Some(serde_json::from_str(&l).expect("case json")) }
    }).collect();
    let cases = Arc::new(cases);
    let next = Arc::new(AtomicUsize::new(0));
    let parses = Arc::new(AtomicU64::new(0));
    let with_errors = Arc::new(AtomicU64::new(0));
    let out = Arc::new(Mutex::new(Vec::<Value>::new()));
    let traces = Arc::new(Mutex::new(Vec::<Value>::new()));
    let current: Arc<Vec<Mutex<(std::time::Instant, String)>>> = Arc::new((0..threads).map(|_| Mutex::new((std::time::Instant::now(), String::new()))).collect());
    // watchdog: a parse that runs for more than 20 s is a hang
    {
        let current = current.clone();
        std::thread::spawn(move || loop {
            std::thread::sleep(std::time::Duration::from_millis(500));
            for c in current.iter() {
                let g = c.lock().unwrap();
                if !g.1.is_empty() && g.0.elapsed().as_secs() > 20 {
                    println!("{}", json!({"kind": "mismatch", "features": {"what": "timeout"}, "detail": {"case": {"mode": "text", "text": g.1}}}));
                    std::process::exit(3);
                }
            }
        });
    }
    let ncases = cases.len();
    let trace_every = if trace_max == 0 { usize::MAX } else { (ncases * CONTEXTS.len() / trace_max.max(1)).max(1) };
    let mut handles = vec![];
    for ti in 0..threads {
        let (cases, next, parses, with_errors, out, traces, current) = (cases.clone(), next.clone(), parses.clone(), with_errors.clone(), out.clone(), traces.clone(), current.clone());
        let kinds = kinds.clone();
        handles.push(std::thread::Builder::new().stack_size(64 << 20).spawn(move || {
            let mut local_parses = 0u64;
            let mut local_err = 0u64;
            let mut counter = 0usize;
            loop {
                let i = next.fetch_add(64, Ordering::Relaxed);
                if i >= cases.len() {
                    break;
                }
                for ci in i..(i + 64).min(cases.len()) {
                    let case = &cases[ci];
                    let mode = case["mode"].as_str().unwrap();
                    let mut rng = Rng::new(seed ^ (ci as u64).wrapping_mul(0x9E37));
                    // texts to try for this case: (ctx name, text)
                    let mut texts: Vec<(String, String)> = vec![];
                    match mode {
                        "tok" | "chr" => {
                            let body_variants: Vec<String> = if mode == "tok" {
                                let seq: Vec<(String, SyntaxKind)> = case["seq"].as_array().unwrap().iter().map(|k| {
                                    let n = k.as_str().unwrap().to_string();
                                    let kind = *kinds.get(&n).unwrap_or_else(|| panic!("spec kind {n} unknown to the lexer"));
                                    (n, kind)
                                }).collect();
                                let mut v = vec![lexis::render_tokens(&seq, &mut rng, true), lexis::render_tokens(&seq, &mut rng, false)];
                                // pairs: every spelling of the first kind glued to every spelling of the second (what two tokens
                                // become when nothing separates them is the lexer's business - the text still has to come back)
                                if seq.len() == 2 {
                                    for a in lexis::lexemes(&seq[0].0, seq[0].1).iter() {
                                        for b in lexis::lexemes(&seq[1].0, seq[1].1).iter() {
                                            v.push(format!("{a}{b}"));
                                        }
                                    }
                                }
                                v
                            } else {
                                vec![case["seq"].as_array().unwrap().iter().map(|c| lexis::chr(c.as_str().unwrap())).collect::<String>()]
                            };
                            for b in body_variants {
                                for (name, pre, suf) in CONTEXTS {
                                    texts.push((name.to_string(), format!("{pre}{b}{suf}")));
                                    // the same position with the input ending right after the sequence
                                    if !pre.is_empty() && !suf.is_empty() {
                                        texts.push((format!("{name}@eof"), format!("{pre}{b}")));
                                    }
                                }
                            }
                        }
                        // a well-formed program of the reference grammar (GleamSyn), damaged at every position: cut off after
                        // the token, the token deleted, the token replaced by each of a few tokens that end or continue constructs
                        "prog" => {
                            let toks: Vec<&str> = case["out"].as_array().unwrap().iter().filter(|t| t["r"] == "tok").map(|t| t["t"].as_str().unwrap()).collect();
                            let join = |v: &[&str]| format!("fn e() {{ 1 }}\n{}\nfn g() {{ 1 }}\n", v.join(" "));
                            const REPL: &[&str] = &[")", "}", ",", "fn", "1", "as", "|", "->", "if", ".", "=", "type", "x"];
                            for i in 0..toks.len() {
                                texts.push(("prog@cut".into(), format!("fn e() {{ 1 }}\n{}", toks[..=i].join(" "))));
                                let mut d: Vec<&str> = toks.clone();
                                d.remove(i);
                                texts.push(("prog@del".into(), join(&d)));
                                // two of the replacement tokens per position (all of them over the positions of all programs)
                                for k in 0..2 {
                                    let mut r: Vec<&str> = toks.clone();
                                    r[i] = REPL[(ci + i * 2 + k) % REPL.len()];
                                    texts.push(("prog@rep".into(), join(&r)));
                                }
                            }
                        }
                        "text" => texts.push((case["ctx"].as_str().unwrap_or("text").to_string(), case["text"].as_str().unwrap().to_string())),
                        "tower" => {}
                        o => panic!("mode {o}"),
                    }
                    if mode == "tower" {
                        let opener = case["seq"][0].as_str().unwrap();
                        let n = case["seq"][1].as_u64().unwrap() as usize;
                        let text = tower_text(opener, n);
                        let res = run_child(&text, 120);
                        local_parses += 1;
                        if res["outcome"] != "returned" {
                            let msg = res["panic"].as_str().unwrap_or("").to_string();
                            out.lock().unwrap().push(json!({"kind": "mismatch",
                                "features": {"what": res["outcome"], "mode": "tower", "opener": opener, "height": n, "panic": msg},
                                "detail": {"case": case, "result": res}}));
                        }
                        continue;
                    }
                    for (ctx, text) in texts {
                        counter += 1;
                        let want_trace = counter % trace_every == 0;
                        {
                            let mut g = current[ti].lock().unwrap();
                            *g = (std::time::Instant::now(), text.clone());
                        }
                        let (res, tr) = check_text(&text, want_trace);
                        current[ti].lock().unwrap().1.clear();
                        local_parses += 1;
                        if let Some(mut tr) = tr {
                            if tr["nerr"].as_u64().unwrap_or(0) > 0 {
                                local_err += 1;
                            }
                            tr["text"] = json!(text);
                            traces.lock().unwrap().push(tr);
                        }
                        match res {
                            Ok(None) => {}
                            Ok(Some(bad)) => out.lock().unwrap().push(json!({"kind": "mismatch",
                                "features": {"what": "roundtrip", "mode": mode, "ctx": ctx, "defect": bad["what"]},
                                "detail": {"case": {"mode": "text", "text": text, "ctx": ctx}, "bad": bad, "origin": case}})),
                            Err(p) => out.lock().unwrap().push(json!({"kind": "mismatch",
                                "features": {"what": "panicked", "mode": mode, "ctx": ctx, "panic": p},
                                "detail": {"case": {"mode": "text", "text": text, "ctx": ctx}, "origin": case}})),
                        }
                    }
                }
            }
            parses.fetch_add(local_parses, Ordering::Relaxed);
            with_errors.fetch_add(local_err, Ordering::Relaxed);
        }).unwrap());
    }
    for h in handles {
        h.join().unwrap();
    }
    let stdout = std::io::stdout();
    let mut so = stdout.lock();
    let res = out.lock().unwrap();
    for r in res.iter().take(200) {
        writeln!(so, "{r}").unwrap();
    }
    let traces = traces.lock().unwrap();
    if let Some(p) = trace_out {
        let mut f = std::io::BufWriter::new(std::fs::File::create(p).unwrap());
        for t in traces.iter().take(if trace_max == 0 { 0 } else { trace_max }) {
            let mut t = t.clone();
            t.as_object_mut().unwrap().remove("text");
            writeln!(f, "{t}").unwrap();
        }
    }
    let samples: Vec<Value> = traces.iter().filter(|t| t["nerr"].as_u64().unwrap_or(0) > 0).take(3).map(|t| json!({"text": t["text"], "events": t["ev"].as_array().unwrap().len(), "errors": t["nerr"]})).collect();
    writeln!(so, "{}", json!({"kind": "summary", "cases": ncases, "parses": parses.load(Ordering::Relaxed), "mismatches": res.len(),
        "traces_written": traces.len().min(trace_max), "traced_with_errors": with_errors.load(Ordering::Relaxed), "samples": samples})).unwrap();
}
