//! Triage helper: parsedump < text : syntax errors and the top-level items of the tree (kind, range, first line).
use std::io::Read;
fn main() {
    let mut s = String::new();
    std::io::stdin().read_to_string(&mut s).unwrap();
    let p = syntax::parse_module(&s);
    for e in p.errors() {
        println!("error {:?} {}", e.range, e.kind);
    }
    for c in p.syntax_node().children() {
        let r = c.text_range();
        let t: String = s[usize::from(r.start())..usize::from(r.end())].chars().take(40).collect();
        println!("{:?} {:?} {:?}", c.kind(), r, t);
        if std::env::var("DEEP").is_ok() {
            println!("{:#?}", c);
        }
    }
}
