//! C07 replay: rename of every declaration of a GleamGen program to a fresh name.
//! The specification supplies, per declaration, the set of tokens a rename must rewrite (`ren`).
//! Workspace: m1 = the program (package `app`), the library modules m2 and sub/m2 in a second local package `lib` that
//! `app` depends on (one workspace in four: a single package).  A library declaration is renamed from an occurrence in m1
//! and from its declaration; the edits in its module are the declaration and its uses there, the other library module
//! must stay untouched.
use ide::{Analysis, FileId, FilePos, GotoDefinitionResult};
use serde_json::{json, Value};
use std::io::Write;
use std::sync::{Arc, Mutex};
use syntax::lexer::GleamLexer;
use verif_harness::programs::{self, Program, LIBS};
use verif_harness::util::{catch, quiet_panics, Rng};
use verif_harness::workspace::{self, Shape};

const M1: FileId = FileId(0);
const NLIB: usize = LIBS.len();

fn lib_file(lib: usize) -> FileId {
    FileId(1 + lib as u32)
}

fn gen_ws(shape: Shape, m1: &str, libs: &[String]) -> workspace::Ws {
    workspace::gen_workspace(shape, &[("m1", m1), (LIBS[0].0, &libs[0]), (LIBS[1].0, &libs[1])])
}

/// (decl id, token index in the lexed text of library module `lib`)
fn lib_decl_tokens(lib: usize) -> Vec<(u64, usize)> {
    let toks: Vec<(usize, usize)> = GleamLexer::new(LIBS[lib].1).map(|t| (usize::from(t.range.start()), usize::from(t.range.end()))).collect();
    programs::lib_decls_of(lib).iter().map(|(id, off, _)| (*id, toks.iter().position(|(s, _)| s == off).unwrap())).collect()
}

fn lib_decl_range(text: &str, tok_index: usize) -> (usize, usize) {
    let t = GleamLexer::new(text).nth(tok_index).unwrap();
    (usize::from(t.range.start()), usize::from(t.range.end()))
}

/// goto key of every identifier token of m1: "t<idx>" / "l<declid>" / "none" / "o.."
fn binding_map(a: &Analysis, toks: &[(usize, usize, usize)], lib_texts: &[String], decl_toks: &[Vec<(u64, usize)>]) -> Vec<String> {
    toks.iter().map(|(_, s, _)| {
        match a.goto_definition(FilePos::new(M1, (*s as u32).into())).unwrap() {
            Some(GotoDefinitionResult::Targets(ts)) if !ts.is_empty() => {
                let n = &ts[0];
                let (fs, fe) = (usize::from(n.focus_range.start()), usize::from(n.focus_range.end()));
                if n.file_id == M1 {
                    toks.iter().find(|(_, ts, te)| *ts >= fs && *te <= fe).map(|(i, _, _)| format!("t{i}")).unwrap_or_else(|| format!("o{fs}"))
                } else if (n.file_id.0 as usize) <= NLIB {
                    let lib = n.file_id.0 as usize - 1;
                    let lib_text = &lib_texts[lib];
                    decl_toks[lib].iter().find(|(_, ti)| { let (s, e) = lib_decl_range(lib_text, *ti); s >= fs && e <= fe }).map(|(id, _)| format!("l{id}"))
                        .unwrap_or_else(|| if fs == 0 { format!("l{}", LIBS[lib].2) } else {
                            // some other token of the library: identify it by its index, which a rename does not change
                            let k = GleamLexer::new(lib_text).position(|t| usize::from(t.range.start()) >= fs).unwrap_or(usize::MAX);
                            format!("o{}:tok{k}", LIBS[lib].0)
                        })
                } else {
                    "ofile".into()
                }
            }
            _ => "none".into(),
        }
    }).collect()
}

fn apply(text: &str, edits: &[(usize, usize, String)]) -> String {
    let mut es = edits.to_vec();
    es.sort();
    let mut out = String::new();
    let mut pos = 0;
    for (s, e, ins) in es {
        if s < pos || e > text.len() {
            return format!("<<overlapping or out-of-range edits>>{text}");
        }
        out.push_str(&text[pos..s]);
        out.push_str(&ins);
        pos = e;
    }
    out.push_str(&text[pos..]);
    out
}

const IDENT_ROLES: &[&str] = &["ref", "def", "spreaddef", "altdef", "modref", "pmodref", "qref", "impname", "impalias", "modpath", "moddef", "pref", "label", "plabel", "field", "tref", "fieldalt", "qtref", "tmodref"];

fn check_program(case: &Value, prog: &Program, shape: Shape, rng: &mut Rng, res: &mut Vec<Value>, stats: &mut (u64, u64, u64, Vec<String>)) {
    let decl_toks: Vec<Vec<(u64, usize)>> = (0..NLIB).map(lib_decl_tokens).collect();
    let lib_texts: Vec<String> = LIBS.iter().map(|l| l.1.to_string()).collect();
    let ws = gen_ws(shape, &prog.text, &lib_texts);
    let a = ws.host.snapshot();
    let id_toks: Vec<(usize, usize, usize)> = prog.toks.iter().filter(|t| IDENT_ROLES.contains(&t.r.as_str())).map(|t| (t.idx, t.start, t.end)).collect();
    let before = binding_map(&a, &id_toks, &lib_texts, &decl_toks);
    let nerr_before = a.diagnostics(M1).unwrap().len();
    for r in case["ren"].as_array().unwrap() {
        let d = r["d"].as_u64().unwrap();
        let old = r["name"].as_str().unwrap().to_string();
        let mut toks: Vec<usize> = r["toks"].as_array().unwrap().iter().map(|x| x.as_u64().unwrap() as usize).collect();
        toks.sort();
        // the declaring token of a local / item is part of toks; query at a seeded member
        if toks.is_empty() {
            continue;
        }
        let q_idx = toks[rng.below(toks.len())];
        let qt = prog.toks.iter().find(|t| t.idx == q_idx).unwrap();
        let fresh = if old.chars().next().unwrap().is_uppercase() { "Zz9" } else { "zz9" };
        stats.0 += 1;
        let role_of = |i: &usize| prog.toks.iter().find(|t| t.idx == *i).map(|t| t.r.clone()).unwrap_or_default();
        let feat = |what: &str| json!({"what": what, "site": qt.r, "decl": if d >= 2000 { "lib" } else if d >= 1000 { "item" } else { "local" },
            "decl_role": prog.toks.iter().find(|t| t.idx as u64 == d).map(|t| t.r.clone()).unwrap_or_default(), "ctx": qt.ctx.join("/")});
        let detail = |extra: Value| json!({"case": case, "text": prog.text, "decl": d, "old": old, "query_token": {"idx": qt.idx, "offset": qt.start}, "info": extra});
        // a library declaration is renamed twice: from the seeded occurrence in m1 and from its declaration in its module
        let dlib = if d >= 2000 { Some(programs::lib_of(d)) } else { None };
        let mut sites: Vec<(FileId, usize)> = vec![(M1, qt.start)];
        if let Some(l) = dlib {
            let ti = decl_toks[l].iter().find(|(id, _)| *id == d).unwrap().1;
            sites.push((lib_file(l), lib_decl_range(LIBS[l].1, ti).0));
        }
        // the edits expected in the library modules: the declaration and its uses in the library, nothing else
        let mut exp_libs: Vec<Vec<(usize, usize, String)>> = vec![vec![]; NLIB];
        if let Some(l) = dlib {
            let ti = decl_toks[l].iter().find(|(id, _)| *id == d).unwrap().1;
            let (s, e) = lib_decl_range(LIBS[l].1, ti);
            exp_libs[l].push((s, e, fresh.to_string()));
            // ... and its uses in either library module (sub/m2 uses the record R of m2)
            for l2 in 0..NLIB {
                for (id, off) in programs::lib_uses_of(l2) {
                    if id == d {
                        exp_libs[l2].push((off, off + old.len(), fresh.to_string()));
                    }
                }
                exp_libs[l2].sort();
            }
        }
        for (qfile, qoff) in sites {
        let feat = |what: &str| { let mut f = feat(what); if qfile != M1 { f["site"] = json!("libdecl"); } f };
        let edit = match a.rename(FilePos::new(qfile, (qoff as u32).into()), fresh).unwrap() {
            Ok(e) => e,
            Err(msg) => {
                stats.1 += 1;
                let m = format!("{msg} [site {} of a {} declaration]", if qfile != M1 { "libdecl" } else { qt.r.as_str() }, if d >= 2000 { "lib" } else if d >= 1000 { "item" } else { "local" });
                if !stats.3.contains(&m) {
                    stats.3.push(m);
                }
                continue;
            }
        };
        // ---- the edit set
        let mut m1_edits: Vec<(usize, usize, String)> = vec![];
        let mut lib_edits: Vec<Vec<(usize, usize, String)>> = vec![vec![]; NLIB];
        let mut other_files = false;
        for (f, es) in edit.content_edits.iter() {
            for e in es {
                let rec = (usize::from(e.delete.start()), usize::from(e.delete.end()), e.insert.to_string());
                if *f == M1 { m1_edits.push(rec) } else if (f.0 as usize) <= NLIB { lib_edits[f.0 as usize - 1].push(rec) } else { other_files = true }
            }
        }
        m1_edits.sort();
        for l in lib_edits.iter_mut() {
            l.sort();
        }
        let mut got_toks: Vec<usize> = vec![];
        let mut bad_edit: Option<Value> = None;
        for (s, e, ins) in &m1_edits {
            match prog.toks.iter().find(|t| t.start == *s && t.end == *e) {
                Some(t) if t.t == old && ins == fresh => got_toks.push(t.idx),
                Some(t) => bad_edit = Some(json!({"edit": [s, e, ins], "token": t.t})),
                None => bad_edit = Some(json!({"edit": [s, e, ins], "token": null})),
            }
        }
        let dup = got_toks.windows(2).any(|w| w[0] == w[1]);
        got_toks.dedup();
        if other_files || bad_edit.is_some() || dup || got_toks != toks || lib_edits != exp_libs {
            let mut f = feat(if bad_edit.is_some() { "edit is not a whole identifier token spelled with the old name" } else if dup { "overlapping edits" } else { "edit set" });
            let mut mr: Vec<String> = toks.iter().filter(|t| !got_toks.contains(t)).map(role_of).collect();
            mr.sort();
            mr.dedup();
            f["missing_roles"] = json!(mr);
            f["extra_tokens"] = json!(got_toks.iter().filter(|t| !toks.contains(t)).count());
            // library side: "ok" / "declaring module" (its declaration or uses differ) / "other module" (a module that does not
            // declare the symbol was edited)
            f["lib_edits"] = json!(if lib_edits == exp_libs { "ok" } else if (0..NLIB).any(|l| Some(l) != dlib && lib_edits[l] != exp_libs[l]) { "other module" } else { "declaring module" });
            res.push(json!({"kind": "mismatch", "prop": "C07", "features": f,
                "detail": detail(json!({"expected_tokens": toks, "got_tokens": got_toks, "lib_edits": lib_edits, "expected_lib_edits": exp_libs, "bad_edit": bad_edit,
                                        "missing": toks.iter().filter(|t| !got_toks.contains(t)).collect::<Vec<_>>(), "extra": got_toks.iter().filter(|t| !toks.contains(t)).collect::<Vec<_>>()}))}));
            continue;
        }
        stats.2 += 1;
        // ---- apply, re-analyse
        let new_m1 = apply(&prog.text, &m1_edits);
        let new_libs: Vec<String> = (0..NLIB).map(|l| apply(LIBS[l].1, &lib_edits[l])).collect();
        // token table of the renamed program (same tokens, shifted offsets)
        let mut shift: isize = 0;
        let mut new_toks: Vec<(usize, usize, usize)> = vec![];
        for t in prog.toks.iter() {
            let (s, e) = ((t.start as isize + shift) as usize, (t.end as isize + shift) as usize);
            let e2 = if toks.contains(&t.idx) { shift += fresh.len() as isize - old.len() as isize; (e as isize + fresh.len() as isize - old.len() as isize) as usize } else { e };
            if IDENT_ROLES.contains(&t.r.as_str()) {
                new_toks.push((t.idx, s, e2));
            }
        }
        let ws2 = gen_ws(shape, &new_m1, &new_libs);
        let a2 = ws2.host.snapshot();
        let after = binding_map(&a2, &new_toks, &new_libs, &decl_toks);
        if after != before {
            let diff: Vec<Value> = before.iter().zip(after.iter()).zip(id_toks.iter()).filter(|((b, a), _)| b != a).map(|((b, a), t)| json!({"token": t.0, "before": b, "after": a})).take(5).collect();
            res.push(json!({"kind": "mismatch", "prop": "C07", "features": feat("binding map changed"), "detail": detail(json!({"new_text": new_m1, "diff": diff}))}));
            continue;
        }
        let nerr_after = a2.diagnostics(M1).unwrap().len();
        if nerr_after != nerr_before {
            res.push(json!({"kind": "mismatch", "prop": "C07", "features": feat("diagnostics changed"), "detail": detail(json!({"new_text": new_m1, "before": nerr_before, "after": nerr_after}))}));
            continue;
        }
        // the library module whose text changed must still be free of errors (its own uses were renamed along)
        if let Some(l) = dlib {
            let n_lib = a2.diagnostics(lib_file(l)).unwrap().len();
            let n_lib_before = a.diagnostics(lib_file(l)).unwrap().len();
            if n_lib != n_lib_before {
                res.push(json!({"kind": "mismatch", "prop": "C07", "features": feat("diagnostics of the library module changed"), "detail": detail(json!({"new_lib": new_libs[l], "before": n_lib_before, "after": n_lib}))}));
                continue;
            }
        }
        // ---- rename back
        let q2off = if qfile == M1 { new_toks.iter().find(|(i, _, _)| *i == q_idx).unwrap().1 } else { qoff };
        match a2.rename(FilePos::new(qfile, (q2off as u32).into()), &old).unwrap() {
            Ok(back) => {
                let mut e1 = vec![];
                let mut e2: Vec<Vec<(usize, usize, String)>> = vec![vec![]; NLIB];
                for (f, es) in back.content_edits.iter() {
                    for e in es {
                        let rec = (usize::from(e.delete.start()), usize::from(e.delete.end()), e.insert.to_string());
                        if *f == M1 { e1.push(rec) } else if (f.0 as usize) <= NLIB { e2[f.0 as usize - 1].push(rec) }
                    }
                }
                let r1 = apply(&new_m1, &e1);
                let r2: Vec<String> = (0..NLIB).map(|l| apply(&new_libs[l], &e2[l])).collect();
                if r1 != prog.text || (0..NLIB).any(|l| r2[l] != LIBS[l].1) {
                    res.push(json!({"kind": "mismatch", "prop": "C07", "features": feat("rename back does not restore the text"), "detail": detail(json!({"new_text": new_m1, "restored": r1, "restored_libs": r2}))}));
                }
            }
            Err(msg) => res.push(json!({"kind": "mismatch", "prop": "C07", "features": feat("rename back refused"), "detail": detail(json!({"new_text": new_m1, "error": msg}))})),
        }
        }
    }
}

fn main() {
    quiet_panics();
    let args: Vec<String> = std::env::args().collect();
    let arg = |name: &str| args.iter().position(|a| a == name).and_then(|i| args.get(i + 1)).cloned();
    let threads: usize = arg("--threads").and_then(|s| s.parse().ok()).unwrap_or(16);
    let seed: u64 = std::env::var("VERIF_SEED").ok().and_then(|s| s.parse().ok()).unwrap_or(1);
    let cases = verif_harness::util::CaseStream::stdin();
    let results = verif_harness::util::Results::new(3);
    let totals = Arc::new(Mutex::new((0u64, 0u64, 0u64, Vec::<String>::new(), 0u64)));
    let mut hs = vec![];
    for _ in 0..threads {
        let (cases, results, totals) = (cases.clone(), results.clone(), totals.clone());
        hs.push(std::thread::Builder::new().stack_size(32 << 20).spawn(move || loop {
            let Some((ci, case_v)) = cases.next() else { break };
            let case = &case_v;
            let mut rng = Rng::new(seed ^ (ci as u64).wrapping_mul(104729));
            let prog = programs::render(case, &mut rng, case["plain"].as_bool().unwrap_or(ci % 3 == 0));
            let mut local = vec![];
            let mut st = (0u64, 0u64, 0u64, Vec::<String>::new());
            let shape = match case_v["shape"].as_str() { Some("one-package") => Shape::OnePackage, Some(_) => Shape::TwoPackages, None => Shape::seeded(seed, ci) };
            let mut case_rec = case_v.clone();
            case_rec["shape"] = json!(shape.name());
            let case = &case_rec;
            if let Err(p) = catch(|| check_program(case, &prog, shape, &mut rng, &mut local, &mut st)) {
                local.push(json!({"kind": "mismatch", "prop": "C07", "features": {"what": "panic", "panic": p}, "detail": {"case": case, "text": prog.text}}));
            }
            let mut t = totals.lock().unwrap();
            t.0 += st.0;
            t.1 += st.1;
            t.2 += st.2;
            for m in st.3 {
                if !t.3.contains(&m) {
                    t.3.push(m);
                }
            }
            t.4 += 1;
            drop(t);
            results.extend(local);
        }).unwrap());
    }
    for h in hs {
        h.join().unwrap();
    }
    let so = std::io::stdout();
    let mut so = so.lock();
    let (counts, _) = results.emit(&mut so);
    let t = totals.lock().unwrap();
    writeln!(so, "{}", json!({"kind": "summary", "programs": t.4, "renames_tried": t.0, "refused": t.1, "edit_sets_equal": t.2,
        "refusal_messages": t.3, "mismatch_classes": counts})).unwrap();
}
