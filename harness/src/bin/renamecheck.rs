//! C07 replay: rename of every declaration of a GleamGen program to a fresh name.
//! The specification supplies, per declaration, the set of tokens a rename must rewrite (`ren`).
use ide::{Analysis, FileId, FilePos, GotoDefinitionResult};
use serde_json::{json, Value};
use std::io::Write;
use std::sync::{Arc, Mutex};
use syntax::lexer::GleamLexer;
use verif_harness::programs::{self, Program, LIB_NAME, LIB_TEXT};
use verif_harness::util::{catch, quiet_panics, Rng};
use verif_harness::workspace;

const M1: FileId = FileId(0);
const M2: FileId = FileId(1);

/// (decl id, token index in the lexed library text)
fn lib_decl_tokens() -> Vec<(u64, usize)> {
    let toks: Vec<(usize, usize)> = GleamLexer::new(LIB_TEXT).map(|t| (usize::from(t.range.start()), usize::from(t.range.end()))).collect();
    programs::lib_decls().iter().map(|(id, off, _)| (*id, toks.iter().position(|(s, _)| s == off).unwrap())).collect()
}

fn lib_decl_range(text: &str, tok_index: usize) -> (usize, usize) {
    let t = GleamLexer::new(text).nth(tok_index).unwrap();
    (usize::from(t.range.start()), usize::from(t.range.end()))
}

/// goto key of every identifier token of m1: "t<idx>" / "l<declid>" / "none" / "o.."
fn binding_map(a: &Analysis, toks: &[(usize, usize, usize)], lib_text: &str, decl_toks: &[(u64, usize)]) -> Vec<String> {
    toks.iter().map(|(_, s, _)| {
        match a.goto_definition(FilePos::new(M1, (*s as u32).into())).unwrap() {
            Some(GotoDefinitionResult::Targets(ts)) if !ts.is_empty() => {
                let n = &ts[0];
                let (fs, fe) = (usize::from(n.focus_range.start()), usize::from(n.focus_range.end()));
                if n.file_id == M1 {
                    toks.iter().find(|(_, ts, te)| *ts >= fs && *te <= fe).map(|(i, _, _)| format!("t{i}")).unwrap_or_else(|| format!("o{fs}"))
                } else if n.file_id == M2 {
                    decl_toks.iter().find(|(_, ti)| { let (s, e) = lib_decl_range(lib_text, *ti); s >= fs && e <= fe }).map(|(id, _)| format!("l{id}"))
                        .unwrap_or_else(|| if fs == 0 { "l2000".into() } else {
                            // some other token of the library: identify it by its index, which a rename does not change
                            let k = GleamLexer::new(lib_text).position(|t| usize::from(t.range.start()) >= fs).unwrap_or(usize::MAX);
                            format!("om2:tok{k}")
                        })
                } else {
                    "ofile".into()
                }
            }
            _ => "none".into(),
        }
    }).collect()
}

fn apply(text: &str, edits: &[(usize, usize, String)]) -> String {
    let mut es = edits.to_vec();
    es.sort();
    let mut out = String::new();
    let mut pos = 0;
    for (s, e, ins) in es {
        if s < pos || e > text.len() {
            return format!("<<overlapping or out-of-range edits>>{text}");
        }
        out.push_str(&text[pos..s]);
        out.push_str(&ins);
        pos = e;
    }
    out.push_str(&text[pos..]);
    out
}

const IDENT_ROLES: &[&str] = &["ref", "def", "spreaddef", "altdef", "modref", "pmodref", "qref", "impname", "impalias", "modpath", "moddef", "pref", "label", "plabel", "field", "tref", "fieldalt", "qtref", "tmodref"];

fn check_program(case: &Value, prog: &Program, rng: &mut Rng, res: &mut Vec<Value>, stats: &mut (u64, u64, u64, Vec<String>)) {
    let decl_toks = lib_decl_tokens();
    let ws = workspace::single_package(&[("m1", &prog.text), (LIB_NAME, LIB_TEXT)]);
    let a = ws.host.snapshot();
    let id_toks: Vec<(usize, usize, usize)> = prog.toks.iter().filter(|t| IDENT_ROLES.contains(&t.r.as_str())).map(|t| (t.idx, t.start, t.end)).collect();
    let before = binding_map(&a, &id_toks, LIB_TEXT, &decl_toks);
    let nerr_before = a.diagnostics(M1).unwrap().len();
    for r in case["ren"].as_array().unwrap() {
        let d = r["d"].as_u64().unwrap();
        let old = r["name"].as_str().unwrap().to_string();
        let mut toks: Vec<usize> = r["toks"].as_array().unwrap().iter().map(|x| x.as_u64().unwrap() as usize).collect();
        toks.sort();
        // the declaring token of a local / item is part of toks; query at a seeded member
        if toks.is_empty() {
            continue;
        }
        let q_idx = toks[rng.below(toks.len())];
        let qt = prog.toks.iter().find(|t| t.idx == q_idx).unwrap();
        let fresh = if old.chars().next().unwrap().is_uppercase() { "Zz9" } else { "zz9" };
        stats.0 += 1;
        let role_of = |i: &usize| prog.toks.iter().find(|t| t.idx == *i).map(|t| t.r.clone()).unwrap_or_default();
        let feat = |what: &str| json!({"what": what, "site": qt.r, "decl": if d >= 2000 { "lib" } else if d >= 1000 { "item" } else { "local" },
            "decl_role": prog.toks.iter().find(|t| t.idx as u64 == d).map(|t| t.r.clone()).unwrap_or_default(), "ctx": qt.ctx.join("/")});
        let detail = |extra: Value| json!({"case": case, "text": prog.text, "decl": d, "old": old, "query_token": {"idx": qt.idx, "offset": qt.start}, "info": extra});
        // a library declaration is renamed twice: from the seeded occurrence in m1 and from its declaration in m2
        let mut sites: Vec<(FileId, usize)> = vec![(M1, qt.start)];
        if d >= 2000 {
            let ti = decl_toks.iter().find(|(id, _)| *id == d).unwrap().1;
            sites.push((M2, lib_decl_range(LIB_TEXT, ti).0));
        }
        for (qfile, qoff) in sites {
        let feat = |what: &str| { let mut f = feat(what); if qfile == M2 { f["site"] = json!("libdecl"); } f };
        let edit = match a.rename(FilePos::new(qfile, (qoff as u32).into()), fresh).unwrap() {
            Ok(e) => e,
            Err(msg) => {
                stats.1 += 1;
                let m = format!("{msg} [site {} of a {} declaration]", if qfile == M2 { "libdecl" } else { qt.r.as_str() }, if d >= 2000 { "lib" } else if d >= 1000 { "item" } else { "local" });
                if !stats.3.contains(&m) {
                    stats.3.push(m);
                }
                continue;
            }
        };
        // ---- the edit set
        let mut m1_edits: Vec<(usize, usize, String)> = vec![];
        let mut m2_edits: Vec<(usize, usize, String)> = vec![];
        let mut other_files = false;
        for (f, es) in edit.content_edits.iter() {
            for e in es {
                let rec = (usize::from(e.delete.start()), usize::from(e.delete.end()), e.insert.to_string());
                if *f == M1 { m1_edits.push(rec) } else if *f == M2 { m2_edits.push(rec) } else { other_files = true }
            }
        }
        m1_edits.sort();
        m2_edits.sort();
        let mut got_toks: Vec<usize> = vec![];
        let mut bad_edit: Option<Value> = None;
        for (s, e, ins) in &m1_edits {
            match prog.toks.iter().find(|t| t.start == *s && t.end == *e) {
                Some(t) if t.t == old && ins == fresh => got_toks.push(t.idx),
                Some(t) => bad_edit = Some(json!({"edit": [s, e, ins], "token": t.t})),
                None => bad_edit = Some(json!({"edit": [s, e, ins], "token": null})),
            }
        }
        let dup = got_toks.windows(2).any(|w| w[0] == w[1]);
        got_toks.dedup();
        let exp_m2: Vec<(usize, usize, String)> = if d >= 2000 {
            let ti = decl_toks.iter().find(|(id, _)| *id == d).unwrap().1;
            let (s, e) = lib_decl_range(LIB_TEXT, ti);
            vec![(s, e, fresh.to_string())]
        } else {
            vec![]
        };
        if other_files || bad_edit.is_some() || dup || got_toks != toks || m2_edits != exp_m2 {
            let mut f = feat(if bad_edit.is_some() { "edit is not a whole identifier token spelled with the old name" } else if dup { "overlapping edits" } else { "edit set" });
            let mut mr: Vec<String> = toks.iter().filter(|t| !got_toks.contains(t)).map(role_of).collect();
            mr.sort();
            mr.dedup();
            f["missing_roles"] = json!(mr);
            f["extra_tokens"] = json!(got_toks.iter().filter(|t| !toks.contains(t)).count());
            res.push(json!({"kind": "mismatch", "prop": "C07", "features": f,
                "detail": detail(json!({"expected_tokens": toks, "got_tokens": got_toks, "m2_edits": m2_edits, "expected_m2": exp_m2, "bad_edit": bad_edit,
                                        "missing": toks.iter().filter(|t| !got_toks.contains(t)).collect::<Vec<_>>(), "extra": got_toks.iter().filter(|t| !toks.contains(t)).collect::<Vec<_>>()}))}));
            continue;
        }
        stats.2 += 1;
        // ---- apply, re-analyse
        let new_m1 = apply(&prog.text, &m1_edits);
        let new_m2 = apply(LIB_TEXT, &m2_edits);
        // token table of the renamed program (same tokens, shifted offsets)
        let mut shift: isize = 0;
        let mut new_toks: Vec<(usize, usize, usize)> = vec![];
        for t in prog.toks.iter() {
            let (s, e) = ((t.start as isize + shift) as usize, (t.end as isize + shift) as usize);
            let e2 = if toks.contains(&t.idx) { shift += fresh.len() as isize - old.len() as isize; (e as isize + fresh.len() as isize - old.len() as isize) as usize } else { e };
            if IDENT_ROLES.contains(&t.r.as_str()) {
                new_toks.push((t.idx, s, e2));
            }
        }
        let ws2 = workspace::single_package(&[("m1", &new_m1), (LIB_NAME, &new_m2)]);
        let a2 = ws2.host.snapshot();
        let after = binding_map(&a2, &new_toks, &new_m2, &decl_toks);
        if after != before {
            let diff: Vec<Value> = before.iter().zip(after.iter()).zip(id_toks.iter()).filter(|((b, a), _)| b != a).map(|((b, a), t)| json!({"token": t.0, "before": b, "after": a})).take(5).collect();
            res.push(json!({"kind": "mismatch", "prop": "C07", "features": feat("binding map changed"), "detail": detail(json!({"new_text": new_m1, "diff": diff}))}));
            continue;
        }
        let nerr_after = a2.diagnostics(M1).unwrap().len();
        if nerr_after != nerr_before {
            res.push(json!({"kind": "mismatch", "prop": "C07", "features": feat("diagnostics changed"), "detail": detail(json!({"new_text": new_m1, "before": nerr_before, "after": nerr_after}))}));
            continue;
        }
        // ---- rename back
        let q2off = if qfile == M1 { new_toks.iter().find(|(i, _, _)| *i == q_idx).unwrap().1 } else { qoff };
        match a2.rename(FilePos::new(qfile, (q2off as u32).into()), &old).unwrap() {
            Ok(back) => {
                let mut e1 = vec![];
                let mut e2 = vec![];
                for (f, es) in back.content_edits.iter() {
                    for e in es {
                        let rec = (usize::from(e.delete.start()), usize::from(e.delete.end()), e.insert.to_string());
                        if *f == M1 { e1.push(rec) } else { e2.push(rec) }
                    }
                }
                let r1 = apply(&new_m1, &e1);
                let r2 = apply(&new_m2, &e2);
                if r1 != prog.text || r2 != LIB_TEXT {
                    res.push(json!({"kind": "mismatch", "prop": "C07", "features": feat("rename back does not restore the text"), "detail": detail(json!({"new_text": new_m1, "restored": r1}))}));
                }
            }
            Err(msg) => res.push(json!({"kind": "mismatch", "prop": "C07", "features": feat("rename back refused"), "detail": detail(json!({"new_text": new_m1, "error": msg}))})),
        }
        }
    }
}

fn main() {
    quiet_panics();
    let args: Vec<String> = std::env::args().collect();
    let arg = |name: &str| args.iter().position(|a| a == name).and_then(|i| args.get(i + 1)).cloned();
    let threads: usize = arg("--threads").and_then(|s| s.parse().ok()).unwrap_or(16);
    let seed: u64 = std::env::var("VERIF_SEED").ok().and_then(|s| s.parse().ok()).unwrap_or(1);
    let cases = verif_harness::util::CaseStream::stdin();
    let results = verif_harness::util::Results::new(3);
    let totals = Arc::new(Mutex::new((0u64, 0u64, 0u64, Vec::<String>::new(), 0u64)));
    let mut hs = vec![];
    for _ in 0..threads {
        let (cases, results, totals) = (cases.clone(), results.clone(), totals.clone());
        hs.push(std::thread::Builder::new().stack_size(32 << 20).spawn(move || loop {
            let Some((ci, case_v)) = cases.next() else { break };
            let case = &case_v;
            let mut rng = Rng::new(seed ^ (ci as u64).wrapping_mul(104729));
            let prog = programs::render(case, &mut rng, case["plain"].as_bool().unwrap_or(ci % 3 == 0));
            let mut local = vec![];
            let mut st = (0u64, 0u64, 0u64, Vec::<String>::new());
            if let Err(p) = catch(|| check_program(case, &prog, &mut rng, &mut local, &mut st)) {
                local.push(json!({"kind": "mismatch", "prop": "C07", "features": {"what": "panic", "panic": p}, "detail": {"case": case, "text": prog.text}}));
            }
            let mut t = totals.lock().unwrap();
            t.0 += st.0;
            t.1 += st.1;
            t.2 += st.2;
            for m in st.3 {
                if !t.3.contains(&m) {
                    t.3.push(m);
                }
            }
            t.4 += 1;
            drop(t);
            results.extend(local);
        }).unwrap());
    }
    for h in hs {
        h.join().unwrap();
    }
    let so = std::io::stdout();
    let mut so = so.lock();
    let (counts, _) = results.emit(&mut so);
    let t = totals.lock().unwrap();
    writeln!(so, "{}", json!({"kind": "summary", "programs": t.4, "renames_tried": t.0, "refused": t.1, "edit_sets_equal": t.2,
        "refusal_messages": t.3, "mismatch_classes": counts})).unwrap();
}
