//! C09 replay: programs of spec/Typing.tla; hover on every binder and function name must show the type the
//! specification assigned (types compared as text after whitespace normalisation and renaming of type variables).
use ide::{FileId, FilePos};
use serde_json::{json, Value};
use std::io::Write;
use std::sync::{Arc, Mutex};
use verif_harness::util::{catch, quiet_panics, CaseStream, Results, Rng};
use verif_harness::workspace;

const PRELUDE: &str = "pub type T { T(a: Int, b: String) }\npub type Box(x) { Box(inner: x) }\nfn id(x) { x }\nfn apply(x: a, f: fn(a) -> b) -> b { f(x) }\nfn map(l: List(a), f: fn(a) -> b) -> List(b) { case l { [] -> [] [h, ..t] -> [f(h), ..map(t, f)] } }\nfn add(a: Int, b: Int) -> Int { a + b }\nfn mk_ok(x: a, e: b) -> Result(a, b) { Ok(x) }\nfn mk_err(x: a, e: b) -> Result(a, b) { Error(e) }\npub type M { M(Int, key: String, value: Float) }\nfn wrap(item) { item }\nfn item() { wrap(1) }\npub type Fx(r) { Fx(run: fn(Int) -> r) }\nfn ping(value, count) { let boxed = #(value, []) case count { 0 -> value _ -> pong(value, count - 1) } }\nfn pong(item, left) { let wrapped = #(item, []) case left { 0 -> item _ -> ping(item, left - 1) } }\nfn countdown(n, label) { case n { 0 -> label _ -> countdown(n - 1, \"tick\") } }\npub type BitArray { BitArray(bits: Int) }\nfn bits_of(x: BitArray) { let got = x.bits got }\n";
/// the library module `pal`, imported by the generated module and used qualified
const HEADER: &str = "import pal.{Shade}\n";
const HUE: &str = "import base\npub fn h() { base.z() }\n";
const TONE: &str = "import base\npub fn t() { base.z() + 1 }\n";
const BASE: &str = "pub fn z() { 1 }\n";
/// (its own imports form a diamond: hue and tone both import base)
const PAL: &str = "import hue\nimport tone\npub fn tint() { #(hue.h(), tone.t()) }\npub type Color { Red Green }\npub type Shade { Shade(c: Color, n: Int) }\npub fn mix(a: Color, b: Color) -> Color { case a { Red -> b Green -> a } }\npub fn keep(x: a, y: b) -> a { x }\n";

fn first_code_block(markup: &str) -> String {
    let mut it = markup.split("```");
    it.next();
    let body = it.next().unwrap_or("");
    let body = body.strip_prefix("gleam").unwrap_or(body);
    body.split_whitespace().collect::<Vec<_>>().join(" ")
}

/// rename lowercase type variables (a, b, ..) by first occurrence so that naming does not matter
fn alpha(ty: &str) -> String {
    let mut out = String::new();
    let mut names: Vec<String> = vec![];
    let mut cur = String::new();
    let flush = |cur: &mut String, out: &mut String, names: &mut Vec<String>| {
        if cur.is_empty() { return; }
        let is_var = cur.chars().next().unwrap().is_ascii_lowercase() && cur != "fn" && !cur.starts_with('g') || (cur.len() == 1 && cur.chars().next().unwrap().is_ascii_lowercase());
        if is_var && cur != "fn" {
            let i = names.iter().position(|n| n == cur).unwrap_or_else(|| { names.push(cur.clone()); names.len() - 1 });
            out.push_str(&format!("'{i}"));
        } else {
            out.push_str(cur);
        }
        cur.clear();
    };
    for c in ty.chars() {
        if c.is_alphanumeric() || c == '_' {
            cur.push(c);
        } else {
            flush(&mut cur, &mut out, &mut names);
            out.push(c);
        }
    }
    flush(&mut cur, &mut out, &mut names);
    out
}

/// `fn name(P1, P2) -> R` split into (parameters, result) at the top level of the parameter list
fn split_sig(sig: &str) -> Option<(Vec<String>, String)> {
    let open = sig.find('(')?;
    let (mut depth, mut start, mut params, mut close) = (0i32, open + 1, vec![], None);
    for (i, c) in sig.char_indices().skip(open) {
        match c {
            '(' => depth += 1,
            ')' => {
                depth -= 1;
                if depth == 0 {
                    if !sig[start..i].trim().is_empty() { params.push(sig[start..i].trim().to_string()); }
                    close = Some(i);
                    break;
                }
            }
            ',' if depth == 1 => {
                params.push(sig[start..i].trim().to_string());
                start = i + 1;
            }
            _ => {}
        }
    }
    let rest = sig[close? + 1..].trim();
    Some((params, rest.strip_prefix("->")?.trim().to_string()))
}

/// the displayed signature has the expected parameters in another order (and the expected result)
fn is_param_permutation(expected: &str, got: &str) -> bool {
    match (split_sig(expected), split_sig(got)) {
        (Some((mut pe, re)), Some((mut pg, rg))) => {
            if pe == pg || re != rg { return false; }
            pe.sort();
            pg.sort();
            pe == pg
        }
        _ => false,
    }
}

fn main() {
    quiet_panics();
    let args: Vec<String> = std::env::args().collect();
    let arg = |name: &str| args.iter().position(|a| a == name).and_then(|i| args.get(i + 1)).cloned();
    let threads: usize = arg("--threads").and_then(|s| s.parse().ok()).unwrap_or(16);
    let seed: u64 = std::env::var("VERIF_SEED").ok().and_then(|s| s.parse().ok()).unwrap_or(1);
    // what hovering the prelude's functions must show: [{"name": .., "sig": ..}] (PreludeSigs of the specification)
    let prelude_sigs: Vec<(String, String)> = arg("--prelude").map(|p| {
        let v: Value = serde_json::from_str(&std::fs::read_to_string(&p).expect("prelude file")).expect("prelude json");
        v.as_array().unwrap().iter().map(|e| (e["name"].as_str().unwrap().to_string(), e["sig"].as_str().unwrap().to_string())).collect()
    }).unwrap_or_default();
    let prelude_sigs = Arc::new(prelude_sigs);
    let cases = CaseStream::stdin();
    let results = Results::new(2);
    let totals = Arc::new(Mutex::new((0u64, 0u64, 0u64, Vec::<Value>::new(), 0u64)));
    let mut hs = vec![];
    for _ in 0..threads {
        let (cases, results, totals, prelude_sigs) = (cases.clone(), results.clone(), totals.clone(), prelude_sigs.clone());
        hs.push(std::thread::Builder::new().stack_size(64 << 20).spawn(move || loop {
            let Some((ci, case)) = cases.next() else { break };
            let case = &case;
            let mut rng = Rng::new(seed ^ (ci as u64).wrapping_mul(40503));
            // split the token stream into functions, render them in a seeded order after (or before) the prelude
            let toks = case["out"].as_array().unwrap();
            let mut funs: Vec<Vec<&Value>> = vec![];
            for t in toks {
                match t["r"].as_str().unwrap() {
                    "funstart" => funs.push(vec![]),
                    "funend" => {}
                    _ => funs.last_mut().unwrap().push(t),
                }
            }
            let mut order: Vec<usize> = (0..funs.len()).collect();
            if case["order"].is_array() {
                order = case["order"].as_array().unwrap().iter().map(|x| x.as_u64().unwrap() as usize).collect();
            } else {
                for i in (1..order.len()).rev() {
                    order.swap(i, rng.below(i + 1));
                }
            }
            let prelude_first = case["prelude_first"].as_bool().unwrap_or(rng.chance(1, 2));
            let mut text = String::from(HEADER);
            if prelude_first { text.push_str(PRELUDE); }
            let mut probes: Vec<(usize, String, String, String)> = vec![]; // offset, name, role (binder / spread_binder / fun), expected type
            let mut prev = String::new();
            let mut gtoks: Vec<(usize, String, String)> = vec![];   // generator tokens of the generated part: offset, text, role
            let mut sigprobes: Vec<(usize, String, usize)> = vec![];
            for &fi in &order {
                for t in &funs[fi] {
                    let s = t["t"].as_str().unwrap();
                    if s.is_empty() { continue; }
                    if !text.is_empty() && !text.ends_with('\n') { text.push(' '); }
                    if matches!(t["r"].as_str().unwrap(), "binder" | "fun") {
                        let role = if prev == ".." { "spread_binder" } else { t["r"].as_str().unwrap() };
                        probes.push((text.len(), s.to_string(), role.to_string(), t["ty"].as_str().unwrap().to_string()));
                    }
                    let role = t["r"].as_str().unwrap();
                    if role == "callopen" || role.starts_with("argsep") {
                        // signature help with the cursor right after this token: expected signature text, active parameter
                        let active = role.strip_prefix("argsep").and_then(|n| n.parse::<usize>().ok()).unwrap_or(0);
                        sigprobes.push((text.len() + s.len(), t["ty"].as_str().unwrap().to_string(), active));
                    }
                    gtoks.push((text.len(), s.to_string(), t["r"].as_str().unwrap().to_string()));
                    text.push_str(s);
                    prev = s.to_string();
                }
                text.push('\n');
            }
            let prelude_at = if prelude_first { HEADER.len() } else { text.len() };
            if !prelude_first { text.push_str(PRELUDE); }
            for (name, sig) in prelude_sigs.iter() {
                // a function `name` of the prelude, or - "let name" - a binder inside one of them
                let off = match name.strip_prefix("let ") {
                    Some(b) => PRELUDE.find(&format!("let {b} ")).expect("prelude binder") + 4,
                    None => PRELUDE.find(&format!("fn {name}(")).expect("prelude function") + 3,
                };
                probes.push((prelude_at + off, name.clone(), "prelude_fun".to_string(), sig.clone()));
            }
            let mut local = vec![];
            let mut nprobe = 0u64;
            let mut nsig = 0u64;
            let mut sig_bad: Option<Value> = None;
            let mut hl_bad: Option<Value> = None;
            let r = catch(|| {
                let ws = workspace::single_package(&[("m1", &text), ("pal", PAL), ("hue", HUE), ("tone", TONE), ("base", BASE)]);
                let a = ws.host.snapshot();
                let diags = a.diagnostics(FileId(0)).unwrap();
                if !diags.is_empty() {
                    return Some(json!({"what": "diagnostics on a generated program", "diag": format!("{:?}", diags[0]).chars().take(200).collect::<String>()}));
                }
                // C19: function references, constructors and function-typed locals are highlighted, nothing else
                {
                    let hl = a.syntax_highlight(FileId(0), None).unwrap();
                    let binder_ty: std::collections::HashMap<&str, &str> = probes.iter().filter(|p| p.2 != "fun" && p.2 != "prelude_fun").map(|p| (p.1.as_str(), p.3.as_str())).collect();
                    for (k, (off, s, r)) in gtoks.iter().enumerate() {
                        let first = s.chars().next().unwrap_or(' ');
                        if !(first.is_ascii_alphabetic()) || r == "type" { continue; }
                        let prev = if k > 0 { gtoks[k - 1].1.as_str() } else { "" };
                        let next = gtoks.get(k + 1).map(|t| t.1.as_str()).unwrap_or("");
                        let is_def = r == "binder" || r == "fun";
                        let is_label = next == ":" && (prev == "(" || prev == ",") && !is_def;
                        let prev2 = if k > 1 { gtoks[k - 2].1.as_str() } else { "" };
                        let qualified = prev == "." && prev2 == "pal";       // pal.Red, pal.mix
                        let is_field = prev == "." && !qualified;
                        let exp: Option<&str> = if is_def || is_label || is_field { None }
                            else if s == "pal" && next == "." { Some("Module") }
                            else if qualified { if first.is_ascii_uppercase() { Some("Constructor") } else { Some("Function") } }
                            else if ["id", "apply", "map", "add", "mk_ok", "mk_err", "wrap", "ping", "pong", "countdown", "bits_of"].contains(&s.as_str()) || (s.len() > 1 && s.starts_with('g') && s[1..].chars().all(|c| c.is_ascii_digit())) { Some("Function") }
                            else if s == "T" || s == "Box" || s == "M" || s == "Fx" || s == "Shade" || s == "BitArray" { Some("Constructor") }
                            else if let Some(ty) = binder_ty.get(s.as_str()) { if ty.starts_with("fn(") { Some("Function") } else { None } }
                            else { None };
                        let got = hl.iter().find(|h| usize::from(h.range.start()) == *off && usize::from(h.range.end()) == off + s.len()).map(|h| format!("{:?}", h.tag));
                        if exp.map(|x| x.to_string()) != got {
                            // the reference is the operand of a prefix operator (`! f(..)`, `- f(..)` after `{` or `=`)
                            let prev2 = if k > 1 { gtoks[k - 2].1.as_str() } else { "" };
                            let prefix_operand = prev == "!" || (prev == "-" && (prev2 == "{" || prev2 == "="));
                            // (recorded, not returned: the type probes below are a different property's and must still run)
                            if hl_bad.is_none() { hl_bad = Some(json!({"what": "highlight", "token": s, "expected": exp, "got": got, "offset": off, "prefix_operand": prefix_operand})); }
                            break;
                        }
                    }
                }
                // S01 (supplementary): signature help at the call sites the specification tagged
                for (off, sig, active) in &sigprobes {
                    nsig += 1;
                    let got = a.signature_help(FilePos::new(FileId(0), (*off as u32).into())).unwrap();
                    let ok = match &got { Some(h) => alpha(&h.signature) == alpha(sig) && h.active_parameter == Some(*active), None => false };
                    if !ok {
                        sig_bad = Some(json!({"what": "signature help", "expected": sig, "expected_active": active, "offset": off,
                            "got": got.as_ref().map(|h| h.signature.clone()), "got_active": got.as_ref().and_then(|h| h.active_parameter)}));
                        break;
                    }
                }
                for (off, name, role, exp) in &probes {
                    nprobe += 1;
                    let h = a.hover(FilePos::new(FileId(0), (*off as u32).into())).unwrap();
                    let got = h.map(|h| first_code_block(&h.markup)).unwrap_or_else(|| "<no hover>".into());
                    let expn: String = exp.split_whitespace().collect::<Vec<_>>().join(" ");
                    if alpha(&got) != alpha(&expn) {
                        return Some(json!({"what": "type", "role": role, "name": name, "expected": expn, "got": got}));
                    }
                }
                None
            });
            let bad = match r { Ok(b) => b, Err(p) => Some(json!({"what": "panic", "panic": p})) };
            if let Some(b) = sig_bad.take() {
                let mut c = case.clone();
                c["order"] = json!(order);
                c["prelude_first"] = json!(prelude_first);
                let none = b["got"].is_null();
                let active_only = !none && b["got"].as_str().map(|g| alpha(g) == alpha(b["expected"].as_str().unwrap())).unwrap_or(false);
                local.push(json!({"kind": "mismatch", "prop": "S01", "features": {"what": "signature help", "none": none, "active_only": active_only, "expected_active": b["expected_active"]},
                    "detail": {"case": c, "text": text, "bad": b}}));
            }
            for b in hl_bad.take().into_iter().chain(bad.into_iter()) {
                let mut c = case.clone();
                c["order"] = json!(order);
                c["prelude_first"] = json!(prelude_first);
                // coarse shape of expected / got for grouping
                let shape = |s: &str| -> String { s.chars().filter(|c| !c.is_ascii_digit()).collect::<String>() };
                let got_has_var = b["got"].as_str().map(|g| alpha(g).contains('\'')).unwrap_or(false);
                let got_is_perm = match (b["expected"].as_str(), b["got"].as_str()) { (Some(e), Some(g)) => is_param_permutation(&alpha(e), &alpha(g)), _ => false };
                let prop = if b["what"] == "highlight" { "C19" } else { "C09" };
                local.push(json!({"kind": "mismatch", "prop": prop, "features": {"what": b["what"], "role": b["role"], "got_has_var": got_has_var, "got_is_perm": got_is_perm, "prefix_operand": b["prefix_operand"],
                    "no_hover": b["got"] == "<no hover>",
                    "expected": b["expected"].as_str().map(shape), "got": b["got"].as_str().map(shape)},
                    "detail": {"case": c, "text": text, "bad": b, "prelude": prelude_sigs.iter().map(|(n, s)| json!({"name": n, "sig": s})).collect::<Vec<_>>()}}));
            }
            let mut t = totals.lock().unwrap();
            t.0 += 1;
            t.1 += nprobe;
            t.4 += nsig;
            if funs.len() > 1 { t.2 += 1; }
            if t.3.len() < 2 && probes.len() > 6 {
                t.3.push(json!({"text": text.replace(PRELUDE, "<prelude>\n"), "expected": probes.iter().map(|p| json!([p.1, p.3])).collect::<Vec<_>>()}));
            }
            drop(t);
            results.extend(local);
        }).unwrap());
    }
    for h in hs {
        h.join().unwrap();
    }
    let so = std::io::stdout();
    let mut so = so.lock();
    let (counts, _) = results.emit(&mut so);
    let t = totals.lock().unwrap();
    writeln!(so, "{}", json!({"kind": "summary", "programs": t.0, "hovers": t.1, "signature_helps": t.4, "multi_function_programs": t.2, "samples": t.3, "mismatch_classes": counts})).unwrap();
}
