//! C08 replay: rows of the RenameGate decision table (TLC-emitted) against ide::Analysis::{prepare_rename, rename}.
//!
//! One workspace per locality, built the way crates/glas/src/server.rs::assemble_graph builds it:
//!   app    root /app                      is_local = true   (the package the editor works in)
//!   shared root /shared                   is_local = true   (a path dependency of app)
//!   dep    root /app/build/packages/dep   is_local = false  (a registry dependency of app)
//! The module `lib` holding every definition lives in app ("same"), shared ("path") or dep ("registry"); the modules
//! main/unq/ali/modali that use it from another module always live in app.  An occurrence is (module, needle,
//! offset inside the needle); the needle must occur exactly once in that module.
//!
//! stdin: one JSON row per line {occ, kind, via, site, locality, class, chars, req, valid, prep, ren}
//! stdout: {"kind":"mismatch","features":{..},"detail":{..}} lines and one {"kind":"summary",..} line.
use ide::{AnalysisHost, Change, Dependency, FileId, FilePos, FileSet, PackageGraph, SourceRoot, VfsPath};
use serde_json::{json, Value};
use std::collections::{BTreeMap, HashMap};
use std::io::{BufRead, Write};
use syntax::{lexer::GleamLexer, SyntaxKind};
use verif_harness::util::{catch, quiet_panics};

const LIB: &str = r#"pub const konst = 42

pub type Shape {
  Circle(radius: Int, tag: Int)
  Square(side: Int)
}

pub type Pt {
  Point(px: Int, py: Int)
}

pub type Alias =
  Shape

pub fn func(param: Int) -> Int {
  param + konst
}

pub fn caller() -> Int {
  func(konst)
}

pub fn labelled(with arg: Int) -> Int {
  arg
}

pub fn area(shape: Shape) -> Int {
  case shape {
    Circle(radius: r, tag: _) -> r
    Square(side) -> side
  }
}

pub fn mk() -> Alias {
  Circle(radius: 1, tag: 2)
}

pub fn getx(pt: Pt) -> Int {
  pt.px
}

pub fn locals(list: List(Int)) -> Int {
  let letv = 1
  let cased = case letv {
    casev -> casev
  }
  let whole = case list {
    [first, ..rest] -> sum(rest) + first
    [] as aspat -> sum(aspat)
  }
  use usev <- apply(cased)
  let lam = fn(lamp) { lamp }
  usev + whole + lam(1)
}

fn apply(x: Int, f: fn(Int) -> Int) -> Int {
  f(x)
}

fn sum(l: List(Int)) -> Int {
  0
}

pub fn ident(tv: tvar) -> tvar {
  tv
}

pub fn builtins(b: Int) -> Result(Int, Nil) {
  case True {
    False -> Error(Nil)
    _ -> Ok(b)
  }
}
"#;

const MAIN: &str = r#"import lib

pub fn main() -> Int {
  let s: lib.Shape = lib.Circle(radius: 1, tag: 2)
  let a: lib.Alias = s
  lib.func(lib.konst)
}

pub fn pm(s: lib.Shape) -> Int {
  case s {
    lib.Circle(radius: r, tag: _) -> r
    lib.Square(side) -> side
  }
}

pub fn fa(p: lib.Pt) -> Int {
  p.px
}

pub fn lab() -> Int {
  lib.labelled(with: 1)
}
"#;

const UNQ: &str = r#"import lib.{func, konst, type Shape, type Alias, Circle, Square}

pub fn main() -> Int {
  let s: Shape = Circle(radius: 1, tag: 2)
  let a: Alias = s
  func(konst)
}

pub fn pm(s: Shape) -> Int {
  case s {
    Circle(radius: r, tag: _) -> r
    Square(side) -> side
  }
}
"#;

const ALI: &str = r#"import lib.{func as gfunc, konst as gkonst, type Shape as GShape, type Alias as GAlias, Circle as GCircle}

pub fn main() -> Int {
  let s: GShape = GCircle(radius: 1, tag: 2)
  let a: GAlias = s
  gfunc(gkonst)
}

pub fn pm(s: GShape) -> Int {
  case s {
    GCircle(radius: r, tag: _) -> r
    _ -> 0
  }
}
"#;

const MODALI: &str = r#"import lib as lb

pub fn main() -> Int {
  let s: lb.Shape = lb.Circle(radius: 1, tag: 2)
  lb.func(lb.konst)
}
"#;

/// a module that declares names of its own with the spellings of the library's and still means the library's when it
/// writes `lib.name`
const SHADOW: &str = r#"import lib

pub type Shape {
  Circle(mine: Int)
  Other
}

pub type Alias =
  Int

pub const konst = 7

pub fn func(x: Int) -> Int {
  x
}

pub fn main(own: Shape) -> Int {
  let s: lib.Shape = lib.Circle(radius: 1, tag: 2)
  let a: lib.Alias = s
  let _ = #(own, a, Circle(mine: 1), func(konst))
  lib.func(lib.konst)
}

pub fn pm(s: lib.Shape) -> Int {
  case s {
    lib.Circle(radius: r, tag: _) -> r
    _ -> 0
  }
}
"#;

struct Occ {
    id: &'static str,
    kind: &'static str,
    via: &'static str,
    site: &'static str,
    module: &'static str,
    needle: &'static str,
    off: usize,
}

const fn o(id: &'static str, kind: &'static str, via: &'static str, site: &'static str, module: &'static str, needle: &'static str, off: usize) -> Occ {
    Occ { id, kind, via, site, module, needle, off }
}

/// The symbol occurrences of the fixed source family.  `via`: direct (definition or a use in the defining module),
/// qualified (m.x), unqualified (imported and spelled by its own name), alias (imported `x as y`, spelled y),
/// modalias (qualified through `import m as n`: the symbol itself is spelled by its own name).
const OCCS: &[Occ] = &[
    o("function.def", "function", "direct", "def", "lib", "fn func(", 3),
    o("function.use", "function", "direct", "use", "lib", "func(konst)", 0),
    o("function.qualified", "function", "qualified", "use", "main", "lib.func(", 4),
    o("function.unq_import", "function", "unqualified", "use", "unq", "{func,", 1),
    o("function.unq_use", "function", "unqualified", "use", "unq", "func(konst)", 0),
    o("function.alias_orig", "function", "unqualified", "use", "ali", "{func as", 1),
    o("function.alias_import", "function", "alias", "use", "ali", "as gfunc,", 3),
    o("function.alias_use", "function", "alias", "use", "ali", "gfunc(gkonst)", 0),
    o("function.modalias", "function", "modalias", "use", "modali", "lb.func(", 3),
    o("function.qualified_shadowed", "function", "qualified", "use", "shadow", "lib.func(", 4),
    o("constant.def", "constant", "direct", "def", "lib", "const konst", 6),
    o("constant.use", "constant", "direct", "use", "lib", "param + konst", 8),
    o("constant.qualified", "constant", "qualified", "use", "main", "(lib.konst)", 5),
    o("constant.unq_import", "constant", "unqualified", "use", "unq", " konst,", 1),
    o("constant.unq_use", "constant", "unqualified", "use", "unq", "func(konst)", 5),
    o("constant.alias_orig", "constant", "unqualified", "use", "ali", " konst as", 1),
    o("constant.alias_import", "constant", "alias", "use", "ali", "as gkonst,", 3),
    o("constant.alias_use", "constant", "alias", "use", "ali", "gfunc(gkonst)", 6),
    o("constant.modalias", "constant", "modalias", "use", "modali", "(lb.konst)", 4),
    o("constant.qualified_shadowed", "constant", "qualified", "use", "shadow", "(lib.konst)", 5),
    o("field.def", "field", "direct", "def", "lib", "Circle(radius: Int", 7),
    o("field.arg_label", "field", "direct", "use", "lib", "Circle(radius: 1", 7),
    o("field.pattern_label", "field", "direct", "use", "lib", "Circle(radius: r", 7),
    o("field.access_def", "field", "direct", "def", "lib", "Point(px: Int", 6),
    o("field.access", "field", "direct", "use", "lib", "pt.px", 3),
    o("field.access_other_module", "field", "qualified", "use", "main", "p.px", 2),
    o("field.arg_label_qualified", "field", "qualified", "use", "main", "lib.Circle(radius: 1", 11),
    o("field.pattern_label_qualified", "field", "qualified", "use", "main", "lib.Circle(radius: r", 11),
    o("field.arg_label_alias_ctor", "field", "direct", "use", "ali", "GCircle(radius: 1", 8),
    o("param.def", "param", "direct", "def", "lib", "func(param: Int", 5),
    o("param.use", "param", "direct", "use", "lib", "param + konst", 0),
    o("param.labelled_def", "param", "direct", "def", "lib", "with arg: Int", 5),
    o("param.labelled_use", "param", "direct", "use", "lib", "  arg\n", 2),
    o("let_local.def", "let_local", "direct", "def", "lib", "let letv", 4),
    o("let_local.use", "let_local", "direct", "use", "lib", "case letv", 5),
    o("case_local.def", "case_local", "direct", "def", "lib", "casev ->", 0),
    o("case_local.use", "case_local", "direct", "use", "lib", "-> casev", 3),
    o("ctor_arg_local.def", "case_local", "direct", "def", "lib", "Square(side) ->", 7),
    o("ctor_arg_local.use", "case_local", "direct", "use", "lib", "-> side", 3),
    o("list_elem_local.def", "case_local", "direct", "def", "lib", "[first,", 1),
    o("list_elem_local.use", "case_local", "direct", "use", "lib", "+ first", 2),
    o("use_local.def", "use_local", "direct", "def", "lib", "use usev", 4),
    o("use_local.use", "use_local", "direct", "use", "lib", "usev + whole", 0),
    o("as_local.def", "as_local", "direct", "def", "lib", "as aspat", 3),
    o("as_local.use", "as_local", "direct", "use", "lib", "sum(aspat)", 4),
    o("spread_local.def", "spread_local", "direct", "def", "lib", "..rest]", 2),
    o("spread_local.use", "spread_local", "direct", "use", "lib", "sum(rest)", 4),
    o("lambda_param.def", "lambda_param", "direct", "def", "lib", "fn(lamp)", 3),
    o("lambda_param.use", "lambda_param", "direct", "use", "lib", "{ lamp }", 2),
    o("type.def", "type", "direct", "def", "lib", "type Shape {", 5),
    o("type.use", "type", "direct", "use", "lib", "(shape: Shape)", 8),
    o("type.qualified", "type", "qualified", "use", "main", "s: lib.Shape =", 7),
    o("type.unq_import", "type", "unqualified", "use", "unq", "type Shape,", 5),
    o("type.unq_use", "type", "unqualified", "use", "unq", "s: Shape =", 3),
    o("type.alias_orig", "type", "unqualified", "use", "ali", "type Shape as", 5),
    o("type.alias_import", "type", "alias", "use", "ali", "as GShape,", 3),
    o("type.alias_use", "type", "alias", "use", "ali", "s: GShape =", 3),
    o("type.modalias", "type", "modalias", "use", "modali", "lb.Shape", 3),
    o("type.qualified_shadowed", "type", "qualified", "use", "shadow", "s: lib.Shape =", 7),
    o("type_alias.def", "type_alias", "direct", "def", "lib", "type Alias =", 5),
    o("type_alias.use", "type_alias", "direct", "use", "lib", "-> Alias {", 3),
    o("type_alias.qualified", "type_alias", "qualified", "use", "main", "lib.Alias", 4),
    o("type_alias.qualified_shadowed", "type_alias", "qualified", "use", "shadow", "lib.Alias", 4),
    o("type_alias.unq_import", "type_alias", "unqualified", "use", "unq", "type Alias,", 5),
    o("type_alias.unq_use", "type_alias", "unqualified", "use", "unq", "a: Alias", 3),
    o("type_alias.alias_orig", "type_alias", "unqualified", "use", "ali", "type Alias as", 5),
    o("type_alias.alias_import", "type_alias", "alias", "use", "ali", "as GAlias,", 3),
    o("type_alias.alias_use", "type_alias", "alias", "use", "ali", "a: GAlias", 3),
    o("constructor.def", "constructor", "direct", "def", "lib", "Circle(radius: Int", 0),
    o("constructor.use", "constructor", "direct", "use", "lib", "Circle(radius: 1", 0),
    o("constructor.pattern", "constructor", "direct", "use", "lib", "Circle(radius: r", 0),
    o("constructor.qualified", "constructor", "qualified", "use", "main", "= lib.Circle(", 6),
    o("constructor.qualified_pattern", "constructor", "qualified", "use", "main", "lib.Square(", 4),
    o("constructor.qualified_shadowed", "constructor", "qualified", "use", "shadow", "= lib.Circle(", 6),
    o("constructor.qualified_pattern_shadowed", "constructor", "qualified", "use", "shadow", "    lib.Circle(radius: r", 8),
    o("constructor.unq_import", "constructor", "unqualified", "use", "unq", " Circle,", 1),
    o("constructor.unq_use", "constructor", "unqualified", "use", "unq", "= Circle(", 2),
    o("constructor.unq_pattern", "constructor", "unqualified", "use", "unq", "Square(side) ->", 0),
    o("constructor.alias_orig", "constructor", "unqualified", "use", "ali", " Circle as", 1),
    o("constructor.alias_import", "constructor", "alias", "use", "ali", "as GCircle}", 3),
    o("constructor.alias_use", "constructor", "alias", "use", "ali", "= GCircle(", 2),
    o("constructor.alias_pattern", "constructor", "alias", "use", "ali", "    GCircle(", 4),
    o("constructor.modalias", "constructor", "modalias", "use", "modali", "lb.Circle(", 3),
    o("typevar.def", "typevar", "direct", "def", "lib", "(tv: tvar)", 5),
    o("typevar.use", "typevar", "direct", "use", "lib", "-> tvar {", 3),
    o("fn_label.def", "fn_label", "direct", "def", "lib", "(with arg", 1),
    o("fn_label.use", "fn_label", "qualified", "use", "main", "(with: 1)", 1),
    o("module.import", "module", "direct", "use", "main", "import lib\n", 7),
    o("module.qualifier", "module", "direct", "use", "main", "lib.func(", 0),
    o("module.type_qualifier", "module", "direct", "use", "main", "s: lib.Shape =", 3),
    o("module.import_unq", "module", "direct", "use", "unq", "import lib.", 7),
    o("module.alias_orig", "module", "direct", "use", "modali", "import lib as", 7),
    o("module.alias_import", "module", "alias", "use", "modali", "as lb\n", 3),
    o("module.alias_qualifier", "module", "alias", "use", "modali", "lb.func(", 0),
    o("builtin.int", "builtin", "direct", "use", "lib", "(b: Int)", 4),
    o("builtin.list", "builtin", "direct", "use", "lib", "List(Int)) -> Int {\n  let", 0),
    o("builtin.result", "builtin", "direct", "use", "lib", "Result(Int", 0),
    o("builtin.nil_type", "builtin", "direct", "use", "lib", ", Nil)", 2),
    o("builtin.ok", "builtin", "direct", "use", "lib", "Ok(b)", 0),
    o("builtin.error", "builtin", "direct", "use", "lib", "Error(Nil)", 0),
    o("builtin.nil", "builtin", "direct", "use", "lib", "Error(Nil)", 6),
    o("builtin.true", "builtin", "direct", "use", "lib", "case True", 5),
    o("builtin.false", "builtin", "direct", "use", "lib", "False ->", 0),
    o("nosymbol.keyword", "nosymbol", "direct", "use", "lib", "pub fn func", 4),
    o("nosymbol.literal", "nosymbol", "direct", "use", "lib", "= 42", 2),
    o("nosymbol.operator", "nosymbol", "direct", "use", "lib", "param + konst", 6),
    o("nosymbol.discard", "nosymbol", "direct", "use", "lib", "tag: _)", 5),
];

const LOCALITIES: &[&str] = &["same", "path", "registry"];
const CURSORS: &[&str] = &["start", "mid", "end"];

struct Ws {
    host: AnalysisHost,
    /// module name -> (file id, text)
    modules: HashMap<&'static str, (FileId, &'static str)>,
    /// file id -> (path, is in a local package)
    files: BTreeMap<u32, (String, bool)>,
    texts: HashMap<u32, String>,
}

fn build(locality: &str) -> Ws {
    let lib_root = match locality {
        "same" => "/app",
        "path" => "/shared",
        "registry" => "/app/build/packages/dep",
        other => panic!("locality {other}"),
    };
    // (package, root, is_local, [(path below root, module, text)])
    let mut pkgs: Vec<(&str, &str, bool, Vec<(String, Option<&'static str>, String)>)> = vec![
        ("app", "/app", true, vec![
            ("gleam.toml".into(), None, "name = \"app\"\nversion = \"0.1.0\"\n\n[dependencies]\ndep = \"1.0.0\"\nshared = { path = \"../shared\" }\n".into()),
            ("src/main.gleam".into(), Some("main"), MAIN.into()),
            ("src/unq.gleam".into(), Some("unq"), UNQ.into()),
            ("src/ali.gleam".into(), Some("ali"), ALI.into()),
            ("src/modali.gleam".into(), Some("modali"), MODALI.into()),
            ("src/shadow.gleam".into(), Some("shadow"), SHADOW.into()),
        ]),
        ("shared", "/shared", true, vec![
            ("gleam.toml".into(), None, "name = \"shared\"\nversion = \"0.1.0\"\n".into()),
            ("src/shared_filler.gleam".into(), None, "pub fn shared_filler() -> Int {\n  1\n}\n".into()),
        ]),
        ("dep", "/app/build/packages/dep", false, vec![
            ("gleam.toml".into(), None, "name = \"dep\"\nversion = \"1.0.0\"\n".into()),
            ("src/dep_filler.gleam".into(), None, "pub fn dep_filler() -> Int {\n  1\n}\n".into()),
        ]),
    ];
    for p in pkgs.iter_mut() {
        if p.1 == lib_root {
            p.3.push(("src/lib.gleam".into(), Some("lib"), LIB.into()));
        }
    }
    let mut change = Change::default();
    let mut graph = PackageGraph::default();
    let mut roots = vec![];
    let mut ids = vec![];
    let mut next = 0u32;
    let mut modules = HashMap::new();
    let mut files = BTreeMap::new();
    let mut texts = HashMap::new();
    for (name, root, is_local, fs) in &pkgs {
        let mut set = FileSet::default();
        let mut toml = None;
        for (rel, module, text) in fs {
            let id = FileId(next);
            next += 1;
            let path = format!("{root}/{rel}");
            set.insert(id, VfsPath::new(&path));
            change.change_file(id, text.as_str().into());
            if rel == "gleam.toml" {
                toml = Some(id);
            }
            if let Some(m) = module {
                let st: &'static str = match *m {
                    "lib" => LIB,
                    "main" => MAIN,
                    "unq" => UNQ,
                    "ali" => ALI,
                    "modali" => MODALI,
                    "shadow" => SHADOW,
                    _ => unreachable!(),
                };
                modules.insert(*m, (id, st));
            }
            files.insert(id.0, (path, *is_local));
            texts.insert(id.0, text.clone());
        }
        roots.push(SourceRoot::new(set, (*root).into()));
        // exactly what assemble_graph does: add_package(name, gleam.toml, !under build/packages)
        ids.push(graph.add_package((*name).into(), toml.unwrap(), *is_local));
    }
    graph.add_dep(ids[0], Dependency { package: ids[2] });
    graph.add_dep(ids[0], Dependency { package: ids[1] });
    change.set_roots(roots);
    change.set_package_graph(graph);
    let mut host = AnalysisHost::new();
    host.apply_change(change);
    Ws { host, modules, files, texts }
}

fn die(msg: &str) -> ! {
    eprintln!("renamegate: {msg}");
    std::process::exit(3)
}

/// Offset of the query: the token that starts at (needle position + off), at its start, middle or end.
fn occ_pos(ws: &Ws, occ: &Occ, cursor: &str) -> FilePos {
    let (fid, text) = ws.modules[occ.module];
    let first = text.find(occ.needle).unwrap_or_else(|| die(&format!("needle {:?} of {} not in module {}", occ.needle, occ.id, occ.module)));
    if text[first + 1..].find(occ.needle).is_some() {
        die(&format!("needle {:?} of {} is not unique in module {}", occ.needle, occ.id, occ.module));
    }
    let start = (first + occ.off) as u32;
    let tok = GleamLexer::new(text)
        .find(|t| u32::from(t.range.start()) == start)
        .unwrap_or_else(|| die(&format!("no token starts at the marker of {}", occ.id)));
    let len = u32::from(tok.range.len());
    let pos = match cursor {
        "start" => start,
        "mid" => start + len / 2,
        "end" => start + len,
        other => die(&format!("cursor {other}")),
    };
    FilePos::new(fid, pos.into())
}

/// char symbols of the specification -> text ("U+00E9" style symbols denote that code point, "SP"/"TAB"/"NL" white space)
fn render(chars: &Value) -> String {
    let mut s = String::new();
    for c in chars.as_array().expect("chars") {
        let c = c.as_str().expect("char");
        match c {
            "SP" => s.push(' '),
            "TAB" => s.push('\t'),
            "NL" => s.push('\n'),
            "QUOTE" => s.push('"'),
            "BACKSLASH" => s.push('\\'),
            _ if c.starts_with("U+") => s.push(char::from_u32(u32::from_str_radix(&c[2..], 16).expect("hex")).expect("code point")),
            _ => s.push_str(c),
        }
    }
    s
}

#[derive(Clone)]
enum Ans {
    Accept(Value),
    Reject(String),
    Panic(String),
}
impl Ans {
    fn tag(&self) -> &'static str {
        match self {
            Ans::Accept(_) => "accept",
            Ans::Reject(_) => "reject",
            Ans::Panic(_) => "panic",
        }
    }
    fn json(&self) -> Value {
        match self {
            Ans::Accept(v) => json!({"accept": v}),
            Ans::Reject(m) => json!({"reject": m}),
            Ans::Panic(m) => json!({"panic": m}),
        }
    }
}

fn do_prepare(ws: &Ws, pos: FilePos) -> Ans {
    let snap = ws.host.snapshot();
    match catch(|| snap.prepare_rename(pos)) {
        Err(p) => Ans::Panic(p),
        Ok(Err(_)) => Ans::Panic("cancelled".into()),
        Ok(Ok(Err(m))) => Ans::Reject(m),
        Ok(Ok(Ok((range, name)))) => Ans::Accept(json!({"range": [u32::from(range.start()), u32::from(range.end())], "name": name.as_str()})),
    }
}

/// rename on a fresh snapshot; for an accepted rename the edits are inspected: (problems, edits as json)
fn do_rename(ws: &Ws, pos: FilePos, new_name: &str) -> (Ans, Vec<(&'static str, Value)>) {
    let snap = ws.host.snapshot();
    match catch(|| snap.rename(pos, new_name)) {
        Err(p) => (Ans::Panic(p), vec![]),
        Ok(Err(_)) => (Ans::Panic("cancelled".into()), vec![]),
        Ok(Ok(Err(m))) => (Ans::Reject(m), vec![]),
        Ok(Ok(Ok(we))) => {
            let mut problems = vec![];
            let mut all = vec![];
            let mut by_file: Vec<_> = we.content_edits.iter().collect();
            by_file.sort_by_key(|(f, _)| f.0);
            for (fid, edits) in by_file {
                let (path, is_local) = match ws.files.get(&fid.0) {
                    Some(x) => x.clone(),
                    None => {
                        problems.push(("edit_unknown_file", json!({"file": fid.0})));
                        continue;
                    }
                };
                let text = &ws.texts[&fid.0];
                let toks: Vec<_> = GleamLexer::new(text).collect();
                for e in edits {
                    let (s, t) = (u32::from(e.delete.start()), u32::from(e.delete.end()));
                    all.push(json!({"file": path, "range": [s, t], "old": text.get(s as usize..t as usize), "insert": e.insert.as_str()}));
                    if !is_local {
                        problems.push(("edit_in_dependency", json!({"file": path, "range": [s, t]})));
                    }
                    let whole = toks.iter().any(|tk| tk.range == e.delete && matches!(tk.kind, SyntaxKind::IDENT | SyntaxKind::U_IDENT));
                    if !whole {
                        problems.push(("edit_not_whole_token", json!({"file": path, "range": [s, t], "old": text.get(s as usize..t as usize)})));
                    }
                    if e.insert.as_str() != new_name {
                        problems.push(("edit_text_not_new_name", json!({"file": path, "insert": e.insert.as_str()})));
                    }
                }
            }
            (Ans::Accept(json!(all)), problems)
        }
    }
}

fn survey() {
    for loc in LOCALITIES {
        let ws = build(loc);
        for (occ, cursor) in OCCS.iter().flat_map(|o| CURSORS.iter().map(move |c| (o, *c))) {
            let pos = occ_pos(&ws, occ, cursor);
            let p = do_prepare(&ws, pos);
            let (l, _) = do_rename(&ws, pos, "zz_new");
            let (u, _) = do_rename(&ws, pos, "ZzNew");
            let (k, _) = do_rename(&ws, pos, "fn");
            let short = |a: &Ans| match a {
                Ans::Accept(v) => format!("ACCEPT({})", v.as_array().map(|a| a.len()).unwrap_or(0)),
                Ans::Reject(m) => format!("reject[{m}]"),
                Ans::Panic(m) => format!("PANIC[{m}]"),
            };
            println!("{loc:9} {cursor:5} {:32} prepare={} lower={} upper={} kw={}", occ.id, short(&p), short(&l), short(&u), short(&k));
        }
    }
}

fn main() {
    quiet_panics();
    let args: Vec<String> = std::env::args().skip(1).collect();
    if args.first().map(|s| s.as_str()) == Some("--list") {
        let l: Vec<Value> = OCCS.iter().map(|o| json!({"id": o.id, "kind": o.kind, "via": o.via, "site": o.site})).collect();
        println!("{}", json!({"occurrences": l, "localities": LOCALITIES}));
        return;
    }
    if args.first().map(|s| s.as_str()) == Some("--survey") {
        survey();
        return;
    }
    let out = std::io::stdout();
    let mut out = out.lock();
    let mut wss: HashMap<String, Ws> = HashMap::new();
    // the sources of the family must be free of syntax errors, otherwise the table would be vacuous
    for loc in LOCALITIES {
        let ws = build(loc);
        for (m, (fid, _)) in &ws.modules {
            let diags = ws.host.snapshot().diagnostics(*fid).expect("diagnostics");
            let errs: Vec<String> = diags.iter().filter(|d| matches!(d.severity(), ide::Severity::Error)).map(|d| format!("{:?}", d.kind)).collect();
            if !errs.is_empty() {
                eprintln!("source family: module {m} ({loc}) has errors: {errs:?}");
                std::process::exit(3);
            }
        }
        for occ in OCCS {
            occ_pos(&ws, occ, "start");
        }
        wss.insert(loc.to_string(), ws);
    }
    let occs: HashMap<&str, &Occ> = OCCS.iter().map(|o| (o.id, o)).collect();

    let (mut rows, mut checks, mut nontrivial, mut mismatches) = (0u64, 0u64, 0u64, 0u64);
    let mut sample_slots: Vec<Option<Value>> = vec![None; 7];
    // (occ, locality) -> (prepare answer, predicted prepare, any valid name accepted by rename, a valid name seen, row)
    struct Group {
        prep: Ans,
        valid_accepted: Option<String>,
        valid_seen: u32,
        row: Value,
    }
    let mut groups: BTreeMap<(String, String, String), Group> = BTreeMap::new();
    let mut accepted = 0u64;
    let mut edits_checked = 0u64;

    for line in std::io::stdin().lock().lines() {
        let line = line.unwrap();
        if line.trim().is_empty() {
            continue;
        }
        let row: Value = serde_json::from_str(&line).expect("row json");
        let occ = *occs.get(row["occ"].as_str().unwrap()).unwrap_or_else(|| panic!("unknown occurrence {}", row["occ"]));
        let loc = row["locality"].as_str().unwrap().to_string();
        let ws = &wss[&loc];
        let cursor = row["cursor"].as_str().unwrap_or("start").to_string();
        let pos = occ_pos(ws, occ, &cursor);
        let name = render(&row["chars"]);
        let class = row["class"].as_str().unwrap();
        rows += 1;
        let feat = |what: &str, api: &str, class: &str| {
            json!({"what": what, "kind": occ.kind, "name_class": class, "locality": loc, "site": occ.site, "api": api, "via": occ.via, "occ": occ.id, "cursor": cursor})
        };
        let mut report = |out: &mut std::io::StdoutLock, f: Value, got: Value, extra: Value| {
            mismatches += 1;
            writeln!(out, "{}", json!({"kind": "mismatch", "features": f, "detail": {"row": row, "name": name, "got": got, "extra": extra}})).unwrap();
        };

        // prepare: once per (occurrence, locality)
        let key = (occ.id.to_string(), loc.clone(), cursor.clone());
        if !groups.contains_key(&key) {
            let p = do_prepare(ws, pos);
            checks += 1;
            let want = row["prep"].as_str().unwrap();
            match (&p, want) {
                (Ans::Panic(_), _) => report(&mut out, feat("panic", "prepare", "n/a"), p.json(), json!(null)),
                (Ans::Accept(_), "reject") => report(&mut out, feat("accepted", "prepare", "n/a"), p.json(), json!({"predicted": want})),
                (Ans::Reject(_), "accept") => report(&mut out, feat("rejected", "prepare", "n/a"), p.json(), json!({"predicted": want})),
                _ => {}
            }
            if let Ans::Accept(v) = &p {
                // the range offered for editing is the identifier token under the cursor
                let (fid, text) = ws.modules[occ.module];
                let _ = fid;
                let (s, t) = (v["range"][0].as_u64().unwrap() as usize, v["range"][1].as_u64().unwrap() as usize);
                let off: usize = u32::from(pos.pos) as usize;
                checks += 1;
                if !(s <= off && off <= t) || text.get(s..t) != v["name"].as_str() {
                    report(&mut out, feat("prepare_range", "prepare", "n/a"), p.json(), json!({"offset": off, "text": text.get(s..t)}));
                }
            }
            groups.insert(key.clone(), Group { prep: p, valid_accepted: None, valid_seen: 0, row: row.clone() });
        }

        // rename
        let (r, problems) = do_rename(ws, pos, &name);
        checks += 1;
        let want = row["ren"].as_str().unwrap();
        if want == "reject" && !name.is_empty() {
            nontrivial += 1;
        }
        match (&r, want) {
            (Ans::Panic(_), _) => report(&mut out, feat("panic", "rename", class), r.json(), json!(null)),
            (Ans::Accept(_), "reject") => report(&mut out, feat("accepted", "rename", class), r.json(), json!({"predicted": want, "why": row["why"]})),
            (Ans::Reject(_), "accept") => report(&mut out, feat("rejected", "rename", class), r.json(), json!({"predicted": want})),
            _ => {}
        }
        if let Ans::Accept(_) = &r {
            accepted += 1;
            edits_checked += 1;
            checks += 1;
            for (what, d) in problems {
                report(&mut out, feat(what, "rename", class), r.json(), d);
            }
        }
        let g = groups.get_mut(&key).unwrap();
        if row["valid"].as_bool().unwrap() {
            g.valid_seen += 1;
            if matches!(r, Ans::Accept(_)) && g.valid_accepted.is_none() {
                g.valid_accepted = Some(name.clone());
            }
        }
        // one sample per interesting region of the table
        let why: Vec<&str> = row["why"].as_array().map(|a| a.iter().filter_map(|x| x.as_str()).collect()).unwrap_or_default();
        let slot = match (occ.kind, class, why.as_slice()) {
            ("field", "lower", []) if occ.site == "use" => Some(0),
            (_, "lower" | "upper", ["alias"]) => Some(1),
            ("function", "lower", ["foreign"]) if occ.via == "qualified" => Some(2),
            ("constant", "kw_fn", ["name"]) => Some(3),
            ("type", "nonascii", ["name"]) => Some(4),
            ("module", "lower", _) => Some(5),
            ("let_local", "two_tokens", ["name"]) => Some(6),
            _ => None,
        };
        if let Some(k) = slot {
            if sample_slots[k].is_none() {
                sample_slots[k] = Some(json!({"occ": occ.id, "locality": loc, "name": name, "class": class, "predicted": {"prepare": row["prep"], "rename": row["ren"], "why": row["why"]},
                    "got": {"prepare": g.prep.tag(), "rename": r.tag(), "edits": match &r { Ans::Accept(v) => v.as_array().map(|a| a.len()).unwrap_or(0), _ => 0 }}}));
            }
        }
    }

    // prepare accepts <=> rename with some valid name accepts
    let mut agreement = 0u64;
    for ((occ_id, loc, cursor), g) in &groups {
        if g.valid_seen == 0 {
            continue;
        }
        agreement += 1;
        checks += 1;
        let occ = occs[occ_id.as_str()];
        let p = matches!(g.prep, Ans::Accept(_));
        if matches!(g.prep, Ans::Panic(_)) {
            continue;
        }
        if p != g.valid_accepted.is_some() {
            mismatches += 1;
            let api = if p { "rename" } else { "prepare" };
            let f = json!({"what": "prepare_rename_disagree", "kind": occ.kind, "name_class": "valid", "locality": loc, "site": occ.site, "api": api, "via": occ.via, "occ": occ.id, "cursor": cursor});
            writeln!(out, "{}", json!({"kind": "mismatch", "features": f, "detail": {"row": g.row, "agreement": true,
                "got": {"prepare": g.prep.json(), "rename_accepted_valid_name": g.valid_accepted}}})).unwrap();
        }
    }
    writeln!(out, "{}", json!({"kind": "summary", "cases": rows, "checks": checks, "distinct_nontrivial": nontrivial, "mismatches": mismatches,
        "accepted_renames": accepted, "edit_sets_checked": edits_checked, "agreement_groups": agreement, "samples": sample_slots.into_iter().flatten().collect::<Vec<_>>()})).unwrap();
}
