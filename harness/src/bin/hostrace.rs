//! C12 driver: one writer applying k changes to an `ide::AnalysisHost` while n reader threads take
//! snapshots and run IDE queries on them, under seeded random scheduling.
//!
//! What is recorded (one global atomic sequence number, taken at the linearization point):
//!   Snapshot(r, ver)   inside the host critical section, right after `host.snapshot()` returned
//!   QueryStart(r, q)   before the `Analysis::*` call
//!   QueryEnd(r, q, ok(hash) | cancelled | panic)   after the call returned, BEFORE the snapshot is dropped
//!   Drop(r)            before the snapshot is dropped (the drop itself follows immediately)
//!   ApplyBegin(c, touch)           before `host.apply_change` is called; touch = the writes the Change carries, in
//!                                  queue order: 0 = a write without file text (package graph, roots), -f = an
//!                                  intermediate text of module f, f = the text module f has in version c
//!   ApplyEnd(c, ms)                after it returned
//! Changes are built the way the server builds them: a Change may carry two successive contents for the same
//! file (the editor sent two edits before the analysis took them; the last one is the file's text) in any
//! interleaving with the other files' contents, and may re-send roots and package graph (seeded).
//! Queries: the menu of a run contains EVERY public query method of `ide::Analysis` (see `API`), and a reader
//! in "ambush" mode keeps its snapshot until the writer is inside `apply_change`, probes until a query comes
//! back Cancelled (from then on the write is known to be pending: the flag cannot go down while this snapshot
//! lives) and then issues the whole menu: every entry point is exercised with a write pending, in every such
//! run, independent of timing.
//! The `AnalysisHost` lives in a `Mutex` that is held only for `snapshot()` and for `apply_change()`
//! (the mutex plays the role of `&self` / `&mut self` exclusivity: the real server does both on its single
//! main-loop thread).  Readers hold *snapshots*, never the mutex, while they query, so the only thing that
//! can unblock a pending `apply_change` is salsa's cancellation.
//!
//! Reference answers: after the race, every version 0..k of the workspace is analysed by a fresh,
//! single-threaded `AnalysisHost` and every query of the run's menu is hashed; the table goes into the
//! run's `reset` line of the trace.  The judgement (is this interleaving a behaviour of `Host`, does every
//! Ok(hash) equal the reference of the snapshot's version) is made by TLC on the trace (Trace_Host.tla);
//! this binary only reports what needs wall-clock or the panic message: panics and blocked applies.
use ide::{Analysis, AnalysisHost, Change, FileId, FilePos, FileSet, PackageGraph, SourceRoot, VfsPath};
use serde_json::{json, Value};
use std::fmt::Write as _;
use std::io::Write;
use std::sync::atomic::{AtomicBool, AtomicU64, AtomicUsize, Ordering::SeqCst};
use std::sync::{mpsc, Arc, Mutex};
use std::time::{Duration, Instant};
use syntax::{TextRange, TextSize};
use verif_harness::util::{quiet_panics, Rng, LAST_PANIC_LOC};

const STACK: usize = 64 << 20;
const NMOD: usize = 3;
/// further small modules that no change ever touches: a workspace of a realistic number of files (code that treats
/// "many modules" differently from "a few" gets to run)
const NFILL: usize = 7;

// ------------------------------------------------------------------------------------------------
// workload: generated Gleam modules

const RETS: &[(&str, &str)] = &[
    ("Int", "x + 1"),
    ("Float", "1.5"),
    ("String", "\"s\""),
    ("List(Int)", "[x]"),
    ("Bool", "x == 1"),
    ("#(Int, String)", "#(x, \"t\")"),
];

/// Module `idx` (m0 imports m1, m2; m1 imports m2), content id `c` (0 = initial, else the change that wrote
/// it).  Everything a query can return depends on (salt, idx, c): the return type of `base` (and through
/// the call chains the type of every `fK` here and in the importing modules), the offsets (header length),
/// the diagnostics (a syntax error in the last line, whose range moves and whose text names the content).
fn gen_module(idx: usize, c: usize, salt: u64, nf: usize) -> String {
    let variant = ((salt as usize) + c * 5 + idx * 7) % RETS.len();
    let (ret, body) = RETS[variant];
    let mut s = String::with_capacity(nf * 120);
    for h in 0..(1 + (c + idx) % 4) {
        let _ = writeln!(s, "//// module m{idx} content {c} header line {h}");
    }
    for j in idx + 1..NMOD {
        let _ = writeln!(s, "import m{j}");
    }
    let _ = writeln!(s, "pub type Shape {{ Circle(Int) Square(Int, Int) }}");
    let _ = writeln!(s, "pub const limit = {}", 10 + c);
    let _ = writeln!(s, "pub fn base(x: Int) -> {ret} {{ {body} }}");
    let _ = writeln!(s, "fn dup(a, a) {{ a }}");
    for k in 1..=nf {
        let prev = if k == 1 { "base".to_string() } else { format!("f{}", k - 1) };
        let _ = writeln!(s, "pub fn f{k}(x: Int) {{");
        let _ = writeln!(s, "  let a = {prev}(x)");
        if idx + 1 < NMOD {
            let j = idx + 1 + (k % (NMOD - idx - 1));
            let _ = writeln!(s, "  let b = m{j}.f{k}(x)");
            let _ = writeln!(s, "  let c = #(a, b, limit)");
        } else {
            let _ = writeln!(s, "  let b = Circle(x)");
            let _ = writeln!(s, "  let c = case b {{ Circle(r) -> r Square(w, h) -> w + h }}");
        }
        let _ = writeln!(s, "  a");
        let _ = writeln!(s, "}}");
    }
    // a syntax error at top level (three ExpectedStatement diagnostics whose ranges move with the header)
    let _ = writeln!(s, "stray{c} = {c}");
    s
}

#[derive(Clone, Debug)]
struct Query {
    kind: &'static str,
    file: usize,
    anchor: String, // header of a function; resolved against the text of the snapshot's own version
    inner: &'static str, // first occurrence after the header
    delta: usize,
}

/// (text to find after the function header, offset from its start): identifier occurrences of every role
const SPOTS: &[(&str, usize)] = &[
    ("pub fn ", 7),    // the function's own name (definition)
    ("(x", 1),         // parameter binder
    ("let a", 4),      // let binder
    ("let a = ", 8),   // callee (same module)
    ("let a = ", 10),  // inside the callee name
    ("(x)\n", 1),      // argument (also inside call parentheses: signature help)
    ("let b = ", 8),   // module qualifier (m0, m1) / constructor (m2)
    ("let b = ", 11),  // imported function after `mJ.` / inside the constructor
    ("let c = ", 10),  // use of `a` (m0, m1) / keyword (m2)
    ("let c = ", 13),  // use of `b`
    ("let c = ", 16),  // use of the constant `limit` / pattern
    ("\n  a\n", 3),    // tail expression
    ("\n  a\n", 4),    // just after the tail expression (completion)
    ("let c", 3),      // whitespace between tokens
];

/// Every menu starts with one entry per line of this table, i.e. with every public query method of
/// `ide::Analysis` (bin/checks/c12.py compares `API` with the `pub fn`s of `impl Analysis` in the tree under
/// test); the argument shapes that select a different code path inside a method have their own kind.
const KINDS: &[&str] = &[
    "hover",
    "hover",
    "goto_definition",
    "references",
    "completions",                    // trigger_char = None
    "completions/dot",                // Some('.')
    "completions/at",                 // Some('@')
    "diagnostics",
    "syntax_tree",
    "highlight_related",
    "syntax_highlight",               // range = None
    "syntax_highlight/inside",        // Some([at, at + 400) clipped to the file)
    "syntax_highlight/over_end",      // Some([at, len + 1000)): ends past the end of the file
    "syntax_highlight/all_over_end",  // Some([0, u32::MAX))
    "syntax_highlight/at_end",        // Some([len, len + 64)): starts at the very end, ends past it
    "syntax_highlight/empty",         // Some([at, at))
    "signature_help",
    "prepare_rename",
    "rename",
];

/// the public query methods of `ide::Analysis` this harness calls
const API: &[&str] = &[
    "hover", "completions", "diagnostics", "highlight_related", "goto_definition", "references", "prepare_rename",
    "rename", "syntax_tree", "syntax_highlight", "signature_help",
];

fn api_method(kind: &str) -> &str {
    kind.split('/').next().unwrap_or(kind)
}

fn gen_menu(rng: &mut Rng, nf: usize, nq: usize) -> Vec<Query> {
    let mut m = vec![];
    for i in 0..nq {
        let kind = KINDS[if i < KINDS.len() { i } else { rng.below(KINDS.len()) }];
        let file = rng.below(NMOD);
        let k = 1 + rng.below(nf);
        let (inner, delta) = SPOTS[rng.below(SPOTS.len())];
        let anchor = if rng.below(12) == 0 { "pub fn base(".to_string() } else { format!("pub fn f{k}(") };
        m.push(Query { kind, file, anchor, inner, delta });
    }
    m
}

/// catch_unwind that also names a salsa `Cancelled` payload escaping from the code under test (it is thrown
/// with resume_unwind, so the panic hook never sees it)
fn catch<T>(f: impl FnOnce() -> T) -> Result<T, String> {
    LAST_PANIC_LOC.with(|l| l.borrow_mut().clear());
    match std::panic::catch_unwind(std::panic::AssertUnwindSafe(f)) {
        Ok(v) => Ok(v),
        Err(p) => {
            let msg = if p.downcast_ref::<ide::Cancelled>().is_some() {
                "salsa Cancelled unwound out of the ide API instead of being returned as Err(Cancelled)".to_string()
            } else {
                p.downcast_ref::<String>().cloned().or_else(|| p.downcast_ref::<&str>().map(|s| s.to_string())).unwrap_or_else(|| "unknown panic".into())
            };
            let loc = LAST_PANIC_LOC.with(|l| l.borrow().clone());
            Err(format!("{msg} @ {loc}"))
        }
    }
}

fn fnv(s: &str) -> String {
    let mut h: u64 = 0xcbf29ce484222325;
    for b in s.as_bytes() {
        h ^= *b as u64;
        h = h.wrapping_mul(0x100000001b3);
    }
    format!("{h:016x}")
}

fn sorted<T: std::fmt::Debug>(v: &[T]) -> String {
    let mut items: Vec<String> = v.iter().map(|x| format!("{x:?}")).collect();
    items.sort();
    items.join("\n")
}

#[derive(Clone, Debug, PartialEq)]
enum Res {
    Ok(String),
    Cancelled,
    Panic(String),
}

impl Res {
    fn tag(&self) -> &'static str {
        match self {
            Res::Ok(_) => "ok",
            Res::Cancelled => "cancelled",
            Res::Panic(_) => "panic",
        }
    }
    fn hash(&self) -> String {
        match self {
            Res::Ok(h) => h.clone(),
            Res::Cancelled => String::new(),
            Res::Panic(m) => fnv(m),
        }
    }
}

/// One IDE query on a snapshot; list-valued answers are compared as sets (their order may depend on
/// hash-map iteration order, which is not part of the answer).
fn run_query(a: &Analysis, q: &Query, text: &str) -> Res {
    match render_query(a, q, text) {
        Ok(Ok(s)) => Res::Ok(fnv(&s)),
        Ok(Err(_)) => Res::Cancelled,
        Err(p) => Res::Panic(p),
    }
}

fn render_query(a: &Analysis, q: &Query, text: &str) -> Result<Result<String, ide::Cancelled>, String> {
    let file = FileId(q.file as u32);
    let mut at = match text.find(&q.anchor) {
        Some(p) => match text[p..].find(q.inner) {
            Some(i) => (p + i + q.delta).min(text.len()),
            None => p,
        },
        None => 0,
    };
    while !text.is_char_boundary(at) {
        at -= 1;
    }
    let pos = FilePos::new(file, (at as u32).into());
    catch(|| -> Result<String, ide::Cancelled> {
        Ok(match q.kind {
            "hover" => format!("{:?}", a.hover(pos)?),
            "goto_definition" => format!("{:?}", a.goto_definition(pos)?),
            "references" => match a.references(pos)? {
                None => "None".into(),
                Some(v) => sorted(&v),
            },
            "completions" | "completions/dot" | "completions/at" => {
                let trigger = match q.kind {
                    "completions/dot" => Some('.'),
                    "completions/at" => Some('@'),
                    _ => None,
                };
                match a.completions(pos, trigger)? {
                    None => "None".into(),
                    Some(v) => sorted(&v),
                }
            }
            "diagnostics" => sorted(&a.diagnostics(file)?),
            "syntax_tree" => a.syntax_tree(file)?,
            "highlight_related" => sorted(&a.highlight_related(pos)?),
            "syntax_highlight" => sorted(&a.syntax_highlight(file, None)?),
            // ranged highlighting (semanticTokens/range): ranges inside the file, reaching past its end (the editor's
            // copy of the document may be longer than the snapshot's), starting at its very end, and empty.  A range
            // STARTING past the end is outside the contract of the method (rowan asserts, with or without a race) and
            // is not issued.
            "syntax_highlight/inside" | "syntax_highlight/over_end" | "syntax_highlight/all_over_end"
            | "syntax_highlight/at_end" | "syntax_highlight/empty" => {
                let (at, len) = (at as u32, text.len() as u32);
                let (s, e) = match q.kind {
                    "syntax_highlight/inside" => (at, (at + 400).min(len)),
                    "syntax_highlight/over_end" => (at, len + 1000),
                    "syntax_highlight/all_over_end" => (0, u32::MAX),
                    "syntax_highlight/at_end" => (len, len + 64),
                    _ => (at, at),
                };
                sorted(&a.syntax_highlight(file, Some(TextRange::new(TextSize::from(s), TextSize::from(e))))?)
            }
            "signature_help" => format!("{:?}", a.signature_help(pos)?),
            "prepare_rename" => format!("{:?}", a.prepare_rename(pos)?),
            "rename" => match a.rename(pos, "renamed_by_verif")? {
                Err(e) => format!("Err({e:?})"),
                Ok(we) => {
                    // the edit is a HashMap per file: rendered in file order, edits of a file as a set
                    let mut files: Vec<(u32, String)> = we.content_edits.iter().map(|(f, es)| (f.0, sorted(es))).collect();
                    files.sort();
                    format!("Ok({files:?})")
                }
            },
            k => panic!("harness: unknown query kind {k}"),
        })
    })
}

fn toml() -> String {
    "name = \"test\"\nversion = \"0.1.0\"\n".to_string()
}

/// A fresh host holding exactly `texts` (module files /test/m{i}.gleam, then /gleam.toml), built the way
/// ide's own test fixture does.
fn fresh_host(texts: &[Arc<str>]) -> AnalysisHost {
    let mut change = Change::default();
    for (i, t) in texts.iter().enumerate() {
        change.change_file(FileId(i as u32), t.clone());
    }
    change.change_file(FileId(texts.len() as u32), toml().into());
    for k in 0..NFILL {
        change.change_file(FileId((texts.len() + 1 + k) as u32), format!("pub fn filler{k}(x) {{ x + {k} }}\npub fn twice{k}(y) {{ filler{k}(filler{k}(y)) }}\n").as_str().into());
    }
    workspace_layout(&mut change, texts.len());
    let mut host = AnalysisHost::new();
    host.apply_change(change);
    host
}

/// roots + package graph of the workspace (always the same ones).  `META_WRITES` = the salsa writes
/// `Change::apply` makes for them: package graph 1, per file of the root `file_source_root` 1, `module_map` 1,
/// `source_root` 1.
fn workspace_layout(change: &mut Change, nmod: usize) {
    let mut set = FileSet::default();
    for i in 0..nmod {
        set.insert(FileId(i as u32), VfsPath::new(format!("/test/m{i}.gleam")));
    }
    let tf = FileId(nmod as u32);
    set.insert(tf, VfsPath::new("/gleam.toml"));
    for k in 0..NFILL {
        set.insert(FileId((nmod + 1 + k) as u32), VfsPath::new(format!("/test/filler{k}.gleam")));
    }
    change.set_roots(vec![SourceRoot::new(set, "/".into())]);
    let mut g = PackageGraph::default();
    g.add_package("test".into(), tf, true);
    change.set_package_graph(g);
}
const META_WRITES: usize = 1 + (NMOD + 1 + NFILL) + 2;
/// content id of the intermediate text a change `c` queues for a file before the final one: differs from every
/// final content id (0..=4) in header length, return-type variant (except one pair), constant and syntax error
const MID: usize = 50;

// ------------------------------------------------------------------------------------------------
// events

struct Log {
    seq: AtomicU64,
    bufs: Vec<Mutex<Vec<(u64, Value)>>>, // one per thread (index 0 = writer, r = reader r)
}

impl Log {
    fn new(n: usize) -> Self {
        Log { seq: AtomicU64::new(0), bufs: (0..=n).map(|_| Mutex::new(Vec::new())).collect() }
    }
    /// the stamp is the linearization point; the push afterwards is thread-local bookkeeping
    fn ev(&self, who: usize, v: Value) {
        let s = self.seq.fetch_add(1, SeqCst);
        self.bufs[who].lock().unwrap().push((s, v));
    }
    fn merged(&self) -> Vec<Value> {
        let mut all: Vec<(u64, Value)> = vec![];
        for b in &self.bufs {
            all.extend(b.lock().unwrap_or_else(|e| e.into_inner()).iter().cloned());
        }
        all.sort_by_key(|e| e.0);
        all.into_iter().map(|e| e.1).collect()
    }
}

fn delay(rng: &mut Rng, scale_us: u64) {
    match rng.below(10) {
        0..=3 => {}
        4 | 5 => std::thread::yield_now(),
        6 | 7 => {
            let n = rng.below(2000);
            for _ in 0..n {
                std::hint::spin_loop();
            }
        }
        _ => std::thread::sleep(Duration::from_micros(rng.next() % (scale_us + 1))),
    }
}

struct Shared {
    host: Mutex<(AnalysisHost, usize)>,
    log: Log,
    stop: AtomicBool,
    busy: AtomicUsize,          // readers currently inside a query
    apply_since_ms: AtomicU64,  // 0 = no apply in progress, else ms since t0 (+1) when it was called
    query_since_ms: Vec<AtomicU64>,
    t0: Instant,
    versions: Vec<Vec<Arc<str>>>, // versions[v][file]
    menu: Vec<Query>,
    mids: Vec<Vec<Option<Arc<str>>>>, // mids[c][file] = the intermediate text change c queues for file before versions[c][file]
    k: usize,
    forced_ambush: bool,
    ambush: AtomicUsize,        // readers that hold a snapshot and wait for the writer to be inside apply_change
    ambush_timeouts: AtomicUsize,
}

struct RunPlan {
    run: u64,
    n: usize,
    k: usize,
    nf: usize,
    salt: u64,
    touches: Vec<Vec<usize>>, // per change: touched module files (0-based)
    batches: Vec<Vec<i64>>,   // per change: its file writes in queue order, f+1 = final text of module f, -(f+1) = an intermediate one
    meta: Vec<bool>,          // per change: does it also carry roots + package graph
    forced_ambush: bool,      // reader 1 ambushes the first change
}

impl RunPlan {
    /// what the ApplyBegin line says about change c (1-based)
    fn todo(&self, c: usize) -> Vec<i64> {
        let mut t = vec![0i64; if self.meta[c - 1] { META_WRITES } else { 0 }];
        t.extend(&self.batches[c - 1]);
        t
    }
}

struct RunStats {
    events: Vec<Value>,
    apply_ms: Vec<f64>,
    max_query_ms: f64,
    panics: Vec<Value>,
    blocked: Option<Value>,
    queries: u64,
    harness_error: Option<String>,
}

struct ReaderAcc {
    max_ms: f64,
    panics: Vec<Value>,
    nqueries: u64,
}

/// one logged query of reader r on its snapshot of version `ver`; `pend` = the reader KNOWS that a write is pending
/// (an earlier query on this snapshot came back Cancelled, and the flag cannot go down while the snapshot lives)
fn one_query(sh: &Shared, r: usize, snap: &Analysis, ver: usize, qi: usize, pend: bool, acc: &mut ReaderAcc) -> Res {
    let q = &sh.menu[qi];
    let text = &sh.versions[ver][q.file];
    sh.log.ev(r, json!({"ev": "QueryStart", "r": r, "q": qi + 1, "pend": pend}));
    sh.busy.fetch_add(1, SeqCst);
    let t = Instant::now();
    sh.query_since_ms[r].store(sh.t0.elapsed().as_millis() as u64 + 1, SeqCst);
    let res = run_query(snap, q, text);
    sh.query_since_ms[r].store(0, SeqCst);
    let ms = t.elapsed().as_secs_f64() * 1e3;
    sh.busy.fetch_sub(1, SeqCst);
    sh.log.ev(r, json!({"ev": "QueryEnd", "r": r, "q": qi + 1, "res": res.tag(), "h": res.hash()}));
    acc.nqueries += 1;
    if ms > acc.max_ms {
        acc.max_ms = ms;
    }
    if let Res::Panic(m) = &res {
        acc.panics.push(json!({"reader": r, "query": format!("{q:?}"), "snapshot_version": ver, "panic": m, "write_known_pending": pend}));
    }
    res
}

const MAX_PROBES: usize = 60;

fn reader(sh: Arc<Shared>, r: usize, mut rng: Rng, max_q: usize, stats: mpsc::Sender<(f64, Vec<Value>, u64)>) {
    let mut acc = ReaderAcc { max_ms: 0.0, panics: vec![], nqueries: 0 };
    let mut per_version = (usize::MAX, 0usize);
    let mut first = true;
    // a request that came back Cancelled is asked again on the next snapshot - what an LSP client does with
    // ContentModified / RequestCancelled; whatever the cancelled attempt left behind on this thread must not show
    let mut retry: Option<usize> = None;
    // menu entries that search the workspace (many classifications per call: the longest-running, most often cut short)
    let searches: Vec<usize> = sh.menu.iter().enumerate().filter(|(_, q)| matches!(q.kind, "references" | "highlight_related" | "rename")).map(|(i, _)| i).collect();
    while !sh.stop.load(SeqCst) {
        delay(&mut rng, 300);
        let (snap, ver) = {
            let g = sh.host.lock().unwrap_or_else(|e| e.into_inner());
            let s = g.0.snapshot();
            let v = g.1;
            sh.log.ev(r, json!({"ev": "Snapshot", "r": r, "ver": v}));
            (s, v)
        };
        if per_version.0 != ver {
            per_version = (ver, 0);
        }
        per_version.1 += 1;
        // ambush: keep this snapshot until the writer is inside apply_change(ver + 1) - it cannot get past its first
        // write while the snapshot lives -, probe until a query reports Cancelled, then issue the whole menu
        let ambush = ver < sh.k && ((first && r == 1 && sh.forced_ambush) || rng.below(8) == 0);
        first = false;
        if ambush {
            sh.ambush.fetch_add(1, SeqCst);
            let t = Instant::now();
            while sh.apply_since_ms.load(SeqCst) == 0 && !sh.stop.load(SeqCst) && t.elapsed() < Duration::from_secs(2) {
                std::thread::yield_now();
            }
            let mut pending = false;
            if sh.apply_since_ms.load(SeqCst) != 0 {
                for i in 0..MAX_PROBES {
                    let qi = rng.below(sh.menu.len());
                    if one_query(&sh, r, &snap, ver, qi, false, &mut acc) == Res::Cancelled {
                        pending = true;
                        break;
                    }
                    if i >= 10 {
                        std::thread::sleep(Duration::from_micros(100 * (i as u64 - 9).min(20)));
                    } else {
                        std::thread::yield_now();
                    }
                }
            }
            if pending {
                let off = rng.below(sh.menu.len());
                for i in 0..sh.menu.len() {
                    one_query(&sh, r, &snap, ver, (off + i) % sh.menu.len(), true, &mut acc);
                }
            } else {
                sh.ambush_timeouts.fetch_add(1, SeqCst);
            }
            sh.ambush.fetch_sub(1, SeqCst);
        } else {
            let nq = 1 + rng.below(max_q);
            for _ in 0..nq {
                delay(&mut rng, 100);
                let qi = match retry.take() {
                    Some(q) => q,
                    None if !searches.is_empty() && rng.below(3) == 0 => searches[rng.below(searches.len())],
                    None => rng.below(sh.menu.len()),
                };
                if one_query(&sh, r, &snap, ver, qi, false, &mut acc) == Res::Cancelled {
                    retry = Some(qi);
                    break;
                }
            }
        }
        delay(&mut rng, 100);
        sh.log.ev(r, json!({"ev": "Drop", "r": r}));
        drop(snap);
        // keep the trace short once this version has been looked at a few times: wait (holding nothing)
        // for the next version
        if per_version.1 >= 4 {
            while !sh.stop.load(SeqCst) && sh.host.lock().unwrap_or_else(|e| e.into_inner()).1 == ver {
                std::thread::sleep(Duration::from_micros(100));
            }
        }
    }
    let _ = stats.send((acc.max_ms, acc.panics, acc.nqueries));
}

fn writer(sh: Arc<Shared>, plan: Arc<RunPlan>, mut rng: Rng, out: mpsc::Sender<(Vec<f64>, Vec<Value>)>) {
    let mut apply_ms = vec![];
    let mut panics = vec![];
    for c in 1..=plan.k {
        // when to fire: after a pause, and/or once some readers are inside a query
        match rng.below(6) {
            0 => {}
            1 => std::thread::sleep(Duration::from_micros(rng.next() % 300)),
            2 => std::thread::sleep(Duration::from_micros(rng.next() % 3000)),
            _ => {
                let want = 1 + rng.below(plan.n);
                let t = Instant::now();
                while sh.busy.load(SeqCst) < want && sh.ambush.load(SeqCst) == 0 && t.elapsed() < Duration::from_millis(20) {
                    std::hint::spin_loop();
                }
                match rng.below(3) {
                    0 => {}
                    1 => std::thread::sleep(Duration::from_micros(rng.next() % 200)),
                    // (a heavy run: the change arrives anywhere inside queries that take hundreds of milliseconds)
                    _ if plan.nf > 2000 => std::thread::sleep(Duration::from_micros(rng.next() % 400_000)),
                    _ => std::thread::sleep(Duration::from_micros(rng.next() % 2000)),
                }
            }
        }
        // the Change as the server builds it: (roots, package graph,) one content per edit it took from the editor
        let mut change = Change::default();
        if plan.meta[c - 1] {
            workspace_layout(&mut change, NMOD);
        }
        for &e in &plan.batches[c - 1] {
            let f = e.unsigned_abs() as usize - 1;
            let text = if e > 0 { sh.versions[c][f].clone() } else { sh.mids[c][f].clone().expect("planned intermediate text") };
            change.change_file(FileId(f as u32), text);
        }
        let touch = plan.todo(c);
        let mut g = sh.host.lock().unwrap_or_else(|e| e.into_inner());
        sh.log.ev(0, json!({"ev": "ApplyBegin", "c": c, "touch": touch}));
        sh.apply_since_ms.store(sh.t0.elapsed().as_millis() as u64 + 1, SeqCst);
        let t = Instant::now();
        let res = catch(|| g.0.apply_change(change));
        let ms = t.elapsed().as_secs_f64() * 1e3;
        sh.apply_since_ms.store(0, SeqCst);
        g.1 = c;
        match res {
            Ok(()) => sh.log.ev(0, json!({"ev": "ApplyEnd", "c": c, "ms": ms.ceil() as u64})),
            Err(p) => {
                sh.log.ev(0, json!({"ev": "ApplyPanic", "c": c}));
                panics.push(json!({"apply": c, "panic": p}));
            }
        }
        drop(g);
        apply_ms.push(ms);
    }
    // let the readers look at the last version too
    let t = Instant::now();
    let want = 1 + rng.below(plan.n);
    while sh.busy.load(SeqCst) < want && t.elapsed() < Duration::from_millis(5) {
        std::hint::spin_loop();
    }
    std::thread::sleep(Duration::from_micros(rng.next() % 1500));
    sh.stop.store(true, SeqCst);
    let _ = out.send((apply_ms, panics));
}

fn spawn<F: FnOnce() + Send + 'static>(name: String, f: F) {
    std::thread::Builder::new().name(name).stack_size(STACK).spawn(f).expect("spawn");
}

fn plan_run(seed: u64, run: u64, nf_max: usize, max_n: usize, max_k: usize) -> (RunPlan, Rng) {
    let mut rng = Rng::new(seed.wrapping_mul(1_000_003).wrapping_add(run));
    let n = 1 + rng.below(max_n);
    let k = 1 + rng.below(max_k);
    // one run in forty is heavy: chains twenty times as long, so that single queries (the inference of one function walks
    // the whole chain) take a few hundred milliseconds and a change arrives in the middle of them - "long queries"
    let heavy = rng.below(40) == 0;
    let nf = if heavy { nf_max * 20 } else { [nf_max / 8, nf_max / 3, nf_max, nf_max][rng.below(4)].max(4) };
    let salt = rng.next() % 1000;
    let touches = (0..k)
        .map(|_| {
            let cnt = 1 + rng.below(NMOD);
            let mut fs: Vec<usize> = (0..NMOD).collect();
            while fs.len() > cnt {
                let i = rng.below(fs.len());
                fs.remove(i);
            }
            fs
        })
        .collect::<Vec<Vec<usize>>>();
    // the queue of each Change: the final texts in a seeded order; about every third touched file also has an
    // intermediate text, queued anywhere before its final one
    let mut batches = vec![];
    let mut meta = vec![];
    for t in &touches {
        let mut b: Vec<i64> = vec![];
        let mut rest: Vec<usize> = t.clone();
        while !rest.is_empty() {
            let i = rng.below(rest.len());
            b.push(rest.remove(i) as i64 + 1);
        }
        for &f in t {
            if rng.below(3) == 0 {
                let at = b.iter().position(|&e| e == f as i64 + 1).unwrap();
                b.insert(rng.below(at + 1), -(f as i64 + 1));
            }
        }
        batches.push(b);
        meta.push(rng.below(5) == 0);
    }
    let forced_ambush = rng.below(4) != 0;
    (RunPlan { run, n, k, nf, salt, touches, batches, meta, forced_ambush }, rng)
}

fn versions_of(plan: &RunPlan) -> Vec<Vec<Arc<str>>> {
    let mut vs: Vec<Vec<Arc<str>>> = vec![(0..NMOD).map(|i| gen_module(i, 0, plan.salt, plan.nf).into()).collect()];
    for c in 1..=plan.k {
        let mut v = vs[c - 1].clone();
        for &f in &plan.touches[c - 1] {
            v[f] = gen_module(f, c, plan.salt, plan.nf).into();
        }
        vs.push(v);
    }
    vs
}

/// mids[c][f] = the intermediate text change c queues for module f (None if it queues only the final one)
fn mids_of(plan: &RunPlan) -> Vec<Vec<Option<Arc<str>>>> {
    let mut ms: Vec<Vec<Option<Arc<str>>>> = vec![vec![None; NMOD]];
    for c in 1..=plan.k {
        let mut row = vec![None; NMOD];
        for &e in &plan.batches[c - 1] {
            if e < 0 {
                let f = (-e) as usize - 1;
                row[f] = Some(gen_module(f, MID + c, plan.salt, plan.nf).into());
            }
        }
        ms.push(row);
    }
    ms
}

/// For the classification of a wrong answer only (never part of the verdict): the workspace version c would be if
/// the FIRST content queued per file had been kept - None if change c queues one content per file.
fn first_wins_versions(versions: &[Vec<Arc<str>>], mids: &[Vec<Option<Arc<str>>>]) -> Vec<Option<Vec<Arc<str>>>> {
    versions
        .iter()
        .zip(mids)
        .map(|(v, m)| {
            if m.iter().all(|x| x.is_none()) {
                return None;
            }
            Some(v.iter().zip(m).map(|(t, mid)| mid.clone().unwrap_or_else(|| t.clone())).collect())
        })
        .collect()
}

/// refs[v][q] = "<hash>" | "panic:<hash>"  for a fresh single-threaded analysis of version v
/// `versions[v]` = the workspace to analyse (None: no row), `positions[v]` = the texts the query positions are
/// resolved against (what a reader of version v uses)
fn references(versions: &[Option<Vec<Arc<str>>>], positions: &[Vec<Arc<str>>], menu: &[Query]) -> Vec<Vec<String>> {
    let (tx, rx) = mpsc::channel();
    for (v, texts) in versions.iter().enumerate() {
        let Some(texts) = texts.clone() else {
            let _ = tx.send((v, vec![]));
            continue;
        };
        let pos_texts = positions[v].clone();
        let menu = menu.to_vec();
        let tx = tx.clone();
        spawn(format!("ref{v}"), move || {
            let host = fresh_host(&texts);
            let snap = host.snapshot();
            let row: Vec<String> = menu
                .iter()
                .map(|q| {
                    let r = run_query(&snap, q, &pos_texts[q.file]);
                    match r {
                        Res::Ok(h) => h,
                        other => format!("{}:{}", other.tag(), other.hash()),
                    }
                })
                .collect();
            let _ = tx.send((v, row));
        });
    }
    drop(tx);
    let mut rows: Vec<(usize, Vec<String>)> = rx.iter().collect();
    rows.sort_by_key(|r| r.0);
    rows.into_iter().map(|r| r.1).collect()
}

fn one_run(plan: RunPlan, mut rng: Rng, attempt: u64, deadline: Duration, max_q: usize, nmenu: usize) -> RunStats {
    let heavy_plan = plan.nf > 2000;
    let versions = versions_of(&plan);
    let mids = mids_of(&plan);
    let menu = gen_menu(&mut rng, plan.nf, nmenu);
    // the plan (workspace, changes, menu) is a function of (seed, run); the delays also of the attempt
    let mut rng = Rng::new(rng.next() ^ attempt.wrapping_mul(0x2545F4914F6CDD1D));
    let host = fresh_host(&versions[0]);
    let n = plan.n;
    let sh = Arc::new(Shared {
        host: Mutex::new((host, 0)),
        log: Log::new(n),
        stop: AtomicBool::new(false),
        busy: AtomicUsize::new(0),
        apply_since_ms: AtomicU64::new(0),
        query_since_ms: (0..=n).map(|_| AtomicU64::new(0)).collect(),
        t0: Instant::now(),
        versions,
        menu,
        mids,
        k: plan.k,
        forced_ambush: plan.forced_ambush,
        ambush: AtomicUsize::new(0),
        ambush_timeouts: AtomicUsize::new(0),
    });
    struct StopOnExit(Arc<Shared>); // whatever happens to this function, the run's threads are told to stop
    impl Drop for StopOnExit {
        fn drop(&mut self) {
            self.0.stop.store(true, SeqCst);
        }
    }
    let _guard = StopOnExit(sh.clone());
    let plan = Arc::new(plan);
    let (rtx, rrx) = mpsc::channel();
    let (wtx, wrx) = mpsc::channel();
    for r in 1..=n {
        let (sh, rtx) = (sh.clone(), rtx.clone());
        let rr = Rng::new(rng.next());
        spawn(format!("reader{r}"), move || {
            let tx2 = rtx.clone();
            // a panic outside a query (snapshot(), drop of the snapshot) is data too, and must not hang the run
            if let Err(p) = catch(|| reader(sh, r, rr, max_q, rtx)) {
                let _ = tx2.send((0.0, vec![json!({"reader": r, "panic": p, "outside_a_query": true})], 0));
            }
        });
    }
    drop(rtx);
    {
        let (sh, plan) = (sh.clone(), plan.clone());
        let wr = Rng::new(rng.next());
        spawn("writer".into(), move || {
            let (tx2, sh2) = (wtx.clone(), sh.clone());
            if let Err(p) = catch(|| writer(sh, plan, wr, wtx)) {
                sh2.stop.store(true, SeqCst);
                let _ = tx2.send((vec![], vec![json!({"apply": 0, "panic": p, "outside_apply_change": true})]));
            }
        });
    }
    // watchdog: an apply (or a query) that stays in progress longer than the deadline is the liveness violation
    let mut blocked = None;
    let mut wres = None;
    let mut rres: Vec<(f64, Vec<Value>, u64)> = vec![];
    loop {
        if wres.is_none() {
            if let Ok(w) = wrx.try_recv() {
                wres = Some(w);
            }
        }
        while let Ok(r) = rrx.try_recv() {
            rres.push(r);
        }
        if wres.is_some() && rres.len() == n {
            break;
        }
        let now = sh.t0.elapsed().as_millis() as u64 + 1;
        let a = sh.apply_since_ms.load(SeqCst);
        if a != 0 && now.saturating_sub(a) > deadline.as_millis() as u64 {
            let live: Vec<usize> = (1..=n).filter(|r| sh.query_since_ms[*r].load(SeqCst) != 0).collect();
            blocked = Some(json!({"what": "apply blocked", "waited_ms": now.saturating_sub(a), "readers_inside_a_query": live}));
            break;
        }
        for r in 1..=n {
            let q = sh.query_since_ms[r].load(SeqCst);
            // (a query is allowed twice the deadline; ten times in a heavy run, whose cold workspace-wide searches take
            // seconds on an idle machine and minutes on a loaded one - a query that never returns is still noticed)
            let allowed = if heavy_plan { 10 } else { 2 } * deadline.as_millis() as u64;
            if q != 0 && now.saturating_sub(q) > allowed {
                blocked = Some(json!({"what": "query hung", "waited_ms": now.saturating_sub(q), "reader": r}));
            }
        }
        if blocked.is_some() {
            break;
        }
        std::thread::sleep(Duration::from_micros(200));
    }
    let events = sh.log.merged();
    let (apply_ms, mut panics) = wres.unwrap_or_default();
    let mut max_query_ms = 0f64;
    let mut queries = 0;
    for (m, p, q) in rres {
        max_query_ms = max_query_ms.max(m);
        panics.extend(p);
        queries += q;
    }
    let mut all = vec![];
    if blocked.is_none() {
        let refs = references(&sh.versions.iter().cloned().map(Some).collect::<Vec<_>>(), &sh.versions, &sh.menu);
        let refs_first = references(&first_wins_versions(&sh.versions, &sh.mids), &sh.versions, &sh.menu);
        all.push(json!({"ev": "reset", "run": plan.run, "attempt": attempt, "n": n, "k": plan.k, "nf": plan.nf, "refs": refs,
            "refs_first_content_wins": refs_first,
            "menu": sh.menu.iter().map(|q| format!("{}@m{}:{}..{:?}+{}", q.kind, q.file, q.anchor, q.inner, q.delta)).collect::<Vec<_>>(),
            "touch": plan.touches.iter().map(|t| t.iter().map(|f| f + 1).collect::<Vec<_>>()).collect::<Vec<_>>(),
            "changes": (1..=plan.k).map(|c| plan.todo(c)).collect::<Vec<_>>(),
            "ambush_timeouts": sh.ambush_timeouts.load(SeqCst)}));
    } else {
        all.push(json!({"ev": "reset", "run": plan.run, "attempt": attempt, "n": n, "k": plan.k, "nf": plan.nf, "refs": [], "aborted": true}));
    }
    all.extend(events);
    RunStats { events: all, apply_ms, max_query_ms, panics, blocked, queries, harness_error: None }
}

fn arg<T: std::str::FromStr>(args: &[String], name: &str, default: T) -> T {
    args.iter().position(|a| a == name).and_then(|i| args.get(i + 1)).and_then(|s| s.parse().ok()).unwrap_or(default)
}

fn main() {
    quiet_panics();
    let args: Vec<String> = std::env::args().collect();
    let seed: u64 = std::env::var("VERIF_SEED").ok().and_then(|s| s.parse().ok()).unwrap_or(1);
    let runs: u64 = arg(&args, "--runs", 20);
    let first: u64 = arg(&args, "--first-run", 0);
    let jobs: usize = arg(&args, "--jobs", 2);
    let nf: usize = arg(&args, "--funcs", 240);
    let max_n: usize = arg(&args, "--max-readers", 4);
    let max_k: usize = arg(&args, "--max-changes", 4);
    let max_q: usize = arg(&args, "--max-queries", 3);
    let nmenu: usize = arg(&args, "--menu", 24).clamp(KINDS.len(), 30);
    let deadline = Duration::from_millis(arg(&args, "--deadline-ms", 30_000));
    let trace_out: String = arg(&args, "--trace-out", String::from("/dev/null"));
    let only: Option<u64> = args.iter().position(|a| a == "--only-run").and_then(|i| args.get(i + 1)).and_then(|s| s.parse().ok());

    if let Some(r) = args.iter().position(|a| a == "--show-run").and_then(|i| args.get(i + 1)).and_then(|s| s.parse::<u64>().ok()) {
        // debugging aid: what the menu queries of run r answer on each version (fresh analysis)
        let (plan, mut rng) = plan_run(seed, r, nf, max_n, max_k);
        let versions = versions_of(&plan);
        let menu = gen_menu(&mut rng, plan.nf, nmenu);
        for (v, texts) in versions.iter().enumerate() {
            let host = fresh_host(texts);
            let snap = host.snapshot();
            for q in &menu {
                let t = Instant::now();
                let s = format!("{:?}", render_query(&snap, q, &texts[q.file]));
                println!("v{v} {:?} {:.2}ms -> {}", q, t.elapsed().as_secs_f64() * 1e3, s.chars().take(300).collect::<String>());
            }
        }
        return;
    }
    let mut trace = std::io::BufWriter::new(std::fs::File::create(&trace_out).expect("trace file"));
    let stdout = std::io::stdout();
    // work items: (run, attempt)
    let repeat: u64 = arg(&args, "--repeat", 1);
    let items: Arc<Vec<(u64, u64)>> = Arc::new(match only {
        Some(r) => (0..repeat).map(|a| (r, a)).collect(),
        None => (first..first + runs).map(|r| (r, 0)).collect(),
    });
    let next = Arc::new(AtomicUsize::new(0));
    let (tx, rx) = mpsc::channel::<(u64, RunStats, Value)>();
    let abort = Arc::new(AtomicBool::new(false));
    for j in 0..jobs.max(1) {
        let (next, tx, abort, items) = (next.clone(), tx.clone(), abort.clone(), items.clone());
        spawn(format!("job{j}"), move || loop {
            let i = next.fetch_add(1, SeqCst);
            if i >= items.len() || abort.load(SeqCst) {
                break;
            }
            let (run, attempt) = items[i];
            let (plan, rng) = plan_run(seed, run, nf, max_n, max_k);
            let shape = json!({"run": run, "attempt": attempt, "readers": plan.n, "changes": plan.k, "funcs": plan.nf, "touch": plan.touches,
                "writes": (1..=plan.k).map(|c| plan.todo(c)).collect::<Vec<_>>(), "forced_ambush": plan.forced_ambush});
            // a panic of the harness itself (not of code under test, which is caught per call) must not go unnoticed
            let st = match catch(|| one_run(plan, rng, attempt, deadline, max_q, nmenu)) {
                Ok(st) => st,
                Err(msg) => RunStats { events: vec![json!({"ev": "reset", "run": run, "attempt": attempt, "refs": [], "aborted": true})],
                    apply_ms: vec![], max_query_ms: 0.0, panics: vec![], blocked: None, queries: 0, harness_error: Some(msg) },
            };
            if st.blocked.is_some() {
                abort.store(true, SeqCst);
            }
            if tx.send((run, st, shape)).is_err() {
                break;
            }
        });
    }
    drop(tx);

    let (mut nruns, mut nevents, mut nqueries, mut racing, mut cancelled, mut mismatches) = (0u64, 0u64, 0u64, 0u64, 0u64, 0u64);
    let (mut max_apply, mut max_query, mut sum_apply, mut napply) = (0f64, 0f64, 0f64, 0u64);
    let mut discr = (0u64, 0u64);
    let mut samples: Vec<Value> = vec![];
    let mut aborted = false;
    let mut harness_errors = 0u64;
    // per query kind: [issued, issued while a write was known to be pending, cancelled, ok between ApplyBegin and ApplyEnd]
    let mut by_kind: std::collections::BTreeMap<String, [u64; 4]> = KINDS.iter().map(|k| (k.to_string(), [0; 4])).collect();
    let (mut ambushes, mut ambush_timeouts, mut dup_changes, mut meta_changes, mut dup_seen_after) = (0u64, 0u64, 0u64, 0u64, 0u64);
    for (run, st, shape) in rx {
        nruns += 1;
        {
            let kinds: Vec<String> = st.events[0]["menu"].as_array().map(|m| m.iter().map(|x| x.as_str().unwrap_or("").split('@').next().unwrap_or("").to_string()).collect()).unwrap_or_default();
            let dup_of: Vec<bool> = st.events[0]["changes"].as_array().map(|cs| cs.iter().map(|c| c.as_array().map_or(false, |w| w.iter().any(|e| e.as_i64().unwrap_or(0) < 0))).collect()).unwrap_or_default();
            ambush_timeouts += st.events[0]["ambush_timeouts"].as_u64().unwrap_or(0);
            let mut started: std::collections::HashMap<u64, bool> = Default::default();
            let mut snap_ver: std::collections::HashMap<u64, usize> = Default::default();
            let mut in_apply = false;
            let mut in_ambush: std::collections::HashSet<u64> = Default::default();
            for e in &st.events[1..] {
                let r = e["r"].as_u64().unwrap_or(0);
                match e["ev"].as_str().unwrap_or("") {
                    "ApplyBegin" => {
                        in_apply = true;
                        let w = e["touch"].as_array().cloned().unwrap_or_default();
                        dup_changes += w.iter().any(|x| x.as_i64().unwrap_or(0) < 0) as u64;
                        meta_changes += w.iter().any(|x| x.as_i64() == Some(0)) as u64;
                    }
                    "ApplyEnd" | "ApplyPanic" => in_apply = false,
                    "Snapshot" => {
                        snap_ver.insert(r, e["ver"].as_u64().unwrap_or(0) as usize);
                    }
                    "Drop" => {
                        in_ambush.remove(&r);
                    }
                    "QueryStart" => {
                        let pend = e["pend"].as_bool().unwrap_or(false);
                        if pend && in_ambush.insert(r) {
                            ambushes += 1;
                        }
                        started.insert(r, pend);
                    }
                    "QueryEnd" => {
                        let q = e["q"].as_u64().unwrap_or(0) as usize;
                        if let Some(k) = kinds.get(q.wrapping_sub(1)) {
                            let c = by_kind.entry(k.clone()).or_insert([0; 4]);
                            c[0] += 1;
                            c[1] += started.get(&r).copied().unwrap_or(false) as u64;
                            c[2] += (e["res"] == "cancelled") as u64;
                            c[3] += (e["res"] == "ok" && in_apply) as u64;
                        }
                        // an ok answer on a snapshot of a version whose change queued two contents for a file
                        let v = snap_ver.get(&r).copied().unwrap_or(0);
                        if e["res"] == "ok" && v >= 1 && dup_of.get(v - 1).copied().unwrap_or(false) {
                            dup_seen_after += 1;
                        }
                    }
                    _ => {}
                }
            }
        }
        nevents += st.events.len() as u64 - 1;
        nqueries += st.queries;
        // did a query overlap an apply?  (a Cancelled result, or a QueryEnd between ApplyBegin and ApplyEnd)
        let mut in_apply = false;
        let mut raced = false;
        let mut ncanc = 0;
        for e in &st.events {
            match e["ev"].as_str().unwrap_or("") {
                "ApplyBegin" => in_apply = true,
                "ApplyEnd" | "ApplyPanic" => in_apply = false,
                "QueryEnd" => {
                    if in_apply {
                        raced = true;
                    }
                    if e["res"] == "cancelled" {
                        raced = true;
                        ncanc += 1;
                    }
                }
                _ => {}
            }
        }
        racing += raced as u64;
        cancelled += ncanc;
        // how discriminating are the reference answers (consecutive versions giving different hashes)?
        if let Some(refs) = st.events[0]["refs"].as_array() {
            for w in refs.windows(2) {
                for (a, b) in w[0].as_array().unwrap().iter().zip(w[1].as_array().unwrap()) {
                    discr.1 += 1;
                    discr.0 += (a != b) as u64;
                }
            }
        }
        for ms in &st.apply_ms {
            max_apply = max_apply.max(*ms);
            sum_apply += ms;
            napply += 1;
        }
        max_query = max_query.max(st.max_query_ms);
        let mut o = stdout.lock();
        if let Some(msg) = &st.harness_error {
            harness_errors += 1;
            writeln!(o, "{}", json!({"kind": "harness_error", "run": run, "shape": shape, "error": msg})).unwrap();
        }
        for p in &st.panics {
            mismatches += 1;
            let at = p["panic"].as_str().unwrap_or("").rsplit(" @ ").next().unwrap_or("").to_string();
            writeln!(o, "{}", json!({"kind": "mismatch", "features": {"what": "panic", "where": if p.get("outside_a_query").is_some() { "snapshot_or_drop" } else if p.get("outside_apply_change").is_some() { "writer" } else if p.get("apply").is_some() { "apply_change" } else { "query" }, "panic_at": at},
                "detail": {"run": run, "shape": shape, "panic": p}})).unwrap();
        }
        if let Some(b) = &st.blocked {
            mismatches += 1;
            aborted = true;
            writeln!(o, "{}", json!({"kind": "mismatch", "features": {"what": b["what"], "deadline_ms": deadline.as_millis() as u64},
                "detail": {"run": run, "shape": shape, "blocked": b, "events_so_far": st.events.len() - 1}})).unwrap();
        }
        for ms in &st.apply_ms {
            if *ms > deadline.as_millis() as f64 {
                mismatches += 1;
                writeln!(o, "{}", json!({"kind": "mismatch", "features": {"what": "apply blocked", "deadline_ms": deadline.as_millis() as u64},
                    "detail": {"run": run, "shape": shape, "apply_ms": ms}})).unwrap();
            }
        }
        drop(o);
        if samples.len() < 3 && raced && ncanc > 0 {
            samples.push(json!({"shape": shape, "events": st.events.len() - 1, "cancelled_results": ncanc,
                "apply_ms": st.apply_ms, "max_query_ms": st.max_query_ms}));
        }
        for e in &st.events {
            writeln!(trace, "{e}").unwrap();
        }
        if aborted {
            break;
        }
    }
    trace.flush().unwrap();
    let mut o = stdout.lock();
    writeln!(o, "{}", json!({"kind": "summary", "runs": nruns, "events": nevents, "queries": nqueries, "racing_runs": racing,
        "cancelled_results": cancelled, "mismatches": mismatches, "max_apply_ms": max_apply,
        "mean_apply_ms": if napply > 0 { sum_apply / napply as f64 } else { 0.0 }, "applies": napply, "max_query_ms": max_query,
        "ref_pairs_differing": discr.0, "ref_pairs": discr.1, "aborted": aborted, "harness_errors": harness_errors, "samples": samples,
        "api": API, "kinds": KINDS.iter().collect::<std::collections::BTreeSet<_>>(),
        "by_kind": by_kind.iter().map(|(k, c)| (k.clone(), json!({"method": api_method(k), "issued": c[0], "write_known_pending": c[1], "cancelled": c[2], "ok_during_apply": c[3]}))).collect::<serde_json::Map<String, Value>>(),
        "ambushes": ambushes, "ambush_timeouts": ambush_timeouts, "changes_with_two_contents_for_a_file": dup_changes,
        "changes_with_roots_and_graph": meta_changes, "ok_answers_on_versions_after_such_changes": dup_seen_after})).unwrap();
    o.flush().unwrap();
    // threads of a blocked run can never be joined
    std::process::exit(0);
}
