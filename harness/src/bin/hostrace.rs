//! C12 driver: one writer applying k changes to an `ide::AnalysisHost` while n reader threads take
//! snapshots and run IDE queries on them, under seeded random scheduling.
//!
//! What is recorded (one global atomic sequence number, taken at the linearization point):
//!   Snapshot(r, ver)   inside the host critical section, right after `host.snapshot()` returned
//!   QueryStart(r, q)   before the `Analysis::*` call
//!   QueryEnd(r, q, ok(hash) | cancelled | panic)   after the call returned, BEFORE the snapshot is dropped
//!   Drop(r)            before the snapshot is dropped (the drop itself follows immediately)
//!   ApplyBegin(c, touched files)   before `host.apply_change` is called
//!   ApplyEnd(c, ms)                after it returned
//! The `AnalysisHost` lives in a `Mutex` that is held only for `snapshot()` and for `apply_change()`
//! (the mutex plays the role of `&self` / `&mut self` exclusivity: the real server does both on its single
//! main-loop thread).  Readers hold *snapshots*, never the mutex, while they query, so the only thing that
//! can unblock a pending `apply_change` is salsa's cancellation.
//!
//! Reference answers: after the race, every version 0..k of the workspace is analysed by a fresh,
//! single-threaded `AnalysisHost` and every query of the run's menu is hashed; the table goes into the
//! run's `reset` line of the trace.  The judgement (is this interleaving a behaviour of `Host`, does every
//! Ok(hash) equal the reference of the snapshot's version) is made by TLC on the trace (Trace_Host.tla);
//! this binary only reports what needs wall-clock or the panic message: panics and blocked applies.
use ide::{Analysis, AnalysisHost, Change, FileId, FilePos, FileSet, PackageGraph, SourceRoot, VfsPath};
use serde_json::{json, Value};
use std::fmt::Write as _;
use std::io::Write;
use std::sync::atomic::{AtomicBool, AtomicU64, AtomicUsize, Ordering::SeqCst};
use std::sync::{mpsc, Arc, Mutex};
use std::time::{Duration, Instant};
use verif_harness::util::{quiet_panics, Rng, LAST_PANIC_LOC};

const STACK: usize = 64 << 20;
const NMOD: usize = 3;

// ------------------------------------------------------------------------------------------------
// workload: generated Gleam modules

const RETS: &[(&str, &str)] = &[
    ("Int", "x + 1"),
    ("Float", "1.5"),
    ("String", "\"s\""),
    ("List(Int)", "[x]"),
    ("Bool", "x == 1"),
    ("#(Int, String)", "#(x, \"t\")"),
];

/// Module `idx` (m0 imports m1, m2; m1 imports m2), content id `c` (0 = initial, else the change that wrote
/// it).  Everything a query can return depends on (salt, idx, c): the return type of `base` (and through
/// the call chains the type of every `fK` here and in the importing modules), the offsets (header length),
/// the diagnostics (a syntax error in the last line, whose range moves and whose text names the content).
fn gen_module(idx: usize, c: usize, salt: u64, nf: usize) -> String {
    let variant = ((salt as usize) + c * 5 + idx * 7) % RETS.len();
    let (ret, body) = RETS[variant];
    let mut s = String::with_capacity(nf * 120);
    for h in 0..(1 + (c + idx) % 4) {
        let _ = writeln!(s, "//// module m{idx} content {c} header line {h}");
    }
    for j in idx + 1..NMOD {
        let _ = writeln!(s, "import m{j}");
    }
    let _ = writeln!(s, "pub type Shape {{ Circle(Int) Square(Int, Int) }}");
    let _ = writeln!(s, "pub const limit = {}", 10 + c);
    let _ = writeln!(s, "pub fn base(x: Int) -> {ret} {{ {body} }}");
    let _ = writeln!(s, "fn dup(a, a) {{ a }}");
    for k in 1..=nf {
        let prev = if k == 1 { "base".to_string() } else { format!("f{}", k - 1) };
        let _ = writeln!(s, "pub fn f{k}(x: Int) {{");
        let _ = writeln!(s, "  let a = {prev}(x)");
        if idx + 1 < NMOD {
            let j = idx + 1 + (k % (NMOD - idx - 1));
            let _ = writeln!(s, "  let b = m{j}.f{k}(x)");
            let _ = writeln!(s, "  let c = #(a, b, limit)");
        } else {
            let _ = writeln!(s, "  let b = Circle(x)");
            let _ = writeln!(s, "  let c = case b {{ Circle(r) -> r Square(w, h) -> w + h }}");
        }
        let _ = writeln!(s, "  a");
        let _ = writeln!(s, "}}");
    }
    // a syntax error at top level (three ExpectedStatement diagnostics whose ranges move with the header)
    let _ = writeln!(s, "stray{c} = {c}");
    s
}

#[derive(Clone, Debug)]
struct Query {
    kind: &'static str,
    file: usize,
    anchor: String, // header of a function; resolved against the text of the snapshot's own version
    inner: &'static str, // first occurrence after the header
    delta: usize,
}

/// (text to find after the function header, offset from its start): identifier occurrences of every role
const SPOTS: &[(&str, usize)] = &[
    ("pub fn ", 7),    // the function's own name (definition)
    ("(x", 1),         // parameter binder
    ("let a", 4),      // let binder
    ("let a = ", 8),   // callee (same module)
    ("let a = ", 10),  // inside the callee name
    ("(x)\n", 1),      // argument (also inside call parentheses: signature help)
    ("let b = ", 8),   // module qualifier (m0, m1) / constructor (m2)
    ("let b = ", 11),  // imported function after `mJ.` / inside the constructor
    ("let c = ", 10),  // use of `a` (m0, m1) / keyword (m2)
    ("let c = ", 13),  // use of `b`
    ("let c = ", 16),  // use of the constant `limit` / pattern
    ("\n  a\n", 3),    // tail expression
    ("\n  a\n", 4),    // just after the tail expression (completion)
    ("let c", 3),      // whitespace between tokens
];

const KINDS: &[&str] = &[
    "hover", "hover", "goto_definition", "references", "completions", "diagnostics", "syntax_tree",
    "highlight_related", "syntax_highlight", "signature_help",
];

fn gen_menu(rng: &mut Rng, nf: usize, nq: usize) -> Vec<Query> {
    let mut m = vec![];
    for i in 0..nq {
        let kind = KINDS[if i < KINDS.len() { i } else { rng.below(KINDS.len()) }];
        let file = rng.below(NMOD);
        let k = 1 + rng.below(nf);
        let (inner, delta) = SPOTS[rng.below(SPOTS.len())];
        let anchor = if rng.below(12) == 0 { "pub fn base(".to_string() } else { format!("pub fn f{k}(") };
        m.push(Query { kind, file, anchor, inner, delta });
    }
    m
}

/// catch_unwind that also names a salsa `Cancelled` payload escaping from the code under test (it is thrown
/// with resume_unwind, so the panic hook never sees it)
fn catch<T>(f: impl FnOnce() -> T) -> Result<T, String> {
    LAST_PANIC_LOC.with(|l| l.borrow_mut().clear());
    match std::panic::catch_unwind(std::panic::AssertUnwindSafe(f)) {
        Ok(v) => Ok(v),
        Err(p) => {
            let msg = if p.downcast_ref::<ide::Cancelled>().is_some() {
                "salsa Cancelled unwound out of the ide API instead of being returned as Err(Cancelled)".to_string()
            } else {
                p.downcast_ref::<String>().cloned().or_else(|| p.downcast_ref::<&str>().map(|s| s.to_string())).unwrap_or_else(|| "unknown panic".into())
            };
            let loc = LAST_PANIC_LOC.with(|l| l.borrow().clone());
            Err(format!("{msg} @ {loc}"))
        }
    }
}

fn fnv(s: &str) -> String {
    let mut h: u64 = 0xcbf29ce484222325;
    for b in s.as_bytes() {
        h ^= *b as u64;
        h = h.wrapping_mul(0x100000001b3);
    }
    format!("{h:016x}")
}

fn sorted<T: std::fmt::Debug>(v: &[T]) -> String {
    let mut items: Vec<String> = v.iter().map(|x| format!("{x:?}")).collect();
    items.sort();
    items.join("\n")
}

#[derive(Clone, Debug, PartialEq)]
enum Res {
    Ok(String),
    Cancelled,
    Panic(String),
}

impl Res {
    fn tag(&self) -> &'static str {
        match self {
            Res::Ok(_) => "ok",
            Res::Cancelled => "cancelled",
            Res::Panic(_) => "panic",
        }
    }
    fn hash(&self) -> String {
        match self {
            Res::Ok(h) => h.clone(),
            Res::Cancelled => String::new(),
            Res::Panic(m) => fnv(m),
        }
    }
}

/// One IDE query on a snapshot; list-valued answers are compared as sets (their order may depend on
/// hash-map iteration order, which is not part of the answer).
fn run_query(a: &Analysis, q: &Query, text: &str) -> Res {
    match render_query(a, q, text) {
        Ok(Ok(s)) => Res::Ok(fnv(&s)),
        Ok(Err(_)) => Res::Cancelled,
        Err(p) => Res::Panic(p),
    }
}

fn render_query(a: &Analysis, q: &Query, text: &str) -> Result<Result<String, ide::Cancelled>, String> {
    let file = FileId(q.file as u32);
    let mut at = match text.find(&q.anchor) {
        Some(p) => match text[p..].find(q.inner) {
            Some(i) => (p + i + q.delta).min(text.len()),
            None => p,
        },
        None => 0,
    };
    while !text.is_char_boundary(at) {
        at -= 1;
    }
    let pos = FilePos::new(file, (at as u32).into());
    catch(|| -> Result<String, ide::Cancelled> {
        Ok(match q.kind {
            "hover" => format!("{:?}", a.hover(pos)?),
            "goto_definition" => format!("{:?}", a.goto_definition(pos)?),
            "references" => match a.references(pos)? {
                None => "None".into(),
                Some(v) => sorted(&v),
            },
            "completions" => match a.completions(pos, None)? {
                None => "None".into(),
                Some(v) => sorted(&v),
            },
            "diagnostics" => sorted(&a.diagnostics(file)?),
            "syntax_tree" => a.syntax_tree(file)?,
            "highlight_related" => sorted(&a.highlight_related(pos)?),
            "syntax_highlight" => sorted(&a.syntax_highlight(file, None)?),
            "signature_help" => format!("{:?}", a.signature_help(pos)?),
            k => panic!("harness: unknown query kind {k}"),
        })
    })
}

fn toml() -> String {
    "name = \"test\"\nversion = \"0.1.0\"\n".to_string()
}

/// A fresh host holding exactly `texts` (module files /test/m{i}.gleam, then /gleam.toml), built the way
/// ide's own test fixture does.
fn fresh_host(texts: &[Arc<str>]) -> AnalysisHost {
    let mut change = Change::default();
    let mut set = FileSet::default();
    for (i, t) in texts.iter().enumerate() {
        let f = FileId(i as u32);
        set.insert(f, VfsPath::new(format!("/test/m{i}.gleam")));
        change.change_file(f, t.clone());
    }
    let tf = FileId(texts.len() as u32);
    set.insert(tf, VfsPath::new("/gleam.toml"));
    change.change_file(tf, toml().into());
    change.set_roots(vec![SourceRoot::new(set, "/".into())]);
    let mut g = PackageGraph::default();
    g.add_package("test".into(), tf, true);
    change.set_package_graph(g);
    let mut host = AnalysisHost::new();
    host.apply_change(change);
    host
}

// ------------------------------------------------------------------------------------------------
// events

struct Log {
    seq: AtomicU64,
    bufs: Vec<Mutex<Vec<(u64, Value)>>>, // one per thread (index 0 = writer, r = reader r)
}

impl Log {
    fn new(n: usize) -> Self {
        Log { seq: AtomicU64::new(0), bufs: (0..=n).map(|_| Mutex::new(Vec::new())).collect() }
    }
    /// the stamp is the linearization point; the push afterwards is thread-local bookkeeping
    fn ev(&self, who: usize, v: Value) {
        let s = self.seq.fetch_add(1, SeqCst);
        self.bufs[who].lock().unwrap().push((s, v));
    }
    fn merged(&self) -> Vec<Value> {
        let mut all: Vec<(u64, Value)> = vec![];
        for b in &self.bufs {
            all.extend(b.lock().unwrap_or_else(|e| e.into_inner()).iter().cloned());
        }
        all.sort_by_key(|e| e.0);
        all.into_iter().map(|e| e.1).collect()
    }
}

fn delay(rng: &mut Rng, scale_us: u64) {
    match rng.below(10) {
        0..=3 => {}
        4 | 5 => std::thread::yield_now(),
        6 | 7 => {
            let n = rng.below(2000);
            for _ in 0..n {
                std::hint::spin_loop();
            }
        }
        _ => std::thread::sleep(Duration::from_micros(rng.next() % (scale_us + 1))),
    }
}

struct Shared {
    host: Mutex<(AnalysisHost, usize)>,
    log: Log,
    stop: AtomicBool,
    busy: AtomicUsize,          // readers currently inside a query
    apply_since_ms: AtomicU64,  // 0 = no apply in progress, else ms since t0 (+1) when it was called
    query_since_ms: Vec<AtomicU64>,
    t0: Instant,
    versions: Vec<Vec<Arc<str>>>, // versions[v][file]
    menu: Vec<Query>,
}

struct RunPlan {
    run: u64,
    n: usize,
    k: usize,
    nf: usize,
    salt: u64,
    touches: Vec<Vec<usize>>, // per change: touched module files (0-based)
}

struct RunStats {
    events: Vec<Value>,
    apply_ms: Vec<f64>,
    max_query_ms: f64,
    panics: Vec<Value>,
    blocked: Option<Value>,
    queries: u64,
    harness_error: Option<String>,
}

fn reader(sh: Arc<Shared>, r: usize, mut rng: Rng, max_q: usize, stats: mpsc::Sender<(f64, Vec<Value>, u64)>) {
    let mut max_ms = 0f64;
    let mut panics = vec![];
    let mut nqueries = 0u64;
    let mut per_version = (usize::MAX, 0usize);
    while !sh.stop.load(SeqCst) {
        delay(&mut rng, 300);
        let (snap, ver) = {
            let g = sh.host.lock().unwrap_or_else(|e| e.into_inner());
            let s = g.0.snapshot();
            let v = g.1;
            sh.log.ev(r, json!({"ev": "Snapshot", "r": r, "ver": v}));
            (s, v)
        };
        if per_version.0 != ver {
            per_version = (ver, 0);
        }
        per_version.1 += 1;
        let nq = 1 + rng.below(max_q);
        for _ in 0..nq {
            delay(&mut rng, 100);
            let qi = rng.below(sh.menu.len());
            let q = &sh.menu[qi];
            let text = &sh.versions[ver][q.file];
            sh.log.ev(r, json!({"ev": "QueryStart", "r": r, "q": qi + 1}));
            sh.busy.fetch_add(1, SeqCst);
            let t = Instant::now();
            sh.query_since_ms[r].store(sh.t0.elapsed().as_millis() as u64 + 1, SeqCst);
            let res = run_query(&snap, q, text);
            sh.query_since_ms[r].store(0, SeqCst);
            let ms = t.elapsed().as_secs_f64() * 1e3;
            sh.busy.fetch_sub(1, SeqCst);
            sh.log.ev(r, json!({"ev": "QueryEnd", "r": r, "q": qi + 1, "res": res.tag(), "h": res.hash()}));
            nqueries += 1;
            if ms > max_ms {
                max_ms = ms;
            }
            if let Res::Panic(m) = &res {
                panics.push(json!({"reader": r, "query": format!("{q:?}"), "snapshot_version": ver, "panic": m}));
            }
        }
        delay(&mut rng, 100);
        sh.log.ev(r, json!({"ev": "Drop", "r": r}));
        drop(snap);
        // keep the trace short once this version has been looked at a few times: wait (holding nothing)
        // for the next version
        if per_version.1 >= 4 {
            while !sh.stop.load(SeqCst) && sh.host.lock().unwrap_or_else(|e| e.into_inner()).1 == ver {
                std::thread::sleep(Duration::from_micros(100));
            }
        }
    }
    let _ = stats.send((max_ms, panics, nqueries));
}

fn writer(sh: Arc<Shared>, plan: Arc<RunPlan>, mut rng: Rng, out: mpsc::Sender<(Vec<f64>, Vec<Value>)>) {
    let mut apply_ms = vec![];
    let mut panics = vec![];
    for c in 1..=plan.k {
        // when to fire: after a pause, and/or once some readers are inside a query
        match rng.below(6) {
            0 => {}
            1 => std::thread::sleep(Duration::from_micros(rng.next() % 300)),
            2 => std::thread::sleep(Duration::from_micros(rng.next() % 3000)),
            _ => {
                let want = 1 + rng.below(plan.n);
                let t = Instant::now();
                while sh.busy.load(SeqCst) < want && t.elapsed() < Duration::from_millis(20) {
                    std::hint::spin_loop();
                }
                match rng.below(3) {
                    0 => {}
                    1 => std::thread::sleep(Duration::from_micros(rng.next() % 200)),
                    _ => std::thread::sleep(Duration::from_micros(rng.next() % 2000)),
                }
            }
        }
        let mut change = Change::default();
        for &f in &plan.touches[c - 1] {
            change.change_file(FileId(f as u32), sh.versions[c][f].clone());
        }
        let touch: Vec<usize> = plan.touches[c - 1].iter().map(|f| f + 1).collect();
        let mut g = sh.host.lock().unwrap_or_else(|e| e.into_inner());
        sh.log.ev(0, json!({"ev": "ApplyBegin", "c": c, "touch": touch}));
        sh.apply_since_ms.store(sh.t0.elapsed().as_millis() as u64 + 1, SeqCst);
        let t = Instant::now();
        let res = catch(|| g.0.apply_change(change));
        let ms = t.elapsed().as_secs_f64() * 1e3;
        sh.apply_since_ms.store(0, SeqCst);
        g.1 = c;
        match res {
            Ok(()) => sh.log.ev(0, json!({"ev": "ApplyEnd", "c": c, "ms": ms.ceil() as u64})),
            Err(p) => {
                sh.log.ev(0, json!({"ev": "ApplyPanic", "c": c}));
                panics.push(json!({"apply": c, "panic": p}));
            }
        }
        drop(g);
        apply_ms.push(ms);
    }
    // let the readers look at the last version too
    let t = Instant::now();
    let want = 1 + rng.below(plan.n);
    while sh.busy.load(SeqCst) < want && t.elapsed() < Duration::from_millis(5) {
        std::hint::spin_loop();
    }
    std::thread::sleep(Duration::from_micros(rng.next() % 1500));
    sh.stop.store(true, SeqCst);
    let _ = out.send((apply_ms, panics));
}

fn spawn<F: FnOnce() + Send + 'static>(name: String, f: F) {
    std::thread::Builder::new().name(name).stack_size(STACK).spawn(f).expect("spawn");
}

fn plan_run(seed: u64, run: u64, nf_max: usize, max_n: usize, max_k: usize) -> (RunPlan, Rng) {
    let mut rng = Rng::new(seed.wrapping_mul(1_000_003).wrapping_add(run));
    let n = 1 + rng.below(max_n);
    let k = 1 + rng.below(max_k);
    let nf = [nf_max / 8, nf_max / 3, nf_max, nf_max][rng.below(4)].max(4);
    let salt = rng.next() % 1000;
    let touches = (0..k)
        .map(|_| {
            let cnt = 1 + rng.below(NMOD);
            let mut fs: Vec<usize> = (0..NMOD).collect();
            while fs.len() > cnt {
                let i = rng.below(fs.len());
                fs.remove(i);
            }
            fs
        })
        .collect();
    (RunPlan { run, n, k, nf, salt, touches }, rng)
}

fn versions_of(plan: &RunPlan) -> Vec<Vec<Arc<str>>> {
    let mut vs: Vec<Vec<Arc<str>>> = vec![(0..NMOD).map(|i| gen_module(i, 0, plan.salt, plan.nf).into()).collect()];
    for c in 1..=plan.k {
        let mut v = vs[c - 1].clone();
        for &f in &plan.touches[c - 1] {
            v[f] = gen_module(f, c, plan.salt, plan.nf).into();
        }
        vs.push(v);
    }
    vs
}

/// refs[v][q] = "<hash>" | "panic:<hash>"  for a fresh single-threaded analysis of version v
fn references(versions: &[Vec<Arc<str>>], menu: &[Query]) -> Vec<Vec<String>> {
    let (tx, rx) = mpsc::channel();
    for (v, texts) in versions.iter().enumerate() {
        let texts = texts.clone();
        let menu = menu.to_vec();
        let tx = tx.clone();
        spawn(format!("ref{v}"), move || {
            let host = fresh_host(&texts);
            let snap = host.snapshot();
            let row: Vec<String> = menu
                .iter()
                .map(|q| {
                    let r = run_query(&snap, q, &texts[q.file]);
                    match r {
                        Res::Ok(h) => h,
                        other => format!("{}:{}", other.tag(), other.hash()),
                    }
                })
                .collect();
            let _ = tx.send((v, row));
        });
    }
    drop(tx);
    let mut rows: Vec<(usize, Vec<String>)> = rx.iter().collect();
    rows.sort_by_key(|r| r.0);
    rows.into_iter().map(|r| r.1).collect()
}

fn one_run(plan: RunPlan, mut rng: Rng, attempt: u64, deadline: Duration, max_q: usize, nmenu: usize) -> RunStats {
    let versions = versions_of(&plan);
    let menu = gen_menu(&mut rng, plan.nf, nmenu);
    // the plan (workspace, changes, menu) is a function of (seed, run); the delays also of the attempt
    let mut rng = Rng::new(rng.next() ^ attempt.wrapping_mul(0x2545F4914F6CDD1D));
    let host = fresh_host(&versions[0]);
    let n = plan.n;
    let sh = Arc::new(Shared {
        host: Mutex::new((host, 0)),
        log: Log::new(n),
        stop: AtomicBool::new(false),
        busy: AtomicUsize::new(0),
        apply_since_ms: AtomicU64::new(0),
        query_since_ms: (0..=n).map(|_| AtomicU64::new(0)).collect(),
        t0: Instant::now(),
        versions,
        menu,
    });
    struct StopOnExit(Arc<Shared>); // whatever happens to this function, the run's threads are told to stop
    impl Drop for StopOnExit {
        fn drop(&mut self) {
            self.0.stop.store(true, SeqCst);
        }
    }
    let _guard = StopOnExit(sh.clone());
    let plan = Arc::new(plan);
    let (rtx, rrx) = mpsc::channel();
    let (wtx, wrx) = mpsc::channel();
    for r in 1..=n {
        let (sh, rtx) = (sh.clone(), rtx.clone());
        let rr = Rng::new(rng.next());
        spawn(format!("reader{r}"), move || {
            let tx2 = rtx.clone();
            // a panic outside a query (snapshot(), drop of the snapshot) is data too, and must not hang the run
            if let Err(p) = catch(|| reader(sh, r, rr, max_q, rtx)) {
                let _ = tx2.send((0.0, vec![json!({"reader": r, "panic": p, "outside_a_query": true})], 0));
            }
        });
    }
    drop(rtx);
    {
        let (sh, plan) = (sh.clone(), plan.clone());
        let wr = Rng::new(rng.next());
        spawn("writer".into(), move || {
            let (tx2, sh2) = (wtx.clone(), sh.clone());
            if let Err(p) = catch(|| writer(sh, plan, wr, wtx)) {
                sh2.stop.store(true, SeqCst);
                let _ = tx2.send((vec![], vec![json!({"apply": 0, "panic": p, "outside_apply_change": true})]));
            }
        });
    }
    // watchdog: an apply (or a query) that stays in progress longer than the deadline is the liveness violation
    let mut blocked = None;
    let mut wres = None;
    let mut rres: Vec<(f64, Vec<Value>, u64)> = vec![];
    loop {
        if wres.is_none() {
            if let Ok(w) = wrx.try_recv() {
                wres = Some(w);
            }
        }
        while let Ok(r) = rrx.try_recv() {
            rres.push(r);
        }
        if wres.is_some() && rres.len() == n {
            break;
        }
        let now = sh.t0.elapsed().as_millis() as u64 + 1;
        let a = sh.apply_since_ms.load(SeqCst);
        if a != 0 && now.saturating_sub(a) > deadline.as_millis() as u64 {
            let live: Vec<usize> = (1..=n).filter(|r| sh.query_since_ms[*r].load(SeqCst) != 0).collect();
            blocked = Some(json!({"what": "apply blocked", "waited_ms": now.saturating_sub(a), "readers_inside_a_query": live}));
            break;
        }
        for r in 1..=n {
            let q = sh.query_since_ms[r].load(SeqCst);
            if q != 0 && now.saturating_sub(q) > 2 * deadline.as_millis() as u64 {
                blocked = Some(json!({"what": "query hung", "waited_ms": now.saturating_sub(q), "reader": r}));
            }
        }
        if blocked.is_some() {
            break;
        }
        std::thread::sleep(Duration::from_micros(200));
    }
    let events = sh.log.merged();
    let (apply_ms, mut panics) = wres.unwrap_or_default();
    let mut max_query_ms = 0f64;
    let mut queries = 0;
    for (m, p, q) in rres {
        max_query_ms = max_query_ms.max(m);
        panics.extend(p);
        queries += q;
    }
    let mut all = vec![];
    if blocked.is_none() {
        let refs = references(&sh.versions, &sh.menu);
        all.push(json!({"ev": "reset", "run": plan.run, "attempt": attempt, "n": n, "k": plan.k, "nf": plan.nf, "refs": refs,
            "menu": sh.menu.iter().map(|q| format!("{}@m{}:{}..{:?}+{}", q.kind, q.file, q.anchor, q.inner, q.delta)).collect::<Vec<_>>(),
            "touch": plan.touches.iter().map(|t| t.iter().map(|f| f + 1).collect::<Vec<_>>()).collect::<Vec<_>>()}));
    } else {
        all.push(json!({"ev": "reset", "run": plan.run, "attempt": attempt, "n": n, "k": plan.k, "nf": plan.nf, "refs": [], "aborted": true}));
    }
    all.extend(events);
    RunStats { events: all, apply_ms, max_query_ms, panics, blocked, queries, harness_error: None }
}

fn arg<T: std::str::FromStr>(args: &[String], name: &str, default: T) -> T {
    args.iter().position(|a| a == name).and_then(|i| args.get(i + 1)).and_then(|s| s.parse().ok()).unwrap_or(default)
}

fn main() {
    quiet_panics();
    let args: Vec<String> = std::env::args().collect();
    let seed: u64 = std::env::var("VERIF_SEED").ok().and_then(|s| s.parse().ok()).unwrap_or(1);
    let runs: u64 = arg(&args, "--runs", 20);
    let first: u64 = arg(&args, "--first-run", 0);
    let jobs: usize = arg(&args, "--jobs", 2);
    let nf: usize = arg(&args, "--funcs", 240);
    let max_n: usize = arg(&args, "--max-readers", 4);
    let max_k: usize = arg(&args, "--max-changes", 4);
    let max_q: usize = arg(&args, "--max-queries", 3);
    let nmenu: usize = arg(&args, "--menu", 12);
    let deadline = Duration::from_millis(arg(&args, "--deadline-ms", 30_000));
    let trace_out: String = arg(&args, "--trace-out", String::from("/dev/null"));
    let only: Option<u64> = args.iter().position(|a| a == "--only-run").and_then(|i| args.get(i + 1)).and_then(|s| s.parse().ok());

    if let Some(r) = args.iter().position(|a| a == "--show-run").and_then(|i| args.get(i + 1)).and_then(|s| s.parse::<u64>().ok()) {
        // debugging aid: what the menu queries of run r answer on each version (fresh analysis)
        let (plan, mut rng) = plan_run(seed, r, nf, max_n, max_k);
        let versions = versions_of(&plan);
        let menu = gen_menu(&mut rng, plan.nf, nmenu);
        for (v, texts) in versions.iter().enumerate() {
            let host = fresh_host(texts);
            let snap = host.snapshot();
            for q in &menu {
                let t = Instant::now();
                let s = format!("{:?}", render_query(&snap, q, &texts[q.file]));
                println!("v{v} {:?} {:.2}ms -> {}", q, t.elapsed().as_secs_f64() * 1e3, s.chars().take(300).collect::<String>());
            }
        }
        return;
    }
    let mut trace = std::io::BufWriter::new(std::fs::File::create(&trace_out).expect("trace file"));
    let stdout = std::io::stdout();
    // work items: (run, attempt)
    let repeat: u64 = arg(&args, "--repeat", 1);
    let items: Arc<Vec<(u64, u64)>> = Arc::new(match only {
        Some(r) => (0..repeat).map(|a| (r, a)).collect(),
        None => (first..first + runs).map(|r| (r, 0)).collect(),
    });
    let next = Arc::new(AtomicUsize::new(0));
    let (tx, rx) = mpsc::channel::<(u64, RunStats, Value)>();
    let abort = Arc::new(AtomicBool::new(false));
    for j in 0..jobs.max(1) {
        let (next, tx, abort, items) = (next.clone(), tx.clone(), abort.clone(), items.clone());
        spawn(format!("job{j}"), move || loop {
            let i = next.fetch_add(1, SeqCst);
            if i >= items.len() || abort.load(SeqCst) {
                break;
            }
            let (run, attempt) = items[i];
            let (plan, rng) = plan_run(seed, run, nf, max_n, max_k);
            let shape = json!({"run": run, "attempt": attempt, "readers": plan.n, "changes": plan.k, "funcs": plan.nf, "touch": plan.touches});
            // a panic of the harness itself (not of code under test, which is caught per call) must not go unnoticed
            let st = match catch(|| one_run(plan, rng, attempt, deadline, max_q, nmenu)) {
                Ok(st) => st,
                Err(msg) => RunStats { events: vec![json!({"ev": "reset", "run": run, "attempt": attempt, "refs": [], "aborted": true})],
                    apply_ms: vec![], max_query_ms: 0.0, panics: vec![], blocked: None, queries: 0, harness_error: Some(msg) },
            };
            if st.blocked.is_some() {
                abort.store(true, SeqCst);
            }
            if tx.send((run, st, shape)).is_err() {
                break;
            }
        });
    }
    drop(tx);

    let (mut nruns, mut nevents, mut nqueries, mut racing, mut cancelled, mut mismatches) = (0u64, 0u64, 0u64, 0u64, 0u64, 0u64);
    let (mut max_apply, mut max_query, mut sum_apply, mut napply) = (0f64, 0f64, 0f64, 0u64);
    let mut discr = (0u64, 0u64);
    let mut samples: Vec<Value> = vec![];
    let mut aborted = false;
    let mut harness_errors = 0u64;
    for (run, st, shape) in rx {
        nruns += 1;
        nevents += st.events.len() as u64 - 1;
        nqueries += st.queries;
        // did a query overlap an apply?  (a Cancelled result, or a QueryEnd between ApplyBegin and ApplyEnd)
        let mut in_apply = false;
        let mut raced = false;
        let mut ncanc = 0;
        for e in &st.events {
            match e["ev"].as_str().unwrap_or("") {
                "ApplyBegin" => in_apply = true,
                "ApplyEnd" | "ApplyPanic" => in_apply = false,
                "QueryEnd" => {
                    if in_apply {
                        raced = true;
                    }
                    if e["res"] == "cancelled" {
                        raced = true;
                        ncanc += 1;
                    }
                }
                _ => {}
            }
        }
        racing += raced as u64;
        cancelled += ncanc;
        // how discriminating are the reference answers (consecutive versions giving different hashes)?
        if let Some(refs) = st.events[0]["refs"].as_array() {
            for w in refs.windows(2) {
                for (a, b) in w[0].as_array().unwrap().iter().zip(w[1].as_array().unwrap()) {
                    discr.1 += 1;
                    discr.0 += (a != b) as u64;
                }
            }
        }
        for ms in &st.apply_ms {
            max_apply = max_apply.max(*ms);
            sum_apply += ms;
            napply += 1;
        }
        max_query = max_query.max(st.max_query_ms);
        let mut o = stdout.lock();
        if let Some(msg) = &st.harness_error {
            harness_errors += 1;
            writeln!(o, "{}", json!({"kind": "harness_error", "run": run, "shape": shape, "error": msg})).unwrap();
        }
        for p in &st.panics {
            mismatches += 1;
            let at = p["panic"].as_str().unwrap_or("").rsplit(" @ ").next().unwrap_or("").to_string();
            writeln!(o, "{}", json!({"kind": "mismatch", "features": {"what": "panic", "where": if p.get("outside_a_query").is_some() { "snapshot_or_drop" } else if p.get("outside_apply_change").is_some() { "writer" } else if p.get("apply").is_some() { "apply_change" } else { "query" }, "panic_at": at},
                "detail": {"run": run, "shape": shape, "panic": p}})).unwrap();
        }
        if let Some(b) = &st.blocked {
            mismatches += 1;
            aborted = true;
            writeln!(o, "{}", json!({"kind": "mismatch", "features": {"what": b["what"], "deadline_ms": deadline.as_millis() as u64},
                "detail": {"run": run, "shape": shape, "blocked": b, "events_so_far": st.events.len() - 1}})).unwrap();
        }
        for ms in &st.apply_ms {
            if *ms > deadline.as_millis() as f64 {
                mismatches += 1;
                writeln!(o, "{}", json!({"kind": "mismatch", "features": {"what": "apply blocked", "deadline_ms": deadline.as_millis() as u64},
                    "detail": {"run": run, "shape": shape, "apply_ms": ms}})).unwrap();
            }
        }
        drop(o);
        if samples.len() < 3 && raced && ncanc > 0 {
            samples.push(json!({"shape": shape, "events": st.events.len() - 1, "cancelled_results": ncanc,
                "apply_ms": st.apply_ms, "max_query_ms": st.max_query_ms}));
        }
        for e in &st.events {
            writeln!(trace, "{e}").unwrap();
        }
        if aborted {
            break;
        }
    }
    trace.flush().unwrap();
    let mut o = stdout.lock();
    writeln!(o, "{}", json!({"kind": "summary", "runs": nruns, "events": nevents, "queries": nqueries, "racing_runs": racing,
        "cancelled_results": cancelled, "mismatches": mismatches, "max_apply_ms": max_apply,
        "mean_apply_ms": if napply > 0 { sum_apply / napply as f64 } else { 0.0 }, "applies": napply, "max_query_ms": max_query,
        "ref_pairs_differing": discr.0, "ref_pairs": discr.1, "aborted": aborted, "harness_errors": harness_errors, "samples": samples})).unwrap();
    o.flush().unwrap();
    // threads of a blocked run can never be joined
    std::process::exit(0);
}
