//! lexdump: stdin = text, stdout = JSON array of the non-whitespace lexemes (comments keep their newline).
use std::io::Read;
use syntax::lexer::GleamLexer;
use syntax::SyntaxKind;
fn main() {
    let mut s = String::new();
    std::io::stdin().read_to_string(&mut s).unwrap();
    let v: Vec<String> = GleamLexer::new(&s).filter(|t| t.kind != SyntaxKind::WHITESPACE).map(|t| {
        if matches!(t.kind, SyntaxKind::COMMENT | SyntaxKind::COMMENT_STATEMENT | SyntaxKind::COMMENT_MODULE) { format!("{}\n", t.text) } else { t.text.to_string() }
    }).collect();
    println!("{}", serde_json::to_string(&v).unwrap());
}
