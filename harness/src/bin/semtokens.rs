//! C19 replay: TLC-emitted (document, highlights, expected LSP array) against glas' encoder.
use glas::verif::{to_semantic_tokens, LineMap};
use ide::{HlRange, HlTag};
use serde_json::{json, Value};
use std::io::{BufRead, Write};
use text_size::TextRange;
use verif_harness::util::{catch, quiet_panics, Rng};

const TABLES: &[[&str; 4]] = &[["a", "ß", "ℝ", "💣"], ["Z", "é", "中", "𝒳"], [" ", "\u{80}", "\u{800}", "\u{10000}"], ["\t", "\u{7ff}", "\u{ffff}", "\u{10ffff}"], ["1", "\u{a0}", "\u{feff}", "\u{1f600}"]];

fn main() {
    quiet_panics();
    let seed: u64 = std::env::var("VERIF_SEED").ok().and_then(|s| s.parse().ok()).unwrap_or(1);
    let mut rng = Rng::new(seed);
    let out = std::io::stdout();
    let mut out = out.lock();
    let (mut cases, mut checks, mut nontrivial, mut mismatches) = (0u64, 0u64, 0u64, 0u64);
    let mut samples: Vec<Value> = vec![];
    for line in std::io::stdin().lock().lines() {
        let line = line.unwrap();
        if line.trim().is_empty() {
            continue;
        }
        let v: Value = serde_json::from_str(&line).expect("case json");
        let ti = v["table"].as_u64().map(|x| x as usize).unwrap_or_else(|| rng.below(TABLES.len()));
        let tab = &TABLES[ti];
        let mut text = String::new();
        let mut multibyte_before = false;
        for u in v["doc"].as_array().unwrap() {
            text.push_str(match u.as_str().unwrap() {
                "a" => tab[0],
                "nl" => "\n",
                "c2" => tab[1],
                "c3" => tab[2],
                "c4" => tab[3],
                o => panic!("class {o}"),
            });
        }
        let hls: Vec<HlRange> = v["hls"].as_array().unwrap().iter().map(|h| HlRange {
            range: TextRange::new((h["s"].as_u64().unwrap() as u32).into(), (h["e"].as_u64().unwrap() as u32).into()),
            tag: match h["tag"].as_str().unwrap() {
                "function" => HlTag::Function,
                "module" => HlTag::Module,
                "constructor" => HlTag::Constructor,
                o => panic!("tag {o}"),
            },
        }).collect();
        if text.len() != text.chars().count() {
            multibyte_before = true;
        }
        cases += 1;
        if multibyte_before || text.contains('\n') {
            nontrivial += 1;
        }
        if samples.len() < 3 && multibyte_before && text.contains('\n') && hls.len() >= 2 {
            let mut s = v.clone();
            s["text"] = json!(text);
            samples.push(s);
        }
        let exp: Vec<[u32; 5]> = v["enc"].as_array().unwrap().iter().map(|e| [e["dl"].as_u64().unwrap() as u32, e["ds"].as_u64().unwrap() as u32,
            e["len"].as_u64().unwrap() as u32, e["type"].as_u64().unwrap() as u32, 0]).collect();
        let res = catch(|| {
            let (_, lm) = LineMap::verif_new(text.clone());
            to_semantic_tokens(&lm, &hls).iter().map(|t| [t.delta_line, t.delta_start, t.length, t.token_type, t.token_modifiers_bitset]).collect::<Vec<_>>()
        });
        checks += 1;
        let bad = match res {
            Ok(got) if got == exp => None,
            Ok(got) => Some(json!({"what": "encoding", "expected": exp, "got": got})),
            Err(p) => Some(json!({"what": "panic", "panic": p})),
        };
        if let Some(bad) = bad {
            mismatches += 1;
            let mut case = v.clone();
            case["table"] = json!(ti);
            writeln!(out, "{}", json!({"kind": "mismatch", "features": {"what": bad["what"]}, "detail": {"case": case, "text": text, "bad": bad}})).unwrap();
        }
    }
    writeln!(out, "{}", json!({"kind": "summary", "cases": cases, "checks": checks, "distinct_nontrivial": nontrivial,
        "mismatches": mismatches, "samples": samples})).unwrap();
}
