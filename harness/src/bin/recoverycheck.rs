//! C03 replay: Recovery.tla cases (a file of definitions, one of them damaged inside its body) on the real parser.
use serde_json::{json, Value};
use std::io::{BufRead, Write};
use syntax::ast::{self, AstNode};
use verif_harness::util::{catch, quiet_panics};

fn main() {
    quiet_panics();
    let so = std::io::stdout();
    let mut so = so.lock();
    let (mut n, mut nerr, mut bad_n) = (0u64, 0u64, 0u64);
    let mut per: std::collections::BTreeMap<String, usize> = Default::default();
    let mut samples: Vec<Value> = vec![];
    for line in std::io::stdin().lock().lines() {
        let line = line.unwrap();
        if line.trim().is_empty() {
            continue;
        }
        let case: Value = serde_json::from_str(&line).unwrap();
        let items = case["items"].as_array().unwrap();
        let mut text = String::new();
        let mut spans: Vec<(usize, usize)> = vec![];
        for it in items {
            let lex: Vec<&str> = it["lex"].as_array().unwrap().iter().map(|x| x.as_str().unwrap()).collect();
            let s = text.len();
            text.push_str(&lex.join(" "));
            spans.push((s, text.len()));
            text.push('\n');
        }
        let vi = items.iter().position(|it| it["victim"].as_bool().unwrap()).unwrap();
        let (vs, ve) = spans[vi];
        n += 1;
        let r = catch(|| {
            let parse = syntax::parse_module(&text);
            let mut got: Vec<(String, String, String)> = vec![];
            for st in parse.root().statements() {
                let r = st.syntax().text_range();
                let (s, e) = (usize::from(r.start()), usize::from(r.end()));
                if s >= ve || e <= vs {
                    let (k, name) = match &st {
                        ast::ModuleStatement::Function(f) => ("fn", f.name().and_then(|n| n.text()).map(|t| t.to_string())),
                        ast::ModuleStatement::ModuleConstant(c) => ("const", c.name().and_then(|n| n.text()).map(|t| t.to_string())),
                        ast::ModuleStatement::Adt(a) => ("type", a.name().and_then(|n| n.text()).map(|t| t.to_string())),
                        ast::ModuleStatement::TypeAlias(a) => ("alias", a.name().and_then(|n| n.text()).map(|t| t.to_string())),
                        ast::ModuleStatement::Import(i) => ("import", i.module_path().map(|p| p.syntax().text().to_string().replace(' ', ""))),
                    };
                    got.push((k.to_string(), name.unwrap_or_default(), st.syntax().text().to_string().trim().to_string()));
                }
            }
            let exp: Vec<(String, String, String)> = items.iter().enumerate().filter(|(i, _)| *i != vi).map(|(i, it)| {
                (it["kind"].as_str().unwrap().to_string(), it["name"].as_str().unwrap().to_string(), text[spans[i].0..spans[i].1].to_string())
            }).collect();
            let outside: Vec<&syntax::Error> = parse.errors().iter().filter(|e| usize::from(e.range.start()) < vs || usize::from(e.range.end()) > ve).collect();
            let errs_outside: Vec<String> = outside.iter().map(|e| format!("{e}")).collect();
            // where: on the first token after the damaged definition / at end of input / anywhere else
            let next_tok = text[ve..].find(|c: char| !c.is_whitespace()).map(|i| ve + i);
            let eof = text.trim_end().len();
            let mut where_ = "";
            for e in &outside {
                let s = usize::from(e.range.start());
                let w = if Some(s) == next_tok { "next_token" } else if s >= eof { "eof" } else { "elsewhere" };
                if where_.is_empty() || w == "elsewhere" || (w == "eof" && where_ == "next_token") { where_ = w; }
            }
            (got, exp, errs_outside, parse.errors().len(), where_.to_string())
        });
        let edits_desc = |c: &Value| -> String {
            c["edits"].as_array().unwrap().iter().map(|e| format!("{}:{}", e["k"].as_str().unwrap(), e["x"].as_str().unwrap())).collect::<Vec<_>>().join("+")
        };
        let victim_kind = items[vi]["kind"].as_str().unwrap().to_string();
        let bad = match r {
            Err(p) => Some(json!({"what": "panic", "panic": p})),
            Ok((got, exp, errs_outside, ne, where_)) => {
                if ne > 0 { nerr += 1; }
                if got != exp {
                    let lost: Vec<&(String, String, String)> = exp.iter().filter(|e| !got.contains(e)).collect();
                    let mut lost_kinds: Vec<String> = lost.iter().map(|l| l.0.clone()).collect();
                    lost_kinds.sort();
                    lost_kinds.dedup();
                    Some(json!({"what": "other definitions disturbed", "lost": lost.iter().map(|l| format!("{} {}", l.0, l.1)).collect::<Vec<_>>(),
                        "lost_kinds": lost_kinds,
                        "got": got.iter().map(|g| format!("{} {}", g.0, g.1)).collect::<Vec<_>>(), "expected": exp.iter().map(|g| format!("{} {}", g.0, g.1)).collect::<Vec<_>>()}))
                } else if !errs_outside.is_empty() {
                    Some(json!({"what": "error outside the damaged definition", "errors": errs_outside, "where": where_}))
                } else {
                    None
                }
            }
        };
        if samples.len() < 3 && n % 997 == 5 {
            samples.push(json!({"text": text, "edits": case["edits"]}));
        }
        if let Some(b) = bad {
            bad_n += 1;
            let f = json!({"what": b["what"], "victim_kind": victim_kind, "edits": edits_desc(&case), "lost_kinds": b["lost_kinds"], "where": b["where"],
                "n_edits": case["edits"].as_array().unwrap().len()});
            let c = per.entry(format!("{}|{}|{}", b["what"], victim_kind, edits_desc(&case))).or_default();
            *c += 1;
            if *c <= 1 {
                writeln!(so, "{}", json!({"kind": "mismatch", "prop": "C03", "features": f, "detail": {"case": case, "text": text, "bad": b}})).unwrap();
            }
        }
    }
    writeln!(so, "{}", json!({"kind": "summary", "cases": n, "with_errors": nerr, "mismatches": bad_n, "classes": per.len(), "class_counts": per.iter().map(|(k, v)| json!([k, v])).collect::<Vec<_>>(), "samples": samples})).unwrap();
}
