//! C13 replay (hook level): TLC-emitted DocSync transitions / histories against glas' Vfs,
//! applying each content change the way server.rs::on_did_change does.
use glas::verif::{from_range, Vfs};
use ide::VfsPath;
use lsp_types::{Position, Range};
use serde_json::{json, Value};
use std::io::{BufRead, Write};
use verif_harness::util::{catch, quiet_panics, Rng};

const TABLES: &[[&str; 4]] = &[["a", "ß", "ℝ", "💣"], ["Z", "é", "中", "𝒳"], [" ", "\u{80}", "\u{800}", "\u{10000}"], ["\t", "\u{7ff}", "\u{ffff}", "\u{10ffff}"], ["1", "\u{a0}", "\u{feff}", "\u{1f600}"]];

fn render(units: &Value, tab: &[&str; 4]) -> String {
    let mut s = String::new();
    for u in units.as_array().map(|a| a.as_slice()).unwrap_or(&[]) {
        s.push_str(match u.as_str().unwrap() {
            "a" => tab[0],
            "nl" => "\n",
            "crlf" => "\r\n",
            "c2" => tab[1],
            "c3" => tab[2],
            "c4" => tab[3],
            o => panic!("unit {o}"),
        });
    }
    s
}

fn pos(v: &Value) -> Position {
    Position::new(v["l"].as_u64().unwrap() as u32, v["c"].as_u64().unwrap() as u32)
}

/// returns (number of changes applied, first mismatch)
fn run_notifications(open_text: &str, notes: &[&Value], tab: &[&str; 4]) -> (u64, Option<Value>) {
    let mut vfs = Vfs::new();
    let file = vfs.set_path_content(VfsPath::new("/doc.gleam"), open_text.to_string());
    let mut n = 0;
    for (k, note) in notes.iter().enumerate() {
        let changes = note["changes"].as_array().unwrap();
        let posts = note["posts"].as_array().unwrap();
        for (ci, ch) in changes.iter().enumerate() {
            let text = render(&ch["t"], tab);
            let expected = &posts[ci];
            let applied: Result<(), String> = (|| {
                let del = if ch["full"].as_bool().unwrap() {
                    None
                } else {
                    let r = Range::new(pos(&ch["s"]), pos(&ch["e"]));
                    Some(from_range(&vfs, file, r).map_err(|e| format!("from_range: {e}"))?)
                };
                vfs.change_file_content(file, del, &text).map_err(|e| format!("change_file_content: {e}"))
            })();
            n += 1;
            let forgotten_expected = expected.as_array().map(|a| a.len() == 1 && a[0] == "FORGOTTEN").unwrap_or(false);
            match applied {
                Err(e) => {
                    if !forgotten_expected {
                        return (n, Some(json!({"what": "rejected", "note": k, "change": ci, "error": e})));
                    }
                    return (n, None); // document forgotten: nothing more to compare
                }
                Ok(()) => {
                    let got = vfs.content_for_file(file);
                    let exp = render(expected, tab);
                    if forgotten_expected || &*got != exp.as_str() {
                        return (n, Some(json!({"what": "text", "note": k, "change": ci, "expected": exp, "got": &*got})));
                    }
                    // refinement obligation: DocSync interprets positions with the table OF the server's text (SrvIdx is
                    // a function of `server`), so the stored line map must be the line map of the stored text
                    let fresh = glas::verif::LineMap::verif_new(got.to_string()).1;
                    if *vfs.line_map_for_file(file) != fresh {
                        return (n, Some(json!({"what": "line map is not the line map of the stored text", "note": k, "change": ci, "text": &*got})));
                    }
                }
            }
        }
    }
    (n, None)
}

fn main() {
    quiet_panics();
    let seed: u64 = std::env::var("VERIF_SEED").ok().and_then(|s| s.parse().ok()).unwrap_or(1);
    let mut rng = Rng::new(seed);
    let out = std::io::stdout();
    let mut out = out.lock();
    let (mut cases, mut checks, mut nontrivial, mut mismatches) = (0u64, 0u64, 0u64, 0u64);
    let mut samples: Vec<Value> = vec![];
    for line in std::io::stdin().lock().lines() {
        let line = line.unwrap();
        if line.trim().is_empty() {
            continue;
        }
        let v: Value = serde_json::from_str(&line).expect("case json");
        let ti = v["table"].as_u64().map(|x| x as usize).unwrap_or_else(|| rng.below(TABLES.len()));
        let tab = &TABLES[ti];
        let (open_text, notes): (String, Vec<&Value>) = if let Some(h) = v["hist"].as_array() {
            (render(&h[0]["open"], tab), h[1..].iter().collect())
        } else {
            (render(&v["pre"], tab), vec![&v])
        };
        cases += 1;
        let s = line.as_str();
        if s.contains("crlf") || s.contains("c4") || s.contains("c3") || s.contains("c2") || s.contains("nl") {
            nontrivial += 1;
        }
        if samples.len() < 3 && s.contains("crlf") && s.contains("c4") && s.len() > 150 {
            samples.push(v.clone());
        }
        let res = catch(|| run_notifications(&open_text, &notes, tab));
        let bad = match res {
            Ok((n, bad)) => {
                checks += n;
                bad
            }
            Err(p) => Some(json!({"what": "panic", "panic": p})),
        };
        if let Some(bad) = bad {
            mismatches += 1;
            let mut case = v.clone();
            case["table"] = json!(ti);
            writeln!(out, "{}", json!({"kind": "mismatch", "features": {"what": bad["what"], "level": "vfs"},
                "detail": {"case": case, "bad": bad}})).unwrap();
        }
    }
    writeln!(out, "{}", json!({"kind": "summary", "cases": cases, "checks": checks,
        "distinct_nontrivial": nontrivial, "mismatches": mismatches, "samples": samples})).unwrap();
}
