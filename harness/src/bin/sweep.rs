//! C10 / C20: every IDE query at every token boundary of every file of every workspace.
//!   sweep [--ranges FILE] [--threads N] < workspaces.ndjson      workspace: {"files":[{"name","lex":[..]}|[name,text],..]}
//! stdout: mismatch lines (panics, with the query that panicked) and a summary.
use ide::FileId;
use serde_json::{json, Value};
use std::io::{BufRead, Write};
use std::sync::atomic::{AtomicUsize, Ordering};
use std::sync::{Arc, Mutex};
use verif_harness::queries::{self, RangeRec, FILE_QUERIES, POSITION_QUERIES};
use verif_harness::util::{catch, quiet_panics};
use verif_harness::workspace;

pub fn files_of(v: &Value) -> Vec<(String, String)> {
    v["files"].as_array().unwrap().iter().map(|f| {
        if f.is_array() {
            (f[0].as_str().unwrap().to_string(), f[1].as_str().unwrap().to_string())
        } else {
            let lex: Vec<&str> = f["lex"].as_array().map(|a| a.iter().map(|x| x.as_str().unwrap()).collect()).unwrap_or_default();
            (f["name"].as_str().unwrap().to_string(), lex.join(" "))
        }
    }).collect()
}

fn main() {
    quiet_panics();
    let args: Vec<String> = std::env::args().collect();
    let arg = |name: &str| args.iter().position(|a| a == name).and_then(|i| args.get(i + 1)).cloned();
    let ranges_out = arg("--ranges");
    let threads: usize = arg("--threads").and_then(|s| s.parse().ok()).unwrap_or(16);
    let cases: Vec<Value> = std::io::stdin().lock().lines().filter_map(|l| {
        let l = l.unwrap();
        if l.trim().is_empty() { None } else { Some(serde_json::from_str(&l).expect("case json")) }
    }).collect();
    let cases = Arc::new(cases);
    let next = Arc::new(AtomicUsize::new(0));
    let results = Arc::new(Mutex::new(Vec::<Value>::new()));
    let range_recs = Arc::new(Mutex::new(std::collections::BTreeMap::<String, usize>::new()));
    let totals = Arc::new(Mutex::new((0u64, 0u64, 0u64)));
    let current: Arc<Vec<Mutex<(std::time::Instant, String)>>> = Arc::new((0..threads).map(|_| Mutex::new((std::time::Instant::now(), String::new()))).collect());
    {
        let current = current.clone();
        std::thread::spawn(move || loop {
            std::thread::sleep(std::time::Duration::from_millis(500));
            for c in current.iter() {
                let g = c.lock().unwrap();
                if !g.1.is_empty() && g.0.elapsed().as_secs() > 30 {
                    println!("{}", json!({"kind": "mismatch", "prop": "C10", "features": {"what": "timeout"}, "detail": {"case": serde_json::from_str::<Value>(&g.1).unwrap()}}));
                    std::process::exit(3);
                }
            }
        });
    }
    let mut hs = vec![];
    for ti in 0..threads {
        let (cases, next, results, range_recs, totals, current) = (cases.clone(), next.clone(), results.clone(), range_recs.clone(), totals.clone(), current.clone());
        hs.push(std::thread::Builder::new().stack_size(256 << 20).spawn(move || loop {
            let ci = next.fetch_add(1, Ordering::Relaxed);
            if ci >= cases.len() {
                break;
            }
            let case = &cases[ci];
            *current[ti].lock().unwrap() = (std::time::Instant::now(), case.to_string());
            let files = files_of(case);
            let mods: Vec<(&str, &str)> = files.iter().map(|(n, t)| (n.as_str(), t.as_str())).collect();
            let mut local: Vec<Value> = vec![];
            let mut ranges: Vec<RangeRec> = vec![];
            let mut calls = 0u64;
            let mut broken = false;
            // "shape": "no-package" - the modules belong to no package of the graph (a free-standing file)
            let no_package = case["shape"] == "no-package";
            let setup = catch(|| if no_package { workspace::gen_workspace(workspace::Shape::NoPackage, &mods) } else { workspace::single_package(&mods) });
            match setup {
                Err(p) => local.push(json!({"kind": "mismatch", "prop": "C10", "features": {"what": "panic", "query": "load", "panic": p}, "detail": {"case": case}})),
                Ok(ws) => {
                    let a = ws.host.snapshot();
                    for (fi, (_, text)) in files.iter().enumerate() {
                        let file = FileId(fi as u32);
                        if !a.diagnostics(file).map(|d| d.is_empty()).unwrap_or(true) {
                            broken = true;
                        }
                        for q in FILE_QUERIES {
                            calls += 1;
                            match catch(|| queries::file_query(&a, q, file, text.len())) {
                                Ok(ans) => ranges.extend(ans.ranges),
                                Err(p) => local.push(json!({"kind": "mismatch", "prop": "C10", "features": {"what": "panic", "query": q, "panic": p},
                                    "detail": {"case": case, "file": fi, "text": text}})),
                            }
                        }
                        let mut offs = queries::boundaries(text);
                        // a few offsets inside tokens as well
                        let extra: Vec<usize> = offs.iter().map(|o| o + 1).filter(|o| *o < text.len() && text.is_char_boundary(*o)).step_by(5).collect();
                        offs.extend(extra);
                        for off in offs {
                            for q in POSITION_QUERIES {
                                calls += 1;
                                match catch(|| queries::position_query(&a, q, file, off)) {
                                    Ok(ans) => ranges.extend(ans.ranges),
                                    Err(p) => {
                                        if local.len() < 20 {
                                            local.push(json!({"kind": "mismatch", "prop": "C10", "features": {"what": "panic", "query": q, "panic": p},
                                                "detail": {"case": case, "file": fi, "offset": off, "text": text}}));
                                        }
                                    }
                                }
                            }
                        }
                    }
                }
            }
            current[ti].lock().unwrap().1.clear();
            // C20 facts
            {
                let mut rr = range_recs.lock().unwrap();
                for r in ranges {
                    let mut modpath = false;
                    let (len, bs, be, ntok) = match files.get(r.file as usize) {
                        Some((_, tx)) => {
                            let (s, e) = (r.start.min(tx.len()), r.end.min(tx.len()));
                            let (bs, be) = (tx.is_char_boundary(s), tx.is_char_boundary(e));
                            // number of lexer tokens the range tiles exactly, -1 if it cuts a token
                            let mut ntok: i64 = 0;
                            let mut aligned_start = r.start == r.end;
                            let mut aligned_end = r.start == r.end;
                            for t in syntax::lexer::GleamLexer::new(tx) {
                                let (ts, te) = (usize::from(t.range.start()), usize::from(t.range.end()));
                                if ts >= r.start && te <= r.end { ntok += 1; }
                                if ts == r.start { aligned_start = true; }
                                if te == r.end { aligned_end = true; }
                            }
                            if !(aligned_start && aligned_end) { ntok = -1; }
                            // a module path: the range is the text range of a MODULE_PATH node of the file's tree (also a
                            // damaged path such as `import a / : b`, whose node contains the error token)
                            if ntok > 1 || ntok == -1 {
                                let parse = syntax::parse_module(tx);
                                modpath = parse.syntax_node().descendants().any(|n| n.kind() == syntax::SyntaxKind::MODULE_PATH
                                    && usize::from(n.text_range().start()) == r.start && usize::from(n.text_range().end()) == r.end);
                            }
                            (tx.len(), bs, be, ntok)
                        }
                        None => (0, false, false, -1),
                    };
                    let (os, oe) = r.outer.unwrap_or((r.start, r.end));
                    // the range as the client receives it (the server's own conversion, through the hook) and what the
                    // client's copy of the document looks like there: number of lines, UTF-16 length of the two lines
                    let mut lsp = (false, 0u32, 0u32, 0u32, 0u32, 0usize, -1i64, -1i64);
                    if let Some((_, tx)) = files.get(r.file as usize) {
                        if bs && be && r.start <= r.end && r.end <= tx.len() && !tx.contains('\r') {
                            let conv = catch(|| {
                                let (_, lm) = glas::verif::LineMap::verif_new(tx.clone());
                                glas::verif::to_range(&lm, syntax::TextRange::new((r.start as u32).into(), (r.end as u32).into()))
                            });
                            let lines: Vec<&str> = tx.split('\n').collect();
                            let l16 = |i: u32| lines.get(i as usize).map(|l| l.encode_utf16().count() as i64).unwrap_or(-1);
                            match conv {
                                Ok(g) => lsp = (true, g.start.line, g.start.character, g.end.line, g.end.character, lines.len(), l16(g.start.line), l16(g.end.line)),
                                Err(_) => lsp = (true, u32::MAX >> 1, 0, u32::MAX >> 1, 0, lines.len(), -1, -1),
                            }
                        }
                    }
                    rr.entry(format!("\"kind\":\"{}\",\"f\":{},\"nf\":{},\"s\":{},\"e\":{},\"len\":{},\"bs\":{},\"be\":{},\"ntok\":{},\"os\":{},\"oe\":{},\"lsp\":{},\"sl\":{},\"sc\":{},\"el\":{},\"ec\":{},\"nl\":{},\"l16s\":{},\"l16e\":{},\"modpath\":{}",
                        r.kind, r.file, files.len(), r.start, r.end, len, bs, be, ntok, os, oe, lsp.0, lsp.1, lsp.2, lsp.3, lsp.4, lsp.5, lsp.6, lsp.7, modpath)).or_insert(ci);
                }
            }
            let mut t = totals.lock().unwrap();
            t.0 += 1;
            t.1 += calls;
            if broken { t.2 += 1; }
            drop(t);
            results.lock().unwrap().extend(local);
        }).unwrap());
    }
    for h in hs {
        h.join().unwrap();
    }
    let so = std::io::stdout();
    let mut so = so.lock();
    let res = results.lock().unwrap();
    let mut per: std::collections::BTreeMap<String, usize> = Default::default();
    for r in res.iter() {
        let c = per.entry(r["features"].to_string()).or_default();
        *c += 1;
        if *c <= 2 {
            writeln!(so, "{r}").unwrap();
        }
    }
    if let Some(p) = ranges_out {
        let mut f = std::io::BufWriter::new(std::fs::File::create(p).unwrap());
        for (t, ws) in range_recs.lock().unwrap().iter() {
            writeln!(f, "{{{t},\"ws\":{ws}}}").unwrap();
        }
    }
    let t = totals.lock().unwrap();
    let counts: Vec<Value> = per.iter().map(|(k, v)| json!([k, v])).collect();
    writeln!(so, "{}", json!({"kind": "summary", "workspaces": t.0, "calls": t.1, "workspaces_with_diagnostics": t.2,
        "ranges": range_recs.lock().unwrap().len(), "mismatch_classes": counts})).unwrap();
}
