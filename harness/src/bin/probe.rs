fn main() {
    let (p, t) = syntax::parser::parse_module_traced("fn a() { 1 } // x\n");
    println!("{:?} {:?}", p.errors(), t);
    let (text, lm) = glas::verif::LineMap::verif_new("a\r\nß💣".to_string());
    println!("{text:?} {:?}", lm.line_col_for_pos(6.into()));
}
