//! Triage helper: probe '<m1 text>' ['<m2 text>' ['<sub/m2 text>']] prints, for every identifier token of m1, what
//! goto_definition / references / hover say.  Workspace as in scopecheck: m1 in package `app`, m2 and sub/m2 in the
//! package `lib` it depends on (PROBE_SHAPE=one-package: a single package).
use ide::{FileId, FilePos, GotoDefinitionResult};
use syntax::{NodeOrToken, SyntaxKind};
use verif_harness::util::{catch, quiet_panics};
fn main() {
    quiet_panics();
    let args: Vec<String> = std::env::args().collect();
    let m1 = args[1].clone();
    let m2 = args.get(2).cloned().unwrap_or_else(|| verif_harness::programs::LIB_TEXT.to_string());
    let m3 = args.get(3).cloned().unwrap_or_else(|| verif_harness::programs::SUB_TEXT.to_string());
    let shape = std::env::var("PROBE_SHAPE").ok().and_then(|s| verif_harness::workspace::Shape::parse(&s)).unwrap_or(verif_harness::workspace::Shape::TwoPackages);
    let ws = verif_harness::workspace::gen_workspace(shape, &[("m1", &m1), ("m2", &m2), ("sub/m2", &m3)]);
    let a = ws.host.snapshot();
    let texts = [m1.clone(), m2.clone(), m3.clone()];
    let parse = syntax::parse_module(&m1);
    println!("errors: {:?}", parse.errors());
    for el in parse.syntax_node().descendants_with_tokens() {
        if let NodeOrToken::Token(t) = el {
            if matches!(t.kind(), SyntaxKind::IDENT | SyntaxKind::U_IDENT) {
                let pos = FilePos::new(FileId(0), t.text_range().start());
                let g = catch(|| a.goto_definition(pos).unwrap());
                let gs = match g {
                    Ok(Some(GotoDefinitionResult::Targets(ts))) => ts.iter().map(|n| format!("f{}:{:?}={:?}", n.file_id.0, n.focus_range, texts.get(n.file_id.0 as usize).map(|x| &x[n.focus_range]))).collect::<Vec<_>>().join(","),
                    Ok(None) => "None".into(),
                    Ok(Some(o)) => format!("{o:?}"),
                    Err(p) => format!("PANIC {p}"),
                };
                let r = catch(|| a.references(pos).unwrap());
                let rs = match r { Ok(Some(v)) => { let mut v: Vec<String> = v.iter().map(|fr| format!("f{}:{:?}", fr.file_id.0, fr.range)).collect(); v.sort(); v.join(",") } Ok(None) => "None".into(), Err(p) => format!("PANIC {p}") };
                let h = catch(|| a.hover(pos).unwrap());
                let hs = match h { Ok(Some(h)) => h.markup.replace('\n', " "), Ok(None) => "None".into(), Err(p) => format!("PANIC {p}") };
                println!("{:>4} {:<6} goto={}  refs=[{}]  hover={}", u32::from(t.text_range().start()), t.text(), gs, rs, hs.chars().take(60).collect::<String>());
            }
        }
    }
}
