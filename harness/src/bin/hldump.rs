//! hldump: stdin = ndjson {"text": .., ["lib": text of m2 | null]}; stdout = ndjson {"text": .., "hl": [[start, end, tag], ..]}: the analysis' highlight
//! list for the text as module `m1` of a package that also holds the library module m2 (single package).
use serde_json::{json, Value};
use std::io::BufRead;
use verif_harness::programs::LIBS;
fn main() {
    verif_harness::util::quiet_panics();
    for line in std::io::stdin().lock().lines() {
        let line = line.unwrap();
        if line.trim().is_empty() { continue; }
        let v: Value = serde_json::from_str(&line).unwrap();
        let text = v["text"].as_str().unwrap();
        // "lib": the text of the library module m2 (default: the fixed one); null: no such module
        let ws = match v.get("lib") {
            Some(Value::Null) => verif_harness::workspace::single_package(&[("m1", text)]),
            Some(Value::String(l)) => verif_harness::workspace::single_package(&[("m1", text), (LIBS[0].0, l.as_str())]),
            _ => verif_harness::workspace::single_package(&[("m1", text), (LIBS[0].0, LIBS[0].1)]),
        };
        let a = ws.host.snapshot();
        let hl = a.syntax_highlight(ide::FileId(0), None).unwrap();
        println!("{}", json!({"text": text, "hl": hl.iter().map(|h| json!([u32::from(h.range.start()), u32::from(h.range.end()), format!("{:?}", h.tag)])).collect::<Vec<_>>()}));
    }
}
