//! C04 replay: programs of the reference grammar (spec/GleamSyn.tla) against the real parser.
//! For every program: no syntax errors, the tree has the bracket structure the specification emitted
//! (over the structural node kinds), and the typed accessors agree with source positions.
use serde_json::{json, Value};
use std::io::{BufRead, Write};
use std::sync::{Arc, Mutex};
use syntax::ast::{self, AstNode};
use syntax::{NodeOrToken, SyntaxKind, SyntaxNode};
use verif_harness::util::{catch, quiet_panics, Rng};

/// Node kinds that carry grouping the grammar prescribes; every other node kind is a transparent wrapper.
fn structural(k: SyntaxKind) -> bool {
    use SyntaxKind::*;
    matches!(k, FUNCTION | MODULE_CONSTANT | ADT | TYPE_ALIAS | IMPORT | UNQUALIFIED_IMPORT | VARIANT | VARIANT_FIELD | PARAM
        | EXTERNAL_ATTR | TARGET_ATTR | BLOCK | STMT_LET | STMT_USE | USE_ASSIGNMENT | STMT_EXPR | BINARY_OP | PIPE | UNARY_OP | EXPR_CALL | ARG
        | FIELD_ACCESS | TUPLE_INDEX | TUPLE | LIST | EXPR_SPREAD | CASE | CLAUSE | ALTERNATIVE_PATTERN | PATTERN_GUARD | LAMBDA | MISSING
        | VARIANT_REF | VARIANT_REF_FIELD | PATTERN_TUPLE | PATTERN_LIST | PATTERN_SPREAD | AS_PATTERN | PATTERN_CONCAT
        | TYPE_APPLICATION | FN_TYPE | TUPLE_TYPE | ERROR)
}

#[derive(Debug, Clone, PartialEq)]
enum Tree {
    Node(String, Vec<Tree>),
    Tok(String),
}

impl Tree {
    fn ser(&self, out: &mut String) {
        match self {
            Tree::Tok(t) => { out.push_str(t); out.push(' '); }
            Tree::Node(k, cs) => {
                out.push_str(k);
                out.push('(');
                for c in cs { c.ser(out); }
                out.push_str(") ");
            }
        }
    }
    fn kinds(&self, acc: &mut Vec<String>) {
        if let Tree::Node(k, cs) = self {
            acc.push(k.clone());
            for c in cs { c.kinds(acc); }
        }
    }
}

/// spellings of the grammar's variable `x`: names that mean something elsewhere in Gleam's surface (attribute and target
/// names are ordinary identifiers) next to plain ones
const VAR_SPELLINGS: &[&str] = &["x", "x", "internal", "deprecated", "target", "erlang", "javascript", "x_1", "main"];

fn expected_tree(case: &Value) -> Vec<Tree> {
    let mut stack: Vec<(String, Vec<Tree>)> = vec![("ROOT".into(), vec![])];
    for t in case["out"].as_array().unwrap() {
        match t["r"].as_str().unwrap() {
            "open" => stack.push((t["t"].as_str().unwrap().to_string(), vec![])),
            "close" => {
                let (k, cs) = stack.pop().unwrap();
                stack.last_mut().unwrap().1.push(Tree::Node(k, cs));
            }
            _ => {
                let x = t["t"].as_str().unwrap();
                let c = x.chars().next().unwrap_or(' ');
                let class = if c == '"' { "\"s\"" } else if c.is_ascii_digit() { if x.contains('.') { "1.5" } else { "1" } } else if VAR_SPELLINGS.contains(&x) { "x" } else { x };
                stack.last_mut().unwrap().1.push(Tree::Tok(class.to_string()))
            }
        }
    }
    stack.pop().unwrap().1
}

fn real_children(node: &SyntaxNode, out: &mut Vec<Tree>) {
    for el in node.children_with_tokens() {
        match el {
            NodeOrToken::Token(t) => {
                if !t.kind().is_trivia() {
                    // literals compare by class (the grammar's terminals "1", "1.5", "\"s\"" stand for the classes)
                    out.push(Tree::Tok(match t.kind() {
                        SyntaxKind::INTEGER => "1".to_string(),
                        SyntaxKind::FLOAT => "1.5".to_string(),
                        SyntaxKind::STRING => "\"s\"".to_string(),
                        // the variable `x` of the grammar stands for any spelling of its class (VAR_SPELLINGS)
                        SyntaxKind::IDENT if VAR_SPELLINGS.contains(&t.text()) => "x".to_string(),
                        _ => t.text().to_string(),
                    }));
                }
            }
            NodeOrToken::Node(n) => {
                if structural(n.kind()) {
                    let mut cs = vec![];
                    real_children(&n, &mut cs);
                    // a node wrapping exactly one node of its own kind is the same grouping
                    if cs.len() == 1 {
                        if let Tree::Node(k, _) = &cs[0] {
                            if *k == format!("{:?}", n.kind()) {
                                out.push(cs.pop().unwrap());
                                continue;
                            }
                        }
                    }
                    out.push(Tree::Node(format!("{:?}", n.kind()), cs));
                } else {
                    real_children(&n, out);
                }
            }
        }
    }
}

/// literal classes of the specification (GleamSyn.LiteralSpellings), set once from --spellings
static SPELLINGS: std::sync::OnceLock<Value> = std::sync::OnceLock::new();

fn render(case: &Value, mode: u8, rng: &mut Rng) -> String {
    let mut toks: Vec<&str> = case["out"].as_array().unwrap().iter().filter(|t| t["r"] == "tok").map(|t| t["t"].as_str().unwrap()).collect();
    // the seeded layout also draws a member of each literal class (never for a tuple index `x.1`), and spells variables with
    // names that mean something elsewhere in Gleam's surface (attribute and target names are ordinary identifiers)
    let var_spelling = VAR_SPELLINGS[rng.below(VAR_SPELLINGS.len())];
    if mode == 2 {
        for t in toks.iter_mut() {
            if *t == "x" {
                *t = var_spelling;
            }
        }
    }
    if mode == 2 {
        if let Some(sp) = SPELLINGS.get() {
            for i in 0..toks.len() {
                let class = match toks[i] { "1" => "int", "1.5" => "float", "\"s\"" => "str", _ => continue };
                if i > 0 && toks[i - 1] == "." {
                    continue;
                }
                let alts = sp[class].as_array().unwrap();
                toks[i] = alts[rng.below(alts.len())].as_str().unwrap();
            }
        }
    }
    let mut s = String::new();
    for (i, t) in toks.iter().enumerate() {
        if i > 0 {
            let prev = toks[i - 1];
            let tight_ok = |a: &str, b: &str| {
                let punct = |x: &str| matches!(x, "." | "(" | ")" | "[" | "]" | "," | "{" | "}");
                // never glue two word-like tokens, `..` to `.`, or operator characters to each other
                (punct(a) || punct(b)) && !(a == "." && b == ".") && !(a == ".." || b == "..") && !(a == "." && b.starts_with('.'))
                    && !(punct(a) && !punct(b) && a == "." && b.chars().next().map_or(false, |c| c.is_ascii_digit()) && false)
            };
            // mode 3: operator-led lines - a line break in front of every operator, the operator glued to what follows
            // (`a\n    -1`, `x\n    |>f`): where lines break never decides how an expression groups
            let is_op = |x: &str| matches!(x, "+" | "-" | "*" | "/" | "%" | "<" | ">" | "<=" | ">=" | "==" | "!=" | "&&" | "||" | "<>" | "|>" | "+." | "-." | "*." | "/." | "<." | ">." | "<=." | ">=.");
            let sep = match mode {
                0 => " ",
                1 => if tight_ok(prev, t) { "" } else { " " },
                3 => if is_op(t) { "\n    " } else if is_op(prev) && t.chars().next().map_or(false, |c| c.is_alphanumeric() || c == '_' || c == '"' || c == '(' || c == '[') { "" } else { " " },
                _ => [" ", " ", "\n", "\n    ", "  // c é\n", "\t", " /// d\n"][rng.below(7)],
            };
            // doc comments are only trivia in front of items; keep them out of expressions
            let sep = if sep == " /// d\n" && !matches!(*t, "fn" | "pub" | "type" | "const" | "import" | "@") { "\n" } else { sep };
            s.push_str(sep);
        }
        s.push_str(t);
    }
    s.push('\n');
    s
}

/// leading `-` of a statement / clause that follows another one continues the previous expression in Gleam itself
fn ambiguous(case: &Value) -> bool {
    let out = case["out"].as_array().unwrap();
    let mut first_in: Vec<bool> = vec![true];      // per open bracket: is the next STMT/CLAUSE child the first one
    let mut i = 0;
    while i < out.len() {
        let t = &out[i];
        match t["r"].as_str().unwrap() {
            "open" => {
                let k = t["t"].as_str().unwrap();
                if matches!(k, "STMT_EXPR" | "CLAUSE" | "STMT_LET" | "STMT_USE") {
                    let first = *first_in.last().unwrap();
                    *first_in.last_mut().unwrap() = false;
                    // first real token of this construct
                    let tok = out[i..].iter().find(|x| x["r"] == "tok").map(|x| x["t"].as_str().unwrap()).unwrap_or("");
                    if !first && tok == "-" {
                        return true;
                    }
                }
                first_in.push(true);
            }
            "close" => { first_in.pop(); }
            _ => {}
        }
        i += 1;
    }
    false
}

fn accessor_checks(root: &SyntaxNode) -> Option<Value> {
    let start = |n: &SyntaxNode| u32::from(n.text_range().start());
    let end = |n: &SyntaxNode| u32::from(n.text_range().end());
    let tok_pos = |n: &SyntaxNode, k: SyntaxKind| n.children_with_tokens().filter_map(|e| e.into_token()).find(|t| t.kind() == k).map(|t| u32::from(t.text_range().start()));
    for n in root.descendants() {
        let bad = |what: &str| Some(json!({"accessor": what, "node": format!("{:?}", n.kind()), "text": n.text().to_string()}));
        if let Some(b) = ast::BinaryOp::cast(n.clone()) {
            let (Some(l), Some(r)) = (b.lhs(), b.rhs()) else { return bad("BinaryOp::lhs/rhs missing") };
            let op = n.children_with_tokens().filter_map(|e| e.into_token()).find(|t| !t.kind().is_trivia()).map(|t| u32::from(t.text_range().start()));
            let Some(op) = op else { return bad("BinaryOp operator token missing") };
            if !(end(l.syntax()) <= op && op < start(r.syntax()) && start(l.syntax()) == start(&n) && end(r.syntax()) == end(&n)) { return bad("BinaryOp::lhs/rhs order"); }
        }
        if let Some(b) = ast::Pipe::cast(n.clone()) {
            let (Some(l), Some(r)) = (b.lhs(), b.rhs()) else { return bad("Pipe::lhs/rhs missing") };
            let Some(op) = tok_pos(&n, SyntaxKind::VBAR_GT) else { return bad("Pipe operator missing") };
            if !(end(l.syntax()) <= op && op < start(r.syntax())) { return bad("Pipe::lhs/rhs order"); }
        }
        if let Some(u) = ast::UnaryOp::cast(n.clone()) {
            // patterns use UNARY_OP for negative literals: the operand is then not an expression node
            if let Some(a) = u.arg() {
                if start(a.syntax()) <= start(&n) { return bad("UnaryOp::arg position"); }
            }
        }
        if let Some(c) = ast::ExprCall::cast(n.clone()) {
            let (Some(f), Some(args)) = (c.func(), c.arguments()) else { return bad("ExprCall::func/arguments missing") };
            if !(start(f.syntax()) == start(&n) && end(f.syntax()) <= start(args.syntax())) { return bad("ExprCall::func order"); }
            for a in args.args() {
                let Some(v) = a.value() else { return bad("Arg::value missing") };
                if let Some(colon) = tok_pos(a.syntax(), SyntaxKind::COLON) {
                    let Some(l) = a.label() else { return bad("Arg::label missing") };
                    if !(end(l.syntax()) <= colon && colon < start(v.syntax())) { return bad("Arg::label/value order"); }
                } else if a.label().is_some() { return bad("Arg::label on positional argument"); }
            }
        }
        if let Some(f) = ast::FieldAccessExpr::cast(n.clone()) {
            let (Some(b), Some(l)) = (f.base(), f.label()) else { return bad("FieldAccessExpr::base/label missing") };
            let Some(dot) = tok_pos(&n, SyntaxKind::DOT) else { return bad("FieldAccess dot missing") };
            if !(end(b.syntax()) <= dot && dot < start(l.syntax())) { return bad("FieldAccessExpr order"); }
        }
        if let Some(f) = ast::TupleIndex::cast(n.clone()) {
            let (Some(b), Some(i)) = (f.base(), f.index()) else { return bad("TupleIndex::base/index missing") };
            if !(end(b.syntax()) <= start(i.syntax())) { return bad("TupleIndex order"); }
        }
        if let Some(l) = ast::StmtLet::cast(n.clone()) {
            let (Some(p), Some(b)) = (l.pattern(), l.body()) else { return bad("StmtLet::pattern/body missing") };
            let Some(eq) = tok_pos(&n, SyntaxKind::EQ) else { return bad("StmtLet = missing") };
            if !(end(p.syntax()) <= eq && eq < start(b.syntax()) && end(b.syntax()) == end(&n)) { return bad("StmtLet::pattern/body order"); }
            match (tok_pos(&n, SyntaxKind::COLON), l.annotation()) {
                (Some(c), Some(a)) => {
                    if a.syntax().text_range() == p.syntax().text_range() { return bad("StmtLet::annotation returns the discard pattern"); }
                    if !(c < start(a.syntax()) && end(a.syntax()) <= eq) { return bad("StmtLet::annotation position") }
                }
                (Some(_), None) => return bad("StmtLet::annotation missing"),
                (None, Some(a)) => if !(start(a.syntax()) >= start(p.syntax()) && end(a.syntax()) <= end(p.syntax())) { return bad("StmtLet::annotation without colon") },
                (None, None) => {}
            }
        }
        if let Some(f) = ast::Function::cast(n.clone()) {
            let (Some(name), Some(pl)) = (f.name(), f.param_list()) else { return bad("Function::name/param_list missing") };
            if !(end(name.syntax()) <= start(pl.syntax())) { return bad("Function::name/param_list order"); }
            if let Some(arrow) = tok_pos(&n, SyntaxKind::R_ARROW) {
                let Some(rt) = f.return_type() else { return bad("Function::return_type missing") };
                if !(arrow < start(rt.syntax()) && end(pl.syntax()) <= arrow) { return bad("Function::return_type position"); }
            }
            if let Some(b) = f.body() {
                if !(end(pl.syntax()) <= start(b.syntax()) && end(b.syntax()) == end(&n)) { return bad("Function::body position"); }
            }
            for p in pl.params() {
                let Some(pat) = p.pattern() else { return bad("Param::pattern missing") };
                if let Some(l) = p.label() {
                    if !(end(l.syntax()) <= start(pat.syntax())) { return bad("Param::label/pattern order"); }
                }
                if let Some(colon) = tok_pos(p.syntax(), SyntaxKind::COLON) {
                    let Some(ty) = p.ty() else { return bad("Param::ty missing") };
                    if ty.syntax().text_range() == pat.syntax().text_range() { return bad("Param::ty returns the discard pattern"); }
                    if !(colon < start(ty.syntax())) { return bad("Param::ty position"); }
                }
            }
        }
        if let Some(c) = ast::Clause::cast(n.clone()) {
            let Some(b) = c.body() else { return bad("Clause::body missing") };
            let Some(arrow) = tok_pos(&n, SyntaxKind::R_ARROW) else { return bad("Clause -> missing") };
            if !(arrow < start(b.syntax()) && end(b.syntax()) == end(&n)) { return bad("Clause::body position"); }
            if c.patterns().count() == 0 { return bad("Clause::patterns empty"); }
            for p in c.patterns() {
                if !(end(p.syntax()) <= arrow) { return bad("Clause::patterns position"); }
            }
        }
        if let Some(c) = ast::Case::cast(n.clone()) {
            let Some(brace) = tok_pos(&n, SyntaxKind::L_BRACE) else { return bad("Case { missing") };
            if c.subjects().count() == 0 { return bad("Case::subjects empty"); }
            for s in c.subjects() {
                if !(end(s.syntax()) <= brace) { return bad("Case::subjects position"); }
            }
            for cl in c.clauses() {
                if !(start(cl.syntax()) > brace) { return bad("Case::clauses position"); }
            }
        }
        if let Some(a) = ast::AsPattern::cast(n.clone()) {
            let (Some(p), Some(nm)) = (a.pattern(), a.as_name()) else { return bad("AsPattern::pattern/as_name missing") };
            if !(end(p.syntax()) <= start(nm.syntax())) { return bad("AsPattern order"); }
        }
        if let Some(c) = ast::ModuleConstant::cast(n.clone()) {
            if c.name().is_none() { return bad("ModuleConstant::name missing"); }
        }
        if let Some(v) = ast::Variant::cast(n.clone()) {
            if v.name().is_none() { return bad("Variant::name missing"); }
        }
        if let Some(f) = ast::VariantField::cast(n.clone()) {
            let Some(t) = f.type_() else { return bad("VariantField::type_ missing") };
            if let Some(colon) = tok_pos(&n, SyntaxKind::COLON) {
                let Some(l) = f.label() else { return bad("VariantField::label missing") };
                if !(end(l.syntax()) <= colon && colon < start(t.syntax())) { return bad("VariantField order"); }
            }
        }
        if let Some(i) = ast::Import::cast(n.clone()) {
            if i.module_path().is_none() { return bad("Import::module_path missing"); }
            let has_as_outside = n.children_with_tokens().filter_map(|e| e.into_token()).any(|t| t.kind() == SyntaxKind::AS_KW);
            if has_as_outside != i.as_name().is_some() { return bad("Import::as_name"); }
        }
        if let Some(t) = ast::TypeAlias::cast(n.clone()) {
            if t.name().is_none() || t.type_().is_none() { return bad("TypeAlias::name/type_ missing"); }
        }
        if let Some(l) = ast::Lambda::cast(n.clone()) {
            if l.param_list().is_none() || l.body().is_none() { return bad("Lambda::param_list/body missing"); }
        }
    }
    None
}

fn main() {
    quiet_panics();
    let args: Vec<String> = std::env::args().collect();
    let arg = |name: &str| args.iter().position(|a| a == name).and_then(|i| args.get(i + 1)).cloned();
    let threads: usize = arg("--threads").and_then(|s| s.parse().ok()).unwrap_or(16);
    if let Some(f) = arg("--spellings") {
        let mut v: Value = serde_json::from_str(&std::fs::read_to_string(f).expect("spellings file")).expect("spellings json");
        // members of the string class that TLC cannot print (it writes non-ASCII characters as `?`)
        for extra in ["\"héé\"", "\"日本\"", "\"💣\""] {
            v["str"].as_array_mut().unwrap().push(json!(extra));
        }
        SPELLINGS.set(v).unwrap();
    }
    let seed: u64 = std::env::var("VERIF_SEED").ok().and_then(|s| s.parse().ok()).unwrap_or(1);
    // cases are streamed: a shared line reader hands (index, line) to the workers (millions of cases in the thorough tier)
    let source = Arc::new(Mutex::new((0usize, std::io::BufReader::with_capacity(1 << 20, std::io::stdin()).lines())));
    let results = Arc::new(Mutex::new(std::collections::BTreeMap::<String, (usize, Vec<Value>)>::new()));
    let totals = Arc::new(Mutex::new((0u64, 0u64, 0u64, Vec::<Value>::new())));
    let mut hs = vec![];
    for _ in 0..threads {
        let (source, results, totals) = (source.clone(), results.clone(), totals.clone());
        hs.push(std::thread::Builder::new().stack_size(64 << 20).spawn(move || loop {
            let (ci, line) = {
                let mut g = source.lock().unwrap();
                let mut found = None;
                while let Some(l) = g.1.next() {
                    let l = l.unwrap();
                    if !l.trim().is_empty() {
                        found = Some(l);
                        break;
                    }
                }
                match found {
                    Some(l) => { let i = g.0; g.0 += 1; (i, l) }
                    None => break,
                }
            };
            let case_v: Value = serde_json::from_str(&line).expect("case json");
            let case = &case_v;
            if ambiguous(case) {
                totals.lock().unwrap().1 += 1;
                continue;
            }
            let mut rng = Rng::new(seed ^ (ci as u64).wrapping_mul(2654435761));
            let exp = expected_tree(case);
            let mut exp_s = String::new();
            for t in &exp { t.ser(&mut exp_s); }
            let mut local = vec![];
            let mut parses = 0u64;
            let modes: Vec<u8> = match case["mode"].as_u64() { Some(m) => vec![m as u8], None => vec![0, 1, 2, 3] };
            for mode in modes {
                let text = render(case, mode, &mut rng);
                parses += 1;
                let r = catch(|| {
                    let parse = syntax::parse_module(&text);
                    if !parse.errors().is_empty() {
                        let e = parse.errors()[0];
                        let at: String = text[usize::from(e.range.start()).min(text.len())..].chars().take(12).collect();
                        return Some(json!({"what": "syntax error", "error": format!("{}", e.kind), "at": at.split_whitespace().next().unwrap_or("")}));
                    }
                    let root = parse.syntax_node();
                    let mut got = vec![];
                    real_children(&root, &mut got);
                    let mut got_s = String::new();
                    for t in &got { t.ser(&mut got_s); }
                    if got_s != exp_s {
                        let (mut ek, mut gk) = (vec![], vec![]);
                        for t in &exp { t.kinds(&mut ek); }
                        for t in &got { t.kinds(&mut gk); }
                        ek.sort();
                        gk.sort();
                        let mut missing = ek.clone();
                        for g in &gk { if let Some(p) = missing.iter().position(|x| x == g) { missing.remove(p); } }
                        let mut extra = gk.clone();
                        for e in &ek { if let Some(p) = extra.iter().position(|x| x == e) { extra.remove(p); } }
                        missing.dedup();
                        extra.dedup();
                        return Some(json!({"what": "tree shape", "missing_kinds": missing, "extra_kinds": extra, "expected": exp_s, "got": got_s}));
                    }
                    accessor_checks(&root).map(|b| json!({"what": "accessor", "accessor": b["accessor"], "info": b}))
                });
                let bad = match r { Ok(b) => b, Err(p) => Some(json!({"what": "panic", "panic": p})) };
                if let Some(b) = bad {
                    let mut f = json!({"what": b["what"], "mode": mode});
                    for k in ["error", "at", "missing_kinds", "extra_kinds", "accessor", "panic"] {
                        if !b[k].is_null() { f[k] = b[k].clone(); }
                    }
                    let mut c = case.clone();
                    c["mode"] = json!(mode);
                    local.push(json!({"kind": "mismatch", "prop": "C04", "features": f, "detail": {"case": c, "text": text, "bad": b}}));
                    break;
                }
            }
            let mut t = totals.lock().unwrap();
            t.0 += 1;
            t.2 += parses;
            if t.3.len() < 3 && case["out"].as_array().unwrap().len() > 40 {
                let mut rng2 = Rng::new(ci as u64);
                t.3.push(json!({"text": render(case, 2, &mut rng2), "tree": exp_s}));
            }
            drop(t);
            if !local.is_empty() {
                let mut res = results.lock().unwrap();
                for r in local {
                    let e = res.entry(r["features"].to_string()).or_default();
                    e.0 += 1;
                    if e.1.len() < 2 { e.1.push(r); }
                }
            }
        }).unwrap());
    }
    for h in hs {
        h.join().unwrap();
    }
    let so = std::io::stdout();
    let mut so = so.lock();
    let res = results.lock().unwrap();
    let mut per: std::collections::BTreeMap<String, usize> = Default::default();
    for (k, (n, rs)) in res.iter() {
        per.insert(k.clone(), *n);
        for r in rs {
            writeln!(so, "{r}").unwrap();
        }
    }
    let t = totals.lock().unwrap();
    let counts: Vec<Value> = per.iter().map(|(k, v)| json!([k, v])).collect();
    writeln!(so, "{}", json!({"kind": "summary", "programs": t.0, "skipped_ambiguous": t.1, "parses": t.2, "samples": t.3, "mismatch_classes": counts})).unwrap();
}
