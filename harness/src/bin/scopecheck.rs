//! C05 / C06 / C18 / C20 observation of GleamGen programs on the real analysis.
//!   scopecheck [--tables FILE] [--ranges FILE] [--threads N] < programs.ndjson
//! Every case is a program emitted by spec/GleamGen.tla: tokens with role, declared target (tg)
//! and the visible value names (vis).  Output: ndjson mismatch lines tagged with "prop".
//! Workspace: m1 = the program (package `app`), the library modules m2 and sub/m2 in a second local package `lib`
//! that `app` depends on; one workspace in four (by seed and case index, or `"shape"` of the case) has a single package.
use ide::{Analysis, FileId, FilePos, GotoDefinitionResult};
use serde_json::{json, Value};
use std::io::Write;
use std::sync::{Arc, Mutex};
use verif_harness::programs::{self, Program, Tok, LIBS};
use verif_harness::util::{catch, quiet_panics, Rng};
use verif_harness::workspace::{self, Shape};

const M1: FileId = FileId(0);

fn gen_ws(shape: Shape, m1: &str) -> workspace::Ws {
    workspace::gen_workspace(shape, &[("m1", m1), (LIBS[0].0, LIBS[0].1), (LIBS[1].0, LIBS[1].1)])
}

const IDENT_ROLES: &[&str] = &["ref", "def", "spreaddef", "altdef", "modref", "pmodref", "qref", "impname", "impalias", "modpath", "moddef", "pref", "label", "plabel", "field", "tref", "fieldalt", "qtref", "tmodref"];

/// Where an answer points, in the vocabulary of the specification.
#[derive(Debug, Clone, PartialEq, Eq, PartialOrd, Ord)]
enum Key {
    Tok(usize),  // token index (spec's `out` index) in m1
    Lib(u64),    // declaration id of the library
    Other(String),
}

impl Key {
    fn json(&self) -> Value {
        match self {
            Key::Tok(i) => json!(format!("t{i}")),
            Key::Lib(i) => json!(format!("l{i}")),
            Key::Other(s) => json!(format!("o{s}")),
        }
    }
}

fn key_for(prog: &Program, file: FileId, start: usize, end: usize) -> Key {
    if file == M1 {
        // the identifier token covered by the range (binder ranges may include `..`)
        for t in &prog.toks {
            if IDENT_ROLES.contains(&t.r.as_str()) && t.start >= start && t.end <= end && !(t.start == t.end) {
                return Key::Tok(t.idx);
            }
        }
        Key::Other(format!("m1:{start}..{end}"))
    } else if (file.0 as usize) <= LIBS.len() {
        let lib = file.0 as usize - 1;
        for (id, off, len) in programs::lib_decls_of(lib) {
            if off >= start && off + len <= end {
                return Key::Lib(id);
            }
        }
        if start == 0 {
            return Key::Lib(LIBS[lib].2);
        }
        Key::Other(format!("{}:{start}..{end}", LIBS[lib].0))
    } else {
        Key::Other(format!("f{}:{start}..{end}", file.0))
    }
}

fn has_unqalias(case: &Value) -> bool {
    case["imps"].as_array().map_or(false, |a| a.iter().any(|i| i["u"] == "unqalias"))
}

/// how the accessor written at (or just before) this token came into scope: "plain" (last path segment) / "alias" / ""
fn acc_kind(case: &Value, t: &Tok) -> &'static str {
    if !["modref", "pmodref", "tmodref", "qref", "qtref"].contains(&t.r.as_str()) {
        return "";
    }
    let base = t.tg - t.tg % 1000;
    match case["imps"].as_array().and_then(|a| a.iter().find(|i| (if i["m"] == "m2" { 2000 } else { 3000 }) == base)) {
        Some(i) if i["as"].as_str().map_or(false, |s| !s.is_empty()) => "alias",
        Some(_) => "plain",
        None => "",
    }
}

fn expected_key(prog: &Program, t: &Tok) -> Option<Option<Key>> {
    // Some(None) = no answer expected; None = no expectation
    match t.r.as_str() {
        "ref" | "qref" | "impname" | "impalias" | "pref" | "label" | "plabel" | "field" | "tref" | "fieldalt" | "qtref" => Some(match t.tg {
            0 => None,
            g if g < 1000 => Some(Key::Tok(g as usize)),
            g if g < 2000 => prog.toks.iter().find(|d| d.r == "def" && d.tg == g).map(|d| Key::Tok(d.idx)),
            g => Some(Key::Lib(g)),
        }),
        "def" | "spreaddef" => Some(Some(Key::Tok(t.idx))),
        "modref" | "pmodref" => Some(Some(Key::Lib(t.tg))),
        _ => None,
    }
}

struct Obs {
    goto: Option<Key>,
    goto_full_ok: bool,
    refs: Option<Vec<Key>>,
    refs_dup: bool,
    hl: Vec<Key>,
}

fn observe(a: &Analysis, prog: &Program, t: &Tok, ranges: &mut Vec<(u32, usize, usize)>) -> Obs {
    let pos = FilePos::new(M1, (t.start as u32).into());
    let mut goto_full_ok = true;
    let goto = match a.goto_definition(pos).unwrap() {
        Some(GotoDefinitionResult::Targets(ts)) if !ts.is_empty() => {
            let n = &ts[0];
            goto_full_ok = n.full_range.contains_range(n.focus_range);
            ranges.push((n.file_id.0, n.full_range.start().into(), n.full_range.end().into()));
            ranges.push((n.file_id.0, n.focus_range.start().into(), n.focus_range.end().into()));
            Some(key_for(prog, n.file_id, n.focus_range.start().into(), n.focus_range.end().into()))
        }
        Some(GotoDefinitionResult::Path(p)) => Some(Key::Other(format!("path:{}", p.display()))),
        _ => None,
    };
    let mut refs_dup = false;
    let refs = a.references(pos).unwrap().map(|v| {
        let mut ks: Vec<Key> = v.iter().map(|fr| {
            ranges.push((fr.file_id.0, fr.range.start().into(), fr.range.end().into()));
            key_for(prog, fr.file_id, fr.range.start().into(), fr.range.end().into())
        }).collect();
        ks.sort();
        let n = ks.len();
        ks.dedup();
        refs_dup = ks.len() != n;
        ks
    });
    let mut hl: Vec<Key> = a.highlight_related(pos).unwrap().iter().map(|h| {
        ranges.push((M1.0, h.range.start().into(), h.range.end().into()));
        key_for(prog, M1, h.range.start().into(), h.range.end().into())
    }).collect();
    hl.sort();
    Obs { goto, goto_full_ok, refs, refs_dup, hl }
}

fn main() {
    quiet_panics();
    let args: Vec<String> = std::env::args().collect();
    let arg = |name: &str| args.iter().position(|a| a == name).and_then(|i| args.get(i + 1)).cloned();
    let tables_out = arg("--tables");
    let ranges_out = arg("--ranges");
    let hl_out = arg("--hl-out");
    let threads: usize = arg("--threads").and_then(|s| s.parse().ok()).unwrap_or(16);
    let seed: u64 = std::env::var("VERIF_SEED").ok().and_then(|s| s.parse().ok()).unwrap_or(1);
    let cases = verif_harness::util::CaseStream::stdin();
    let results = verif_harness::util::Results::new(3);
    let tables = Arc::new(Mutex::new(tables_out.as_ref().map(|p| std::io::BufWriter::new(std::fs::File::create(p).unwrap()))));
    let range_recs = Arc::new(Mutex::new(std::collections::BTreeSet::<String>::new()));
    let hl_recs = Arc::new(Mutex::new(Vec::<Value>::new()));
    let want_hl = hl_out.is_some();
    let stats = Arc::new(Mutex::new((0u64, 0u64, 0u64, Vec::<Value>::new()))); // programs, queries, shadowing programs, samples
    let mut hs = vec![];
    for _ in 0..threads {
        let (cases, results, tables, range_recs, stats, hl_recs) = (cases.clone(), results.clone(), tables.clone(), range_recs.clone(), stats.clone(), hl_recs.clone());
        let want_tables = tables_out.is_some();
        hs.push(std::thread::Builder::new().stack_size(32 << 20).spawn(move || loop {
            let Some((ci, case_v)) = cases.next() else { break };
            let case = &case_v;
            let mut rng = Rng::new(seed ^ (ci as u64).wrapping_mul(7919));
            let prog = programs::render(case, &mut rng, case["plain"].as_bool().unwrap_or(ci % 3 == 0));
            let mut local: Vec<Value> = vec![];
            let mut queries = 0u64;
            let shape = match case_v["shape"].as_str() { Some("one-package") => Shape::OnePackage, Some(_) => Shape::TwoPackages, None => Shape::seeded(seed, ci) };
            // what a violation records: the program with the workspace shape it was observed in (a replay uses the same)
            let mut case_rec = case_v.clone();
            case_rec["shape"] = json!(shape.name());
            let case = &case_rec;
            let r = catch(|| {
                let ws = gen_ws(shape, &prog.text);
                let a = ws.host.snapshot();
                let mut ranges: Vec<(u32, usize, usize)> = vec![];
                let nerr = a.diagnostics(M1).unwrap().iter().filter(|d| matches!(d.kind, ide::DiagnosticKind::SyntaxError(_))).count();
                if nerr > 0 {
                    local.push(json!({"kind": "mismatch", "prop": "C04", "features": {"what": "syntax error in generated program"},
                        "detail": {"case": case, "text": prog.text, "n": nerr}}));
                }
                let mut occ: Vec<Value> = vec![];
                for t in prog.toks.iter().filter(|t| IDENT_ROLES.contains(&t.r.as_str())) {
                    let o = observe(&a, &prog, t, &mut ranges);
                    queries += 3;
                    // ---- C05
                    if let Some(exp) = expected_key(&prog, t) {
                        let ok = match (&exp, &o.goto) {
                            (None, None) => true,
                            (None, Some(Key::Other(_))) => true, // unresolved: any answer that is not a declaration of ours
                            (Some(e), Some(g)) => e == g,
                            _ => false,
                        };
                        if !ok || !o.goto_full_ok {
                            let target_role = match &exp { Some(Key::Tok(i)) => prog.toks.iter().find(|d| d.idx == *i).map(|d| d.r.clone()).unwrap_or_default(), Some(Key::Lib(_)) => "lib".into(), _ => "none".into() };
                            local.push(json!({"kind": "mismatch", "prop": "C05",
                                "features": {"what": if ok { "focus outside full range" } else { "goto" }, "role": t.r, "ctx": t.ctx.join("/"), "inner": t.ctx.last().cloned().unwrap_or_default(),
                                             "target_role": target_role, "lib_target": if t.tg >= 2000 { t.tg } else { 0 }, "expected_none": exp.is_none(), "got_none": o.goto.is_none(), "imp": case["imp"], "acc": acc_kind(case, t)},
                                "detail": {"case": case, "text": prog.text, "token": {"idx": t.idx, "text": t.t, "offset": t.start},
                                           "expected": exp.as_ref().map(|k| k.json()), "got": o.goto.as_ref().map(|k| k.json())}}));
                        }
                    }
                    // ---- C06 (GEN part): references of a declaration = the occurrences the specification bound to it
                    if t.r == "def" || t.r == "spreaddef" {
                        let id = if t.tg >= 1000 { t.tg } else { t.idx as u64 };
                        let mut exp: Vec<Key> = prog.toks.iter().filter(|u| (["ref", "pref", "label", "plabel", "field", "tref", "qref", "fieldalt", "qtref"].contains(&u.r.as_str()) && u.tg == id) || u.idx == t.idx).map(|u| Key::Tok(u.idx)).collect();
                        exp.sort();
                        let alt: Vec<Key> = prog.toks.iter().filter(|u| u.r == "altdef").map(|u| Key::Tok(u.idx)).collect();
                        let got: Option<Vec<Key>> = o.refs.as_ref().map(|v| v.iter().filter(|k| !alt.contains(k)).cloned().collect());
                        if got.as_ref() != Some(&exp) || o.refs_dup {
                            local.push(json!({"kind": "mismatch", "prop": "C06",
                                "features": {"what": if o.refs_dup { "duplicate reference" } else { "reference set" }, "role": t.r, "ctx": t.ctx.join("/"),
                                             "inner": t.ctx.last().cloned().unwrap_or_default(), "got_none": o.refs.is_none(), "top_level": t.tg >= 1000},
                                "detail": {"case": case, "text": prog.text, "token": {"idx": t.idx, "text": t.t, "offset": t.start},
                                           "expected": exp.iter().map(|k| k.json()).collect::<Vec<_>>(), "got": got.map(|v| v.iter().map(|k| k.json()).collect::<Vec<_>>())}}));
                        }
                    }
                    // ---- C18: completions while typing this reference (cursor at its end)
                    if t.r == "ref" {
                        let items = a.completions(FilePos::new(M1, (t.end as u32).into()), None).unwrap().unwrap_or_default();
                        queries += 1;
                        let mut got: Vec<String> = items.iter().filter(|i| matches!(i.kind, ide::CompletionItemKind::Function | ide::CompletionItemKind::Param | ide::CompletionItemKind::Variant)).map(|i| i.label.to_string()).collect();
                        for i in &items {
                            ranges.push((M1.0, i.source_range.start().into(), i.source_range.end().into()));
                        }
                        // accepting an item puts a name into the buffer: it must be the name that was offered (the one that is in
                        // scope here), as one identifier
                        for i in items.iter().filter(|i| matches!(i.kind, ide::CompletionItemKind::Function | ide::CompletionItemKind::Param | ide::CompletionItemKind::Variant | ide::CompletionItemKind::Module)) {
                            let inserted: String = i.replace.chars().take_while(|c| c.is_alphanumeric() || *c == '_').collect();
                            if inserted != i.label.as_str() {
                                local.push(json!({"kind": "mismatch", "prop": "C18",
                                    "features": {"what": "accepting an item inserts another name than the one offered", "item_kind": format!("{:?}", i.kind), "unqalias": has_unqalias(case)},
                                    "detail": {"case": case, "text": prog.text, "token": {"idx": t.idx, "text": t.t, "offset": t.end}, "label": i.label.as_str(), "replace": i.replace.as_str()}}));
                                break;
                            }
                        }
                        // built-in constructors are always in scope (and not the specification's business - unless the module
                        // declares a constructor with such a name itself: then the name is expected, once)
                        got.retain(|l| !["Ok", "Error", "True", "False", "Nil"].contains(&l.as_str()) || t.vis.contains(l));
                        got.sort();
                        let dup = got.windows(2).any(|w| w[0] == w[1]);
                        got.dedup();
                        let mut exp: Vec<String> = t.vis.clone();
                        exp.sort();
                        // the item offered for a local describes the binding the name denotes HERE (the innermost one): its
                        // signature is the type shown on that binder
                        if t.tg > 0 && t.tg < 1000 {
                            if let (Some(item), Some(binder)) = (items.iter().find(|i| i.label == t.t && matches!(i.kind, ide::CompletionItemKind::Param)),
                                                                 prog.toks.iter().find(|b| b.idx as u64 == t.tg)) {
                                let hv = a.hover(FilePos::new(M1, (binder.start as u32).into())).unwrap();
                                let binder_ty = hv.map(|h| { let mut it = h.markup.split("```"); it.next(); let b = it.next().unwrap_or(""); b.strip_prefix("gleam").unwrap_or(b).split_whitespace().collect::<Vec<_>>().join(" ") });
                                let sig = item.signature.clone().map(|s| s.split_whitespace().collect::<Vec<_>>().join(" "));
                                if let (Some(bt), Some(sg)) = (binder_ty, sig) {
                                    if bt != sg {
                                        local.push(json!({"kind": "mismatch", "prop": "C18",
                                            "features": {"what": "item of a local does not describe the binding in scope", "ctx": t.ctx.join("/")},
                                            "detail": {"case": case, "text": prog.text, "token": {"idx": t.idx, "text": t.t, "offset": t.end}, "binder": binder.idx, "binder_type": bt, "item_signature": sg}}));
                                    }
                                }
                            }
                        }
                        // module accessors in scope: the imported module under its own name, or under its alias only
                        let mut got_mods: Vec<String> = items.iter().filter(|i| matches!(i.kind, ide::CompletionItemKind::Module)).map(|i| i.label.to_string()).collect();
                        got_mods.sort();
                        let mut exp_mods: Vec<String> = case["mods"].as_array().map(|a| a.iter().map(|x| x.as_str().unwrap().to_string()).collect()).unwrap_or_default();
                        exp_mods.sort();
                        if got_mods != exp_mods {
                            local.push(json!({"kind": "mismatch", "prop": "C18",
                                "features": {"what": "module accessors", "imp": case["imp"], "missing": exp_mods.iter().filter(|e| !got_mods.contains(e)).collect::<Vec<_>>(), "extra": got_mods.iter().filter(|g| !exp_mods.contains(g)).collect::<Vec<_>>()},
                                "detail": {"case": case, "text": prog.text, "token": {"idx": t.idx, "text": t.t, "offset": t.end}, "expected": exp_mods, "got": got_mods}}));
                        }
                        let bad_range = items.iter().any(|i| usize::from(i.source_range.start()) != t.start || usize::from(i.source_range.end()) != t.end);
                        if got != exp || dup || bad_range {
                            local.push(json!({"kind": "mismatch", "prop": "C18",
                                "features": {"what": if got != exp { "visible set" } else if dup { "duplicate label" } else { "replace range" }, "ctx": t.ctx.join("/"), "inner": t.ctx.last().cloned().unwrap_or_default(),
                                             "missing": exp.iter().filter(|e| !got.contains(e)).collect::<Vec<_>>(), "extra": got.iter().filter(|g| !exp.contains(g)).collect::<Vec<_>>(),
                                             "unqalias": has_unqalias(case)},
                                "detail": {"case": case, "text": prog.text, "token": {"idx": t.idx, "text": t.t, "offset": t.end}, "expected": exp, "got": got}}));
                        }
                    }
                    // ---- C18: the identifier being typed may, so far, spell a keyword (`todo` on the way to `todo_list`):
                    // the offered names and the replaced range must be the same as for any other prefix
                    if t.r == "ref" && t.idx % 4 == ci % 4 && !t.vis.is_empty() && !has_unqalias(case) {
                        let kw = ["todo", "panic"][t.idx % 2];
                        let mut text2 = String::with_capacity(prog.text.len() + 8);
                        text2.push_str(&prog.text[..t.start]);
                        text2.push_str(kw);
                        text2.push_str(&prog.text[t.end..]);
                        let ws2 = gen_ws(shape, &text2);
                        let a2 = ws2.host.snapshot();
                        let end2 = t.start + kw.len();
                        let items = a2.completions(FilePos::new(M1, (end2 as u32).into()), None).unwrap().unwrap_or_default();
                        queries += 1;
                        let mut got: Vec<String> = items.iter().filter(|i| matches!(i.kind, ide::CompletionItemKind::Function | ide::CompletionItemKind::Param | ide::CompletionItemKind::Variant)).map(|i| i.label.to_string()).collect();
                        got.retain(|l| !["Ok", "Error", "True", "False", "Nil"].contains(&l.as_str()) || t.vis.contains(l));
                        got.sort();
                        got.dedup();
                        let mut exp: Vec<String> = t.vis.clone();
                        exp.sort();
                        let bad_range = items.iter().any(|i| usize::from(i.source_range.start()) != t.start || usize::from(i.source_range.end()) != end2);
                        if got != exp || bad_range {
                            local.push(json!({"kind": "mismatch", "prop": "C18",
                                "features": {"what": if got != exp { "visible set (keyword-spelled prefix)" } else { "replace range (keyword-spelled prefix)" }, "inner": t.ctx.last().cloned().unwrap_or_default(),
                                             "missing": exp.iter().filter(|e| !got.contains(e)).collect::<Vec<_>>(), "extra": got.iter().filter(|g| !exp.contains(g)).collect::<Vec<_>>()},
                                "detail": {"case": case, "text": text2, "token": {"idx": t.idx, "text": kw, "offset": end2}, "expected": exp, "got": got}}));
                        }
                    }
                    // ---- C18: after `record.` exactly the fields common to all variants of the record's type
                    // (GleamGen's own type: T(a, b) / V(a, b) - fields a and b)
                    if t.r == "field" {
                        if let Some(dot) = prog.toks.iter().find(|d| d.idx + 1 == t.idx && d.t == ".") {
                            let items = a.completions(FilePos::new(M1, (dot.end as u32).into()), Some('.')).unwrap().unwrap_or_default();
                            queries += 1;
                            let mut got: Vec<String> = items.iter().map(|i| format!("{}:{:?}", i.label, i.kind)).collect();
                            got.sort();
                            // (a value of the library's record R - `acc.mk().f` - has the single field f)
                            let exp: Vec<String> = if t.tg == 0 { vec![] /* a value of unknown type has no fields */ } else if t.tg >= 2000 { vec!["f:Field".to_string()] } else { case["fields"].as_array().map(|a| a.iter().map(|x| format!("{}:Field", x.as_str().unwrap())).collect()).unwrap_or_default() };
                            if got != exp {
                                local.push(json!({"kind": "mismatch", "prop": "C18",
                                    "features": {"what": "record fields", "ctx": t.ctx.join("/"), "inner": t.ctx.last().cloned().unwrap_or_default(),
                                                 "missing": exp.iter().filter(|e| !got.contains(e)).collect::<Vec<_>>(), "extra": got.iter().filter(|g| !exp.contains(g)).collect::<Vec<_>>()},
                                    "detail": {"case": case, "text": prog.text, "token": {"idx": t.idx, "text": t.t, "offset": dot.end}, "expected": exp, "got": got}}));
                            }
                        }
                    }
                    // ---- C18: after `module.` exactly the public functions and constructors of that module
                    if t.r == "modref" {
                        if let Some(dot) = prog.toks.iter().find(|d| d.idx == t.idx + 1 && d.t == ".") {
                            let items = a.completions(FilePos::new(M1, (dot.end as u32).into()), Some('.')).unwrap().unwrap_or_default();
                            queries += 1;
                            let mut got: Vec<String> = items.iter().map(|i| i.label.to_string()).collect();
                            got.sort();
                            // the accessor's module decides (m2 and sub/m2 export different sets)
                            let mut exp: Vec<String> = case["accs"].as_array().and_then(|a| a.iter().find(|x| x["acc"] == t.t.as_str()))
                                .and_then(|x| x["members"].as_array()).map(|m| m.iter().map(|x| x.as_str().unwrap().to_string()).collect()).unwrap_or_default();
                            exp.sort();
                            if got != exp {
                                local.push(json!({"kind": "mismatch", "prop": "C18",
                                    "features": {"what": "module members", "ctx": t.ctx.join("/"), "inner": t.ctx.last().cloned().unwrap_or_default(), "acc": acc_kind(case, t),
                                                 "missing": exp.iter().filter(|e| !got.contains(e)).collect::<Vec<_>>(), "extra": got.iter().filter(|g| !exp.contains(g)).collect::<Vec<_>>()},
                                    "detail": {"case": case, "text": prog.text, "token": {"idx": t.idx, "text": t.t, "offset": dot.end}, "expected": exp, "got": got}}));
                            }
                        }
                    }
                    if want_tables {
                        occ.push(json!({"k": Key::Tok(t.idx).json(), "name": t.t, "role": t.r, "tg": expected_key(&prog, t).flatten().map(|k| k.json()),
                            "goto": o.goto.as_ref().map(|k| k.json()).unwrap_or(json!("none")),
                            "refs": o.refs.as_ref().map(|v| v.iter().map(|k| k.json()).collect::<Vec<_>>()),
                            "hasrefs": o.refs.is_some(), "dup": o.refs_dup,
                            "hl": o.hl.iter().map(|k| k.json()).collect::<Vec<_>>(), "ctx": t.ctx.last().cloned().unwrap_or_default()}));
                    }
                }
                // ---- C19 (second half): which identifiers are highlighted, and with which tag
                {
                    let hl = a.syntax_highlight(M1, None).unwrap();
                    queries += 1;
                    let items = case["items"].as_array().cloned().unwrap_or_default();
                    let type_base = items.iter().position(|it| it["k"] == "type").map(|i| 1001 + i as u64);
                    let is_fn_item = |g: u64| g >= 1001 && g < 1100 && items.get((g - 1001) as usize).map_or(false, |it| it["k"] == "fn");
                    let is_ctor = |g: u64| type_base.map_or(false, |b| g == b + 100 || g == b + 200 || g == b + 600) || (g >= 2000 && (g % 1000 == 3 || g % 1000 == 4 || g % 1000 == 9 || g % 1000 == 13));
                    for t in prog.toks.iter() {
                        // expectation: Some(Some(tag)) / Some(None) = must not be highlighted / None = not decided here
                        let exp: Option<Option<&str>> = match t.r.as_str() {
                            "ref" | "qref" | "pref" => {
                                // `m2.p` with a private p: glas navigates to (and highlights) the private function; the
                                // specification leaves inaccessible names undecided, as for go-to-definition
                                if t.tg == 0 && t.r == "qref" { None }
                                else if t.tg == 0 { Some(None) }
                                else if is_fn_item(t.tg) || (t.tg >= 2000 && (t.tg % 1000 == 1 || t.tg % 1000 == 2 || t.tg % 1000 == 12)) { Some(Some("Function")) }
                                else if is_ctor(t.tg) { Some(Some("Constructor")) }
                                else if t.tg < 1000 { None }          // locals: Function or nothing (type-dependent, decided by the Typing programs; checked below)
                                else { Some(None) }
                            }
                            "def" => if is_ctor(t.tg) { Some(Some("Constructor")) } else { Some(None) },
                            "modref" | "pmodref" | "tmodref" => Some(Some("Module")),
                            "kw" | "label" | "plabel" | "field" | "fieldalt" | "tref" | "qtref" | "spreaddef" | "altdef" | "impname" | "impalias" | "modpath" | "moddef" => Some(None),
                            _ => None,
                        };
                        let got: Option<String> = hl.iter().find(|h| usize::from(h.range.start()) == t.start && usize::from(h.range.end()) == t.end).map(|h| format!("{:?}", h.tag));
                        // a reference to a local is a function-typed value or no token at all - never a module or a constructor
                        if t.r == "ref" && t.tg > 0 && t.tg < 1000 && matches!(got.as_deref(), Some("Module") | Some("Constructor")) {
                            local.push(json!({"kind": "mismatch", "prop": "C19", "features": {"what": "highlight tag", "role": "local ref", "expected": "Function or none", "got": got, "inner": t.ctx.last().cloned().unwrap_or_default()},
                                "detail": {"case": case, "text": prog.text, "token": {"idx": t.idx, "text": t.t, "offset": t.start}}}));
                        }
                        if let Some(e) = exp {
                            if e.map(|x| x.to_string()) != got {
                                local.push(json!({"kind": "mismatch", "prop": "C19", "features": {"what": "highlight tag", "role": t.r, "expected": e, "got": got, "inner": t.ctx.last().cloned().unwrap_or_default()},
                                    "detail": {"case": case, "text": prog.text, "token": {"idx": t.idx, "text": t.t, "offset": t.start}}}));
                            }
                        }
                    }
                    // a range request answers with the highlights that overlap the range - in particular nothing that
                    // ends at or before its start
                    for (bi, t) in prog.toks.iter().enumerate() {
                        if bi % 3 != ci % 3 { continue; }
                        // ... and ranges that begin or end strictly inside a token
                        let mid = if t.end - t.start >= 2 { t.start + 1 } else { t.start };
                        for &(rs, re) in &[(t.end, prog.text.len()), (t.start, t.end), (t.end, t.end), (0, mid), (mid, prog.text.len())] {
                            if rs > re || !prog.text.is_char_boundary(rs) || !prog.text.is_char_boundary(re) { continue; }
                            let r = syntax::TextRange::new((rs as u32).into(), (re as u32).into());
                            let sub = a.syntax_highlight(M1, Some(r)).unwrap();
                            queries += 1;
                            let exp: Vec<&ide::HlRange> = hl.iter().filter(|h| usize::from(h.range.start()) < re && usize::from(h.range.end()) > rs).collect();
                            let ok = sub.len() == exp.len() && sub.iter().zip(exp.iter()).all(|(x, y)| x == *y);
                            if !ok {
                                local.push(json!({"kind": "mismatch", "prop": "C19", "features": {"what": "range highlight differs from the overlapping part of the full list", "empty_range": rs == re},
                                    "detail": {"case": case, "text": prog.text, "range": [rs, re], "got": sub.iter().map(|h| format!("{:?}", h.range)).collect::<Vec<_>>(),
                                               "expected": exp.iter().map(|h| format!("{:?}", h.range)).collect::<Vec<_>>()}}));
                                break;
                            }
                        }
                    }
                    // (the end-to-end half of C19 replays these in a one-module project: programs that do not import sub/m2)
                    if want_hl && ci % 25 == 0 && !case["imp"].as_str().unwrap_or("").contains("sub/") {
                        hl_recs.lock().unwrap().push(json!({"text": prog.text, "hl": hl.iter().map(|h| json!([u32::from(h.range.start()), u32::from(h.range.end()), format!("{:?}", h.tag)])).collect::<Vec<_>>()}));
                    }
                    for h in &hl {
                        ranges.push((M1.0, h.range.start().into(), h.range.end().into()));
                        if !prog.toks.iter().any(|t| t.start == usize::from(h.range.start()) && t.end == usize::from(h.range.end())) {
                            local.push(json!({"kind": "mismatch", "prop": "C19", "features": {"what": "highlight is not an identifier token"},
                                "detail": {"case": case, "text": prog.text, "range": format!("{:?}", h.range)}}));
                        }
                    }
                }
                // ---- C20 facts: every reported range with the facts a monitor needs
                let texts = [prog.text.as_str(), LIBS[0].1, LIBS[1].1];
                let mut rr = range_recs.lock().unwrap();
                for (f, s, e) in ranges {
                    let (len, bs, be) = match texts.get(f as usize) {
                        Some(tx) => (tx.len(), tx.is_char_boundary(s.min(tx.len())), tx.is_char_boundary(e.min(tx.len()))),
                        None => (0, false, false),
                    };
                    rr.insert(format!("{{\"f\":{f},\"nf\":3,\"s\":{s},\"e\":{e},\"len\":{len},\"bs\":{bs},\"be\":{be}}}"));
                }
                drop(rr);
                if want_tables {
                    if let Some(f) = tables.lock().unwrap().as_mut() { writeln!(f, "{}", json!({"prog": ci, "text": prog.text, "occ": occ})).unwrap(); }
                }
            });
            if let Err(p) = r {
                local.push(json!({"kind": "mismatch", "prop": "C10", "features": {"what": "panic", "panic": p},
                    "detail": {"case": case, "text": prog.text}}));
            }
            let shadow = {
                let defs: Vec<&str> = prog.toks.iter().filter(|t| t.r == "def" || t.r == "spreaddef").map(|t| t.t.as_str()).collect();
                let mut d = defs.clone();
                d.sort();
                d.dedup();
                d.len() < defs.len()
            };
            let mut st = stats.lock().unwrap();
            st.0 += 1;
            st.1 += queries;
            if shadow {
                st.2 += 1;
                if st.3.len() < 3 && prog.toks.len() > 25 {
                    st.3.push(json!({"text": prog.text, "refs": prog.toks.iter().filter(|t| t.r == "ref").map(|t| json!([t.t, t.start, t.tg])).collect::<Vec<_>>()}));
                }
            }
            drop(st);
            results.extend(local);
        }).unwrap());
    }
    for h in hs {
        h.join().unwrap();
    }
    let so = std::io::stdout();
    let mut so = so.lock();
    let (counts, _) = results.emit(&mut so);
    if let Some(f) = tables.lock().unwrap().as_mut() { f.flush().unwrap(); }
    if let Some(p) = hl_out {
        let mut f = std::io::BufWriter::new(std::fs::File::create(p).unwrap());
        for t in hl_recs.lock().unwrap().iter() {
            writeln!(f, "{t}").unwrap();
        }
    }
    if let Some(p) = ranges_out {
        let mut f = std::io::BufWriter::new(std::fs::File::create(p).unwrap());
        for t in range_recs.lock().unwrap().iter() {
            writeln!(f, "{t}").unwrap();
        }
    }
    let st = stats.lock().unwrap();
    writeln!(so, "{}", json!({"kind": "summary", "programs": st.0, "queries": st.1, "shadowing_programs": st.2, "samples": st.3,
        "mismatch_classes": counts, "ranges": range_recs.lock().unwrap().len()})).unwrap();
}
