//! C11 replay: Workspace.tla histories against one long-lived AnalysisHost; after every step every query at
//! every token boundary is compared with a fresh host (same order) and a second fresh host (reverse order).
//!   histcheck [--threads N] [--filler N] < histories.ndjson     history: {"hist":[{"op":{k,f,i,x},"files":[{name,lex}]},..]}
use ide::{AnalysisHost, Change, FileId, FileSet, PackageGraph, SourceRoot, VfsPath};
use serde_json::{json, Value};
use std::io::{BufRead, Write};
use std::sync::atomic::{AtomicUsize, Ordering};
use std::sync::{Arc, Mutex};
use verif_harness::queries::{self, FILE_QUERIES, POSITION_QUERIES};
use verif_harness::util::{catch, quiet_panics, Rng};

type Files = Vec<(String, String)>;

fn files_of(v: &Value) -> Files {
    v.as_array().unwrap().iter().map(|f| {
        let lex: Vec<&str> = f["lex"].as_array().map(|a| a.iter().map(|x| x.as_str().unwrap()).collect()).unwrap_or_default();
        (f["name"].as_str().unwrap().to_string(), lex.join(" "))
    }).collect()
}

/// Two packages: the first module file is package `app` (/app), the others (and the filler modules) are
/// package `lib` (/lib); `dep` = app depends on lib.  /app/gleam.toml = FileId(0), /lib/gleam.toml = FileId(1),
/// module i = FileId(2 + i), filler k = FileId(100 + k).
const MOD0: u32 = 2;

/// `dup`: a third package `lib2` (/lib2/gleam.toml = FileId(60), its module = FileId(61)) that app also depends on and
/// that ships a module with the same name as lib's first module.
const DUP_TOML: u32 = 60;
const DUP_MOD: u32 = 61;
const DUP_TEXT: &str = "pub fn a(x) { \"dup\" }\npub fn c() { \"dup\" }\npub fn pong(n) { \"dup\" }\npub type A { A(a: String) C }\n";

/// `ext`: the package `lib` is a downloaded dependency (not local).  Independently of it, the last library module lives
/// under lib's `test/` directory (a module like any other to glas, wherever its package comes from).
fn graph(dep: bool, dup: bool, ext: bool) -> PackageGraph {
    let mut g = PackageGraph::default();
    let app = g.add_package("app".into(), FileId(0), true);
    let lib = g.add_package("lib".into(), FileId(1), !ext);
    if dep {
        g.add_dep(app, ide::Dependency { package: lib });
    }
    if dup {
        let lib2 = g.add_package("lib2".into(), FileId(DUP_TOML), true);
        g.add_dep(app, ide::Dependency { package: lib2 });
    }
    g
}

fn structural(files: &Files, filler: usize, change: &mut Change, with_graph: Option<bool>, dup: bool, one: bool, ext: bool) {
    let mut app = FileSet::default();
    let mut lib = FileSet::default();
    app.insert(FileId(0), VfsPath::new("/app/gleam.toml"));
    lib.insert(FileId(1), VfsPath::new("/lib/gleam.toml"));
    for (i, (n, _)) in files.iter().enumerate() {
        if i == 0 || one {
            // (`one`: every module belongs to the package `app` - modules of one package may import each other in a cycle)
            app.insert(FileId(MOD0 + i as u32), VfsPath::new(format!("/app/src/{n}.gleam")));
        } else if i + 1 == files.len() {
            lib.insert(FileId(MOD0 + i as u32), VfsPath::new(format!("/lib/test/{n}.gleam")));
        } else {
            lib.insert(FileId(MOD0 + i as u32), VfsPath::new(format!("/lib/src/{n}.gleam")));
        }
    }
    for k in 0..filler {
        lib.insert(FileId(100 + k as u32), VfsPath::new(format!("/lib/src/filler{k}.gleam")));
    }
    let mut roots = vec![SourceRoot::new(app, "/app".into()), SourceRoot::new(lib, "/lib".into())];
    if dup && files.len() >= 2 {
        let mut lib2 = FileSet::default();
        lib2.insert(FileId(DUP_TOML), VfsPath::new("/lib2/gleam.toml"));
        lib2.insert(FileId(DUP_MOD), VfsPath::new(format!("/lib2/src/{}.gleam", files[1].0)));
        roots.push(SourceRoot::new(lib2, "/lib2".into()));
    }
    change.set_roots(roots);
    if let Some(dep) = with_graph {
        change.set_package_graph(graph(dep, dup && files.len() >= 2, ext));
    }
}

fn fresh(files: &Files, filler: usize, dep: bool, dup: bool, one: bool, ext: bool) -> AnalysisHost {
    let mut host = AnalysisHost::new();
    let mut c = Change::default();
    c.change_file(FileId(0), "".into());
    c.change_file(FileId(1), "".into());
    for (i, (_, t)) in files.iter().enumerate() {
        c.change_file(FileId(MOD0 + i as u32), t.as_str().into());
    }
    for k in 0..filler {
        c.change_file(FileId(100 + k as u32), format!("pub fn filler{k}(x) {{ x + {k} }}\n").as_str().into());
    }
    if dup {
        c.change_file(FileId(DUP_TOML), "".into());
        c.change_file(FileId(DUP_MOD), DUP_TEXT.into());
    }
    structural(files, filler, &mut c, Some(dep), dup, one, ext);
    host.apply_change(c);
    host
}

/// The same workspace as `fresh`, delivered in two Changes the way a server may deliver it:
/// `graph_first` - the package graph arrives with the roots of the first package only (the dependency is not on disk yet),
///   the dependency's root and files follow without the graph being sent again;
/// otherwise - roots and files first, the package graph alone afterwards.
fn staged(files: &Files, filler: usize, dep: bool, dup: bool, one: bool, ext: bool, graph_first: bool) -> AnalysisHost {
    let mut host = AnalysisHost::new();
    if graph_first {
        let mut c = Change::default();
        c.change_file(FileId(0), "".into());
        if let Some((_, t)) = files.first() {
            c.change_file(FileId(MOD0), t.as_str().into());
        }
        // only the first package has a root so far: the dependency named by the graph is not on disk yet
        let mut app = FileSet::default();
        app.insert(FileId(0), VfsPath::new("/app/gleam.toml"));
        if let Some((n, _)) = files.first() {
            app.insert(FileId(MOD0), VfsPath::new(format!("/app/src/{n}.gleam")));
        }
        c.set_roots(vec![SourceRoot::new(app, "/app".into())]);
        c.set_package_graph(graph(dep, false, ext));
        host.apply_change(c);
        // something is asked in this state (what it memoises must be invalidated by the roots that follow)
        let _ = catch(|| host.snapshot().diagnostics(FileId(MOD0)));
        let _ = catch(|| { let a = host.snapshot(); queries::file_query(&a, FILE_QUERIES[FILE_QUERIES.len() - 1], FileId(MOD0), files.first().map_or(0, |f| f.1.len())) });
        let mut c = Change::default();
        c.change_file(FileId(1), "".into());
        for (i, (_, t)) in files.iter().enumerate().skip(1) {
            c.change_file(FileId(MOD0 + i as u32), t.as_str().into());
        }
        for k in 0..filler {
            c.change_file(FileId(100 + k as u32), format!("pub fn filler{k}(x) {{ x + {k} }}\n").as_str().into());
        }
        if dup {
            c.change_file(FileId(DUP_TOML), "".into());
            c.change_file(FileId(DUP_MOD), DUP_TEXT.into());
        }
        // roots only - unless the second dependency appears too (its graph node does not exist yet)
        structural(files, filler, &mut c, if dup { Some(dep) } else { None }, dup, one, ext);
        host.apply_change(c);
    } else {
        let mut c = Change::default();
        c.change_file(FileId(0), "".into());
        c.change_file(FileId(1), "".into());
        for (i, (_, t)) in files.iter().enumerate() {
            c.change_file(FileId(MOD0 + i as u32), t.as_str().into());
        }
        for k in 0..filler {
            c.change_file(FileId(100 + k as u32), format!("pub fn filler{k}(x) {{ x + {k} }}\n").as_str().into());
        }
        if dup {
            c.change_file(FileId(DUP_TOML), "".into());
            c.change_file(FileId(DUP_MOD), DUP_TEXT.into());
        }
        structural(files, filler, &mut c, None, dup, one, ext);
        host.apply_change(c);
        // something is asked before the graph is there (memoised results that the graph must invalidate)
        let _ = catch(|| host.snapshot().diagnostics(FileId(MOD0)));
        let _ = catch(|| { let a = host.snapshot(); queries::file_query(&a, FILE_QUERIES[FILE_QUERIES.len() - 1], FileId(MOD0), files.first().map_or(0, |f| f.1.len())) });
        let mut c = Change::default();
        c.set_package_graph(graph(dep, dup && files.len() >= 2, ext));
        host.apply_change(c);
    }
    host
}

/// all answers of one host, in the given order of (file, query, offset) triples
fn answers(host: &AnalysisHost, files: &Files, reverse: bool, filler: usize) -> Vec<(String, String)> {
    let a = host.snapshot();
    let mut plan: Vec<(usize, &'static str, Option<usize>)> = vec![];
    for (fi, (_, text)) in files.iter().enumerate() {
        for q in FILE_QUERIES {
            plan.push((fi, q, None));
        }
        for off in queries::boundaries(text) {
            for q in POSITION_QUERIES {
                plan.push((fi, q, Some(off)));
            }
        }
    }
    if reverse {
        plan.reverse();
    }
    let mut out: Vec<(String, String)> = plan.iter().map(|(fi, q, off)| {
        let file = FileId(MOD0 + *fi as u32);
        let r = catch(|| match off {
            Some(o) => queries::position_query(&a, q, file, *o).canon,
            None => queries::file_query(&a, q, file, files[*fi].1.len()).canon,
        });
        (format!("{fi}/{q}/{off:?}"), match r { Ok(s) => s, Err(p) => format!("PANIC {}", p) })
    }).collect();
    // touch the filler modules so that the parse LRU has to evict
    for k in 0..filler {
        let _ = catch(|| a.diagnostics(FileId(100 + k as u32)));
    }
    if reverse {
        out.reverse();
    }
    out
}

/// the text with every single-letter lowercase word (a type variable as glas displays it) renamed by first occurrence;
/// a word directly after `fn ` is a function's name and is kept
fn alpha_types(s: &str) -> String {
    let mut out = String::new();
    let mut names: Vec<char> = vec![];
    let cs: Vec<char> = s.chars().collect();
    let mut i = 0;
    while i < cs.len() {
        let c = cs[i];
        let word_start = (c.is_alphanumeric() || c == '_') && (i == 0 || !(cs[i - 1].is_alphanumeric() || cs[i - 1] == '_'));
        if word_start {
            let mut j = i;
            while j < cs.len() && (cs[j].is_alphanumeric() || cs[j] == '_') { j += 1; }
            let after_fn = i >= 3 && cs[i - 3..i] == ['f', 'n', ' '];
            if j - i == 1 && c.is_ascii_lowercase() && !after_fn {
                let k = names.iter().position(|n| *n == c).unwrap_or_else(|| { names.push(c); names.len() - 1 });
                out.push_str(&format!("'{k}"));
            } else {
                out.extend(&cs[i..j]);
            }
            i = j;
        } else {
            out.push(c);
            i += 1;
        }
    }
    out
}

/// do the `import` lines of the modules form a cycle (a self-import included)?
fn import_cycle(files: &Files) -> bool {
    let names: Vec<&str> = files.iter().map(|(n, _)| n.as_str()).collect();
    let edges: Vec<Vec<usize>> = files.iter().map(|(_, t)| {
        let w: Vec<&str> = t.split_whitespace().collect();
        let mut e = vec![];
        for k in 0..w.len() {
            if w[k] == "import" {
                if let Some(m) = w.get(k + 1) {
                    if let Some(j) = names.iter().position(|n| n == m) { e.push(j); }
                }
            }
        }
        e
    }).collect();
    for start in 0..files.len() {
        let mut seen = vec![false; files.len()];
        let mut todo = edges[start].clone();
        while let Some(x) = todo.pop() {
            if x == start { return true; }
            if !seen[x] { seen[x] = true; todo.extend(edges[x].iter().copied()); }
        }
    }
    false
}

fn main() {
    quiet_panics();
    let args: Vec<String> = std::env::args().collect();
    let arg = |name: &str| args.iter().position(|a| a == name).and_then(|i| args.get(i + 1)).cloned();
    let threads: usize = arg("--threads").and_then(|s| s.parse().ok()).unwrap_or(16);
    let filler: usize = arg("--filler").and_then(|s| s.parse().ok()).unwrap_or(0);
    let seed: u64 = std::env::var("VERIF_SEED").ok().and_then(|s| s.parse().ok()).unwrap_or(1);
    let cases: Vec<Value> = std::io::stdin().lock().lines().filter_map(|l| {
        let l = l.unwrap();
        if l.trim().is_empty() { None } else { Some(serde_json::from_str(&l).expect("case json")) }
    }).collect();
    let cases = Arc::new(cases);
    let next = Arc::new(AtomicUsize::new(0));
    let results = Arc::new(Mutex::new(Vec::<Value>::new()));
    let totals = Arc::new(Mutex::new((0u64, 0u64, 0u64, 0u64, 0u64)));
    let mut hs = vec![];
    for _ in 0..threads {
        let (cases, next, results, totals) = (cases.clone(), next.clone(), results.clone(), totals.clone());
        hs.push(std::thread::Builder::new().stack_size(256 << 20).spawn(move || loop {
            let ci = next.fetch_add(1, Ordering::Relaxed);
            if ci >= cases.len() {
                break;
            }
            let case = &cases[ci];
            let mut rng = Rng::new(seed ^ (ci as u64).wrapping_mul(31337));
            let hist = case["hist"].as_array().unwrap();
            let mut local: Vec<Value> = vec![];
            let (mut steps, mut compared, mut interleaved, mut batched) = (0u64, 0u64, 0u64, 0u64);
            let r = catch(|| {
                let mut files = files_of(&hist[0]["files"]);
                let mut dep = hist[0]["dep"].as_bool().unwrap_or(true);
                let mut dup = hist[0]["dup"].as_bool().unwrap_or(false);
                let mut one = hist[0]["one"].as_bool().unwrap_or(false);
                let mut ext = hist[0]["ext"].as_bool().unwrap_or(false);
                let mut host = fresh(&files, filler, dep, dup, one, ext);
                // the long-lived analysis has answered everything about the initial workspace before the first change
                // (memoised results exist that the change must invalidate)
                let warm = answers(&host, &files, false, filler);
                // `check_seed`: the initial workspace itself is compared too (answers must not depend on the order of
                // the queries or on the instance: fresh, fresh asked in reverse order, and the warm one)
                if case["check_seed"].as_bool().unwrap_or(false) {
                    let f1 = answers(&fresh(&files, filler, dep, dup, one, ext), &files, false, filler);
                    let f2 = answers(&fresh(&files, filler, dep, dup, one, ext), &files, true, filler);
                    // the same workspace delivered in stages (graph first / roots first) must answer like the one delivered at once
                    for graph_first in [true, false] {
                        let st = answers(&staged(&files, filler, dep, dup, one, ext, graph_first), &files, false, filler);
                        compared += st.len() as u64;
                        if let Some(((k, a), (_, b))) = st.iter().zip(f1.iter()).find(|((_, a), (_, b))| a != b) {
                            local.push(json!({"kind": "mismatch", "prop": "C11", "features": {"what": "workspace delivered in stages differs from fresh", "query": k.split('/').nth(1), "op": "seed",
                                    "stage_order": if graph_first { "graph, then the dependency's root" } else { "roots and files, then the graph" },
                                    "alpha_equivalent": alpha_types(a) == alpha_types(b), "import_cycle": import_cycle(&files)},
                                "detail": {"case": case, "step": 0, "query": k, "staged": a.chars().take(400).collect::<String>(), "fresh": b.chars().take(400).collect::<String>()}}));
                        }
                    }
                    compared += warm.len() as u64;
                    steps += 1;
                    for (((k, a), (_, b)), (_, c2)) in warm.iter().zip(f1.iter()).zip(f2.iter()) {
                        if a != b || b != c2 {
                            let what = if b != c2 { "fresh analyses disagree (query order)" } else { "long-lived analysis differs from fresh" };
                            let alpha_equivalent = alpha_types(a) == alpha_types(b) && alpha_types(b) == alpha_types(c2);
                            local.push(json!({"kind": "mismatch", "prop": "C11", "features": {"what": what, "query": k.split('/').nth(1), "op": "seed",
                                    "alpha_equivalent": alpha_equivalent, "import_cycle": import_cycle(&files)},
                                "detail": {"case": case, "step": 0, "query": k, "long_lived": a.chars().take(400).collect::<String>(),
                                           "fresh": b.chars().take(400).collect::<String>(), "fresh_reverse": c2.chars().take(400).collect::<String>()}}));
                            break;
                        }
                    }
                }
                let mut pending = Change::default();
                for (si, st) in hist.iter().enumerate().skip(1) {
                    let op = &st["op"];
                    let kind = op["k"].as_str().unwrap();
                    if kind == "query" {
                        // a query in between, on the long-lived host only
                        let fi = op["f"].as_u64().unwrap() as usize - 1;
                        if let Some((_, text)) = files.get(fi) {
                            let b = queries::boundaries(text);
                            let off = b[(op["i"].as_u64().unwrap() as usize).min(b.len() - 1)];
                            let q = op["x"].as_str().unwrap();
                            let a = host.snapshot();
                            let file = FileId(MOD0 + fi as u32);
                            let _ = catch(|| {
                                if let Some(pq) = POSITION_QUERIES.iter().find(|p| **p == q) { queries::position_query(&a, pq, file, off); }
                                else if let Some(fq) = FILE_QUERIES.iter().find(|p| **p == q) { queries::file_query(&a, fq, file, text.len()); }
                            });
                            interleaved += 1;
                        }
                        continue;
                    }
                    let new_files = files_of(&st["files"]);
                    let new_dep = st["dep"].as_bool().unwrap_or(dep);
                    let new_dup = st["dup"].as_bool().unwrap_or(dup);
                    let new_one = st["one"].as_bool().unwrap_or(one);
                    let new_ext = st["ext"].as_bool().unwrap_or(ext);
                    // the change, built the way the server builds it: changed files only; roots when a file appears;
                    // the package graph alone when only a dependency edge changed
                    let mut c = std::mem::take(&mut pending);
                    for (i, (_, t)) in new_files.iter().enumerate() {
                        if files.get(i).map(|(_, old)| old != t).unwrap_or(true) {
                            c.change_file(FileId(MOD0 + i as u32), t.as_str().into());
                        }
                    }
                    if (new_dep != dep || new_ext != ext) && new_dup == dup {
                        c.set_package_graph(graph(new_dep, dup && new_files.len() >= 2, new_ext));
                    }
                    let renamed = new_files.iter().zip(files.iter()).any(|((n, _), (o, _))| n != o);
                    if new_one != one {
                        // the library modules move into the package `app` or back: the roots are replaced (same files, new paths)
                        if new_dup && !dup {
                            c.change_file(FileId(DUP_TOML), "".into());
                            c.change_file(FileId(DUP_MOD), DUP_TEXT.into());
                        }
                        structural(&new_files, filler, &mut c, Some(new_dep), new_dup, new_one, new_ext);
                    } else if new_dup != dup {
                        // the second dependency appears / disappears: its files, the roots and the graph in one change
                        if new_dup {
                            c.change_file(FileId(DUP_TOML), "".into());
                            c.change_file(FileId(DUP_MOD), DUP_TEXT.into());
                        }
                        structural(&new_files, filler, &mut c, Some(new_dep), new_dup, one, new_ext);
                    } else if new_files.len() != files.len() || renamed {
                        structural(&new_files, filler, &mut c, if rng.chance(1, 2) || dup { Some(new_dep) } else { None }, dup, one, new_ext);
                    } else if new_dep == dep && new_ext == ext && rng.chance(1, 6) {
                        structural(&new_files, filler, &mut c, if rng.chance(1, 2) { Some(new_dep) } else { None }, dup, one, new_ext);   // roots / graph replaced by equal ones
                    }
                    // batched with the next edit: the analysis gets both in one change (several contents for one file)
                    if st["batched"].as_bool().unwrap_or(false) && si + 1 < hist.len() && hist[si + 1]["op"]["k"] != "query" {
                        pending = c;
                        files = new_files;
                        dep = new_dep;
                        dup = new_dup;
                        one = new_one;
                        ext = new_ext;
                        batched += 1;
                        continue;
                    }
                    host.apply_change(c);
                    files = new_files;
                    dep = new_dep;
                    dup = new_dup;
                    one = new_one;
                    ext = new_ext;
                    steps += 1;
                    let long = answers(&host, &files, false, filler);
                    let f1 = answers(&fresh(&files, filler, dep, dup, one, ext), &files, false, filler);
                    let f2 = answers(&fresh(&files, filler, dep, dup, one, ext), &files, true, filler);
                    compared += long.len() as u64;
                    for (((k, a), (_, b)), (_, c2)) in long.iter().zip(f1.iter()).zip(f2.iter()) {
                        if a != b || b != c2 {
                            let what = if b != c2 { "fresh analyses disagree (query order)" } else { "long-lived analysis differs from fresh" };
                            // do the answers differ only in the letters chosen for type variables?  is there an import cycle?
                            let alpha_equivalent = alpha_types(a) == alpha_types(b) && alpha_types(b) == alpha_types(c2);
                            local.push(json!({"kind": "mismatch", "prop": "C11", "features": {"what": what, "query": k.split('/').nth(1), "op": kind,
                                    "alpha_equivalent": alpha_equivalent, "import_cycle": import_cycle(&files)},
                                "detail": {"case": case, "step": si, "query": k, "long_lived": a.chars().take(400).collect::<String>(),
                                           "fresh": b.chars().take(400).collect::<String>(), "fresh_reverse": c2.chars().take(400).collect::<String>()}}));
                            break;
                        }
                    }
                    if !local.is_empty() {
                        break;
                    }
                }
            });
            if let Err(p) = r {
                local.push(json!({"kind": "mismatch", "prop": "C11", "features": {"what": "panic", "panic": p}, "detail": {"case": case}}));
            }
            let mut t = totals.lock().unwrap();
            t.0 += 1;
            t.1 += steps;
            t.2 += compared;
            t.3 += interleaved;
            t.4 += batched;
            drop(t);
            results.lock().unwrap().extend(local);
        }).unwrap());
    }
    for h in hs {
        h.join().unwrap();
    }
    let so = std::io::stdout();
    let mut so = so.lock();
    for r in results.lock().unwrap().iter().take(50) {
        writeln!(so, "{r}").unwrap();
    }
    let t = totals.lock().unwrap();
    writeln!(so, "{}", json!({"kind": "summary", "histories": t.0, "steps": t.1, "answers_compared": t.2, "interleaved_queries": t.3, "batched_edits": t.4,
        "mismatches": results.lock().unwrap().len()})).unwrap();
}
