//! C14 replay: TLC-emitted (document, boundary table) cases against glas' LineMap.
//! stdin: one JSON case per line {"doc":[..],"tab":[{"b","l","c"},..]}; stdout: ndjson results.
use glas::verif::{from_pos, to_range, LineMap};
use lsp_types::{Position, Range};
use serde_json::{json, Value};
use std::io::{BufRead, Write};
use text_size::{TextRange, TextSize};
use verif_harness::util::{catch, quiet_panics, Rng};

fn render(doc: &[String], rng: &mut Rng) -> String {
    let mut s = String::new();
    for c in doc {
        let alts: &[&str] = match c.as_str() {
            "a" => &["a", "Z", " ", "\t", "_", "0"],
            "nl" => &["\n"],
            "c2" => &["ß", "é", "\u{80}", "\u{7ff}", "\u{a0}"],
            "c3" => &["ℝ", "中", "\u{800}", "\u{ffff}", "\u{feff}", "\u{2028}"],
            "c4" => &["💣", "𝒳", "\u{10000}", "\u{10ffff}"],
            other => panic!("unknown char class {other}"),
        };
        s.push_str(alts[rng.below(alts.len())]);
    }
    s
}

fn main() {
    quiet_panics();
    let seed: u64 = std::env::var("VERIF_SEED").ok().and_then(|s| s.parse().ok()).unwrap_or(1);
    let mut rng = Rng::new(seed);
    let stdin = std::io::stdin();
    let out = std::io::stdout();
    let mut out = out.lock();
    let (mut cases, mut checks, mut nontrivial, mut mismatches) = (0u64, 0u64, 0u64, 0u64);
    let mut samples: Vec<Value> = vec![];
    for line in stdin.lock().lines() {
        let line = line.unwrap();
        if line.trim().is_empty() {
            continue;
        }
        let v: Value = serde_json::from_str(&line).expect("case json");
        let doc: Vec<String> = v["doc"].as_array().map(|a| a.iter().map(|x| x.as_str().unwrap().to_string()).collect()).unwrap_or_default();
        let tab: Vec<(u32, u32, u32)> = v["tab"].as_array().unwrap().iter()
            .map(|r| (r["b"].as_u64().unwrap() as u32, r["l"].as_u64().unwrap() as u32, r["c"].as_u64().unwrap() as u32)).collect();
        let text = match v["text"].as_str() { Some(t) => t.to_string(), None => render(&doc, &mut rng) };
        cases += 1;
        if doc.iter().any(|c| c != "a") {
            nontrivial += 1;
        }
        if samples.len() < 4 && doc.len() >= 3 && doc.iter().any(|c| c == "c4") {
            samples.push(json!({"doc": doc, "text": text, "tab": v["tab"]}));
        }
        let res = catch(|| {
            let mut bad: Vec<Value> = vec![];
            let (norm, lm) = LineMap::verif_new(text.clone());
            if norm != text {
                bad.push(json!({"what": "normalize changed a CR-free text"}));
            }
            let n = tab.len();
            for (i, &(b, l, c)) in tab.iter().enumerate() {
                let got = lm.line_col_for_pos(TextSize::from(b));
                if got != (l, c) {
                    bad.push(json!({"what": "line_col_for_pos", "boundary": i, "byte": b, "expected": [l, c], "got": [got.0, got.1]}));
                }
                let back = u32::from(lm.pos_for_line_col(l, c));
                if back != b {
                    bad.push(json!({"what": "pos_for_line_col", "boundary": i, "pos": [l, c], "expected": b, "got": back}));
                }
                match from_pos(&lm, Position::new(l, c)) {
                    Ok(p) if u32::from(p) == b => {}
                    other => bad.push(json!({"what": "from_pos", "boundary": i, "got": format!("{other:?}")})),
                }
            }
            // all ordered pairs (sampled for long documents)
            let pairs: Vec<(usize, usize)> = if n <= 12 {
                (0..n).flat_map(|i| (i..n).map(move |j| (i, j))).collect()
            } else {
                let mut r = Rng::new(b_hash(&text));
                (0..400).map(|_| { let i = r.below(n); let j = i + r.below(n - i); (i, j) }).collect()
            };
            let mut npairs = 0u64;
            for (i, j) in pairs {
                let (bi, li, ci) = tab[i];
                let (bj, lj, cj) = tab[j];
                let got = to_range(&lm, TextRange::new(bi.into(), bj.into()));
                let exp = Range::new(Position::new(li, ci), Position::new(lj, cj));
                npairs += 1;
                if got != exp {
                    bad.push(json!({"what": "to_range", "pair": [i, j], "expected": format!("{exp:?}"), "got": format!("{got:?}")}));
                }
            }
            (bad, n as u64 * 3 + npairs)
        });
        match res {
            Ok((bad, k)) => {
                checks += k;
                if !bad.is_empty() {
                    mismatches += 1;
                    writeln!(out, "{}", json!({"kind": "mismatch", "features": {"what": bad[0]["what"], "classes": classes(&doc)},
                        "detail": {"case": {"doc": doc, "tab": v["tab"], "text": text}, "bad": bad.iter().take(5).collect::<Vec<_>>()}})).unwrap();
                }
            }
            Err(p) => {
                mismatches += 1;
                writeln!(out, "{}", json!({"kind": "mismatch", "features": {"what": "panic", "panic": p},
                    "detail": {"case": {"doc": doc, "tab": v["tab"], "text": text}}})).unwrap();
            }
        }
    }
    writeln!(out, "{}", json!({"kind": "summary", "cases": cases, "checks": checks,
        "distinct_nontrivial": nontrivial, "mismatches": mismatches, "samples": samples})).unwrap();
}

fn classes(doc: &[String]) -> String {
    let mut s: Vec<&str> = doc.iter().map(|x| x.as_str()).collect();
    s.sort();
    s.dedup();
    s.join("+")
}

fn b_hash(s: &str) -> u64 {
    s.bytes().fold(1469598103934665603u64, |h, b| (h ^ b as u64).wrapping_mul(1099511628211))
}
