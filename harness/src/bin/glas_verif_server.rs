//! The real language server (glas::run_server_stdio), built from /repo's tree with hooks on.
//! Same start-up as crates/glas/src/main.rs minus argument parsing and logging set-up.
fn main() {
    if std::env::var("RUST_BACKTRACE").is_err() {
        std::env::set_var("RUST_BACKTRACE", "0");
    }
    let ret = tokio::runtime::Builder::new_current_thread()
        .enable_all()
        .build()
        .expect("Failed to spawn tokio runtime")
        .block_on(glas::run_server_stdio());
    match ret {
        Ok(()) => {}
        Err(err) => {
            eprintln!("Unexpected error: {err:#}");
            std::process::exit(101);
        }
    }
}
