//! C18 replay of spec/Fields.tla: for every family of variants the completion after `value.` must offer exactly the
//! fields the value's type has (every variant, same type).
//!   fieldcheck < cases.ndjson      case: {"vs": [[{"l": "x"|"y"|"", "ty": "Int"|"Float"}, ..], ..], "common": ["x", ..]}
use ide::{FileId, FilePos};
use serde_json::json;
use std::io::Write;
use verif_harness::util::{catch, quiet_panics, CaseStream, Results};
use verif_harness::workspace;

fn main() {
    quiet_panics();
    let cases = CaseStream::stdin();
    let results = Results::new(3);
    let n = std::sync::Arc::new(std::sync::atomic::AtomicUsize::new(0));
    let mut hs = vec![];
    for _ in 0..8 {
        let (cases, results, n) = (cases.clone(), results.clone(), n.clone());
        hs.push(std::thread::spawn(move || {
            while let Some((_, case)) = cases.next() {
                let names = ["A", "B", "C"];
                let mut text = String::from("pub type R {\n");
                for (vi, v) in case["vs"].as_array().unwrap().iter().enumerate() {
                    let fs: Vec<String> = v.as_array().unwrap().iter().map(|f| {
                        let (l, ty) = (f["l"].as_str().unwrap(), f["ty"].as_str().unwrap());
                        if l.is_empty() { ty.to_string() } else { format!("{l}: {ty}") }
                    }).collect();
                    if fs.is_empty() { text.push_str(&format!("  {}\n", names[vi])); } else { text.push_str(&format!("  {}({})\n", names[vi], fs.join(", "))); }
                }
                text.push_str("}\n\npub fn f(r: R) {\n  r.");
                let off = text.len();
                text.push_str("\n}\n");
                let mut exp: Vec<String> = case["common"].as_array().unwrap().iter().map(|x| x.as_str().unwrap().to_string()).collect();
                exp.sort();
                let r = catch(|| {
                    let ws = workspace::single_package(&[("m1", &text)]);
                    let a = ws.host.snapshot();
                    let items = a.completions(FilePos::new(FileId(0), (off as u32).into()), Some('.')).unwrap().unwrap_or_default();
                    let mut got: Vec<String> = items.iter().map(|i| i.label.to_string()).collect();
                    got.sort();
                    got
                });
                n.fetch_add(1, std::sync::atomic::Ordering::Relaxed);
                let bad = match r {
                    Ok(got) if got == exp => None,
                    Ok(got) => Some(json!({"what": "record fields (Fields.tla)", "missing": exp.iter().filter(|e| !got.contains(e)).collect::<Vec<_>>(),
                                           "extra": got.iter().filter(|g| !exp.contains(g)).collect::<Vec<_>>(), "got": got})),
                    Err(p) => Some(json!({"what": "panic", "panic": p})),
                };
                if let Some(b) = bad {
                    results.extend(vec![json!({"kind": "mismatch", "prop": "C18", "features": {"what": b["what"], "missing": b["missing"], "extra": b["extra"]},
                        "detail": {"case": case, "text": text, "expected": exp, "bad": b}})]);
                }
            }
        }));
    }
    for h in hs { h.join().unwrap(); }
    let so = std::io::stdout();
    let mut so = so.lock();
    let (counts, _) = results.emit(&mut so);
    writeln!(so, "{}", json!({"kind": "summary", "families": n.load(std::sync::atomic::Ordering::Relaxed), "mismatch_classes": counts})).unwrap();
}
