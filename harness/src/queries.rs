//! Every IDE query the analysis offers, with a canonical rendering of the answer (for C11's
//! equality) and the ranges it reports (for C20's monitor).
use ide::{Analysis, FileId, FilePos, GotoDefinitionResult};
use syntax::TextRange;

/// A reported range with the role it plays in the answer.
#[derive(Debug, Clone, PartialEq, Eq, PartialOrd, Ord)]
pub struct RangeRec {
    pub kind: &'static str,
    pub file: u32,
    pub start: usize,
    pub end: usize,
    /// for focus ranges: the enclosing full range
    pub outer: Option<(usize, usize)>,
}

pub struct Answer {
    pub kind: &'static str,
    /// canonical text of the answer; order-insensitive where the API promises no order
    pub canon: String,
    pub ranges: Vec<RangeRec>,
}

fn rr(kind: &'static str, file: FileId, r: TextRange) -> RangeRec {
    RangeRec { kind, file: file.0, start: r.start().into(), end: r.end().into(), outer: None }
}

pub const POSITION_QUERIES: &[&str] = &["hover", "goto", "references", "highlight", "completion", "completion_dot", "completion_at",
    "signature_help", "prepare_rename", "rename_lower", "rename_upper"];
pub const FILE_QUERIES: &[&str] = &["diagnostics", "syntax_tree", "semantic_full", "semantic_range"];

/// One position query. Panics propagate (the caller catches them).
pub fn position_query(a: &Analysis, kind: &'static str, file: FileId, off: usize) -> Answer {
    let pos = FilePos::new(file, (off as u32).into());
    let mut ranges = vec![];
    let canon = match kind {
        "hover" => {
            let h = a.hover(pos).unwrap();
            if let Some(h) = &h {
                ranges.push(rr("hover", file, h.range));
            }
            format!("{h:?}")
        }
        "goto" => {
            let g = a.goto_definition(pos).unwrap();
            if let Some(GotoDefinitionResult::Targets(ts)) = &g {
                for n in ts {
                    ranges.push(rr("goto_full", n.file_id, n.full_range));
                    let mut f = rr("goto_focus", n.file_id, n.focus_range);
                    f.outer = Some((n.full_range.start().into(), n.full_range.end().into()));
                    ranges.push(f);
                }
            }
            format!("{g:?}")
        }
        "references" => {
            let r = a.references(pos).unwrap();
            match r {
                None => "None".into(),
                Some(v) => {
                    let mut s: Vec<String> = v.iter().map(|fr| {
                        ranges.push(rr("reference", fr.file_id, fr.range));
                        format!("{}:{:?}", fr.file_id.0, fr.range)
                    }).collect();
                    s.sort();
                    format!("Some({s:?})")
                }
            }
        }
        "highlight" => {
            let v = a.highlight_related(pos).unwrap();
            let mut s: Vec<String> = v.iter().map(|h| {
                ranges.push(rr("highlight", file, h.range));
                format!("{h:?}")
            }).collect();
            s.sort();
            format!("{s:?}")
        }
        "completion" | "completion_dot" | "completion_at" => {
            let trig = match kind { "completion_dot" => Some('.'), "completion_at" => Some('@'), _ => None };
            match a.completions(pos, trig).unwrap() {
                None => "None".into(),
                Some(v) => {
                    let mut s: Vec<String> = v.iter().map(|i| {
                        ranges.push(rr("completion_source", file, i.source_range));
                        format!("{i:?}")
                    }).collect();
                    s.sort();
                    format!("Some({s:?})")
                }
            }
        }
        "signature_help" => format!("{:?}", a.signature_help(pos).unwrap()),
        "prepare_rename" => {
            let r = a.prepare_rename(pos).unwrap();
            if let Ok((range, _)) = &r {
                ranges.push(rr("prepare_rename", file, *range));
            }
            format!("{r:?}")
        }
        "rename_lower" | "rename_upper" => {
            let r = a.rename(pos, if kind == "rename_lower" { "zz9" } else { "Zz9" }).unwrap();
            match r {
                Err(e) => format!("Err({e:?})"),
                Ok(we) => {
                    let mut s: Vec<String> = vec![];
                    for (f, es) in we.content_edits.iter() {
                        for e in es {
                            ranges.push(rr("rename_edit", *f, e.delete));
                            s.push(format!("{}:{:?}->{:?}", f.0, e.delete, e.insert));
                        }
                    }
                    s.sort();
                    format!("Ok({s:?})")
                }
            }
        }
        o => panic!("unknown position query {o}"),
    };
    Answer { kind, canon, ranges }
}

pub fn file_query(a: &Analysis, kind: &'static str, file: FileId, len: usize) -> Answer {
    let mut ranges = vec![];
    let canon = match kind {
        "diagnostics" => {
            let d = a.diagnostics(file).unwrap();
            for x in &d {
                ranges.push(rr("diagnostic", file, x.range));
                for (fr, _) in &x.notes {
                    ranges.push(rr("diagnostic_note", fr.file_id, fr.range));
                }
            }
            format!("{d:?}")
        }
        "syntax_tree" => a.syntax_tree(file).unwrap(),
        "semantic_full" => {
            let h = a.syntax_highlight(file, None).unwrap();
            for x in &h {
                ranges.push(rr("semantic", file, x.range));
            }
            format!("{h:?}")
        }
        "semantic_range" => {
            let r = TextRange::new(((len / 3) as u32).into(), ((len - len / 3) as u32).into());
            let h = a.syntax_highlight(file, Some(r)).unwrap();
            for x in &h {
                ranges.push(rr("semantic", file, x.range));
            }
            format!("{h:?}")
        }
        o => panic!("unknown file query {o}"),
    };
    Answer { kind, canon, ranges }
}

/// Token boundaries of a text: start of every lexer token plus the end of the text, on char boundaries.
pub fn boundaries(text: &str) -> Vec<usize> {
    let mut v: Vec<usize> = syntax::lexer::GleamLexer::new(text).map(|t| usize::from(t.range.start())).collect();
    v.push(text.len());
    v.dedup();
    v
}
