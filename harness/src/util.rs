/// splitmix64: tiny deterministic PRNG so that no extra crate is needed.
#[derive(Clone)]
pub struct Rng(pub u64);
impl Rng {
    pub fn new(seed: u64) -> Self {
        Rng(seed.wrapping_mul(0x9E3779B97F4A7C15).wrapping_add(0x1234_5678_9abc_def1))
    }
    pub fn next(&mut self) -> u64 {
        self.0 = self.0.wrapping_add(0x9E3779B97F4A7C15);
        let mut z = self.0;
        z = (z ^ (z >> 30)).wrapping_mul(0xBF58476D1CE4E5B9);
        z = (z ^ (z >> 27)).wrapping_mul(0x94D049BB133111EB);
        z ^ (z >> 31)
    }
    pub fn below(&mut self, n: usize) -> usize {
        if n == 0 { 0 } else { (self.next() % n as u64) as usize }
    }
    pub fn chance(&mut self, num: u64, den: u64) -> bool {
        self.next() % den < num
    }
}

/// Run `f` with panics caught; returns Err(message) on panic. The default panic hook
/// is silenced for the duration by the caller (see `quiet_panics`).
pub fn catch<T>(f: impl FnOnce() -> T) -> Result<T, String> {
    match std::panic::catch_unwind(std::panic::AssertUnwindSafe(f)) {
        Ok(v) => Ok(v),
        Err(p) => {
            let msg = p
                .downcast_ref::<String>()
                .cloned()
                .or_else(|| p.downcast_ref::<&str>().map(|s| s.to_string()))
                .unwrap_or_else(|| "unknown panic".into());
            let loc = LAST_PANIC_LOC.with(|l| l.borrow().clone());
            Err(format!("{msg} @ {loc}"))
        }
    }
}

thread_local! {
    pub static LAST_PANIC_LOC: std::cell::RefCell<String> = std::cell::RefCell::new(String::new());
}

/// Install a panic hook that records the location instead of printing.
pub fn quiet_panics() {
    std::panic::set_hook(Box::new(|info| {
        let loc = info
            .location()
            .map(|l| format!("{}:{}", l.file(), l.line()))
            .unwrap_or_default();
        LAST_PANIC_LOC.with(|l| *l.borrow_mut() = loc);
    }));
}


/// Shared, streaming reader of ndjson cases on stdin: workers pull (index, case) one at a time, so millions of cases
/// never sit in memory together.
pub struct CaseStream {
    inner: std::sync::Mutex<(usize, std::io::Lines<std::io::BufReader<std::io::Stdin>>)>,
}
impl CaseStream {
    pub fn stdin() -> std::sync::Arc<Self> {
        use std::io::BufRead;
        std::sync::Arc::new(CaseStream { inner: std::sync::Mutex::new((0, std::io::BufReader::with_capacity(1 << 20, std::io::stdin()).lines())) })
    }
    pub fn next(&self) -> Option<(usize, serde_json::Value)> {
        let line = {
            let mut g = self.inner.lock().unwrap();
            let mut found = None;
            while let Some(l) = g.1.next() {
                let l = l.expect("stdin");
                if !l.trim().is_empty() {
                    found = Some(l);
                    break;
                }
            }
            let l = found?;
            let i = g.0;
            g.0 += 1;
            (i, l)
        };
        Some((line.0, serde_json::from_str(&line.1).expect("case json")))
    }
    pub fn count(&self) -> usize {
        self.inner.lock().unwrap().0
    }
}

/// Mismatch records grouped by their feature vector: at most `keep` records per class are stored, all are counted.
pub struct Results {
    keep: usize,
    inner: std::sync::Mutex<std::collections::BTreeMap<String, (usize, Vec<serde_json::Value>)>>,
}
impl Results {
    pub fn new(keep: usize) -> std::sync::Arc<Self> {
        std::sync::Arc::new(Results { keep, inner: Default::default() })
    }
    pub fn extend(&self, recs: Vec<serde_json::Value>) {
        if recs.is_empty() {
            return;
        }
        let mut g = self.inner.lock().unwrap();
        for r in recs {
            let e = g.entry(format!("{}|{}", r["prop"], r["features"])).or_default();
            e.0 += 1;
            if e.1.len() < self.keep {
                e.1.push(r);
            }
        }
    }
    /// writes the stored records, returns [[features, count], ..] and the total
    pub fn emit(&self, out: &mut dyn std::io::Write) -> (Vec<serde_json::Value>, usize) {
        let g = self.inner.lock().unwrap();
        let mut counts = vec![];
        let mut total = 0;
        for (_, (n, rs)) in g.iter() {
            total += n;
            if let Some(r) = rs.first() {
                counts.push(serde_json::json!([r["features"].to_string(), n]));
            }
            for r in rs {
                writeln!(out, "{r}").unwrap();
            }
        }
        (counts, total)
    }
}
