/// splitmix64: tiny deterministic PRNG so that no extra crate is needed.
#[derive(Clone)]
pub struct Rng(pub u64);
impl Rng {
    pub fn new(seed: u64) -> Self {
        Rng(seed.wrapping_mul(0x9E3779B97F4A7C15).wrapping_add(0x1234_5678_9abc_def1))
    }
    pub fn next(&mut self) -> u64 {
        self.0 = self.0.wrapping_add(0x9E3779B97F4A7C15);
        let mut z = self.0;
        z = (z ^ (z >> 30)).wrapping_mul(0xBF58476D1CE4E5B9);
        z = (z ^ (z >> 27)).wrapping_mul(0x94D049BB133111EB);
        z ^ (z >> 31)
    }
    pub fn below(&mut self, n: usize) -> usize {
        if n == 0 { 0 } else { (self.next() % n as u64) as usize }
    }
    pub fn chance(&mut self, num: u64, den: u64) -> bool {
        self.next() % den < num
    }
}

/// Run `f` with panics caught; returns Err(message) on panic. The default panic hook
/// is silenced for the duration by the caller (see `quiet_panics`).
pub fn catch<T>(f: impl FnOnce() -> T) -> Result<T, String> {
    match std::panic::catch_unwind(std::panic::AssertUnwindSafe(f)) {
        Ok(v) => Ok(v),
        Err(p) => {
            let msg = p
                .downcast_ref::<String>()
                .cloned()
                .or_else(|| p.downcast_ref::<&str>().map(|s| s.to_string()))
                .unwrap_or_else(|| "unknown panic".into());
            let loc = LAST_PANIC_LOC.with(|l| l.borrow().clone());
            Err(format!("{msg} @ {loc}"))
        }
    }
}

thread_local! {
    pub static LAST_PANIC_LOC: std::cell::RefCell<String> = std::cell::RefCell::new(String::new());
}

/// Install a panic hook that records the location instead of printing.
pub fn quiet_panics() {
    std::panic::set_hook(Box::new(|info| {
        let loc = info
            .location()
            .map(|l| format!("{}:{}", l.file(), l.line()))
            .unwrap_or_default();
        LAST_PANIC_LOC.with(|l| *l.borrow_mut() = loc);
    }));
}
