#!/usr/bin/env python3
"""Regenerates /verif/MANIFEST.json from the table below (single source of truth for what is claimed)."""
import json, os, subprocess
V = os.path.dirname(os.path.dirname(os.path.abspath(__file__)))

# property -> (technique, level text, level note, design ref)   -- only properties with a working check
CLAIMED = {
 "C14": ("TLA+ reference semantics (Positions.tla) model-checked by TLC; every TLC-enumerated document replayed into the real LineMap (spec->impl conformance)",
         "TLC enumerates every document over {ASCII, LF, 2-/3-/4-byte} up to the bound with the boundary table an LSP client computes, checks the reference's own theorems (injective, strictly monotone, operational table = declarative definition) and every enumerated document is replayed into glas' LineMap at every boundary and every ordered pair of boundaries; long documents by TLC simulation of the same spec. Exhaustive within the bound, sampled beyond.",
         "trusts TLC/SANY, the Json module, the harness' rendering of character classes to code points and equality comparison", "4 C14, 3.6"),
 "C13": ("TLA+ state machine of client/server text synchronisation (DocSync.tla) model-checked by TLC (invariant InSync); every TLC transition replayed into the real Vfs through the hook and TLC-simulated histories replayed black-box into the real server binary",
         "TLC checks server = StripCR(client) for every document up to the bound x every valid (start,end) position pair x every short replacement (single edits exhaustive, two changes per notification on a smaller bound) and prints one case per transition; each is applied to glas' Vfs exactly as on_did_change does and the stored text compared after every content change. TLC-simulated 10-notification histories are additionally played against the real server process (disk content equal to / different from the opened text) and the text read back through glas/syntaxTree after every notification.",
         "hook-level replay mirrors the loop of on_did_change (from_range + change_file_content); the black-box sessions cover the real loop. Read-back through glas/syntaxTree relies on C01.", "4 C13, 3.6"),
 "C19": ("TLA+ specification of the LSP relative token encoding and its decoder (SemTokens.tla) model-checked by TLC; every enumerated (document, highlight list) replayed into the real encoder through the hook",
         "TLC checks Decode(Encode(P)) = P, strict increase, non-overlap and in-line bounds on all documents up to the bound with multi-byte characters before/inside highlighted ranges x all sorted single-line highlight lists x tags, and emits for each the array a conforming encoder must produce; glas' to_semantic_tokens is run on each and compared verbatim (exhaustive within the bound).",
         "covers the encoder for arbitrary highlight lists; which identifiers the analysis highlights on real programs is checked with the scoping generator (added when GleamGen lands)", "4 C19, 3.6"),
 "C01": ("TLA+ model of the event-stream tree builder (TreeBuilder.tla) model-checked by TLC; TLC-enumerated inputs (ParseTotal.tla) parsed by the real parser; recorded builder traces validated against TreeBuilder by TLC (Trace_TreeBuilder.tla)",
         "TLC proves on the design (all raw token sequences <= 5 x all event streams satisfying the parser's contract) that the builder emits every raw token exactly once in order; TLC enumerates all token-kind sequences <=2 over the 70 lexer kinds / <=3 over representative classes and all strings <=3 over 30 characters, each placed in 21 syntactic contexts (plus corpus prefixes, CRLF, soup): the real tree's leaves must concatenate to the input with contiguous non-empty ranges; 1500+ recorded event/cursor traces of real parses are accepted by the trace specification (contract: one Advance per non-trivia token, balanced; rule: only trivia on Open/Close, trivia* + one token on Advance, full flush at the end).",
         "trusts TLC, the rendering of kinds to spellings, rowan's token iteration; exhaustive only within the stated lengths", "4 C01, 3.2"),
 "C02": ("TLC-enumerated adversarial inputs (ParseTotal.tla: token/character sequences, nesting towers, chains) executed against the real parser with panic/abort/timeout observation; TLC model of the fuel/depth progress guard",
         "every enumerated input (same spaces as C01, plus towers opener^n for 20 recursive constructs up to 10^4 quick / 10^6 thorough and left-nested chains up to 10^5, each in a child process) must return; observable returned/panicked/aborted/timeout. The abstract progress model (look-ahead burns fuel, unwinding at end of input consumes nothing) is model-checked: the guard is safe below F/U open levels and TLC exhibits the counterexample above it.",
         "a parse running longer than 20 s in-process / 120 s in a tower child counts as non-termination; tree building is quadratic in chain length today, so chain heights stop at 10^5", "4 C02, 3.5"),
 "C05": ("TLA+ reference semantics of Gleam scoping as a pushdown generator with an explicit scope stack (GleamGen.tla), invariants model-checked by TLC; every TLC-generated program replayed into the real analysis (goto_definition at every identifier)",
         "TLC checks on every reachable generator state that the operational scope stack agrees with a declarative restatement of the scoping rule (a let/use binder is invisible in its own initialiser, bindings do not escape their function/lambda/clause/block), and emits every program of a small BFS budget plus seeded simulations; each program (2 modules, names from a pool of two so shadowing is the norm, all import forms) is loaded into a real AnalysisHost and go-to-definition at every identifier occurrence is compared with the declaration the specification bound it to (never a different declaration; missing answers are violations too). Productions that trigger recorded findings are masked in the main run and re-enabled one at a time.",
         "the scoping rules in GleamGen are a transcription of Gleam's rules for the supported core (no Gleam compiler in the sandbox to cross-check); exhaustive only within the BFS budget", "4 C05, 3.3"),
 "C06": ("TLA+ monitor specification (Refs.tla) evaluated by TLC on occurrence tables recorded from the real analysis (trace/monitor validation), plus comparison of references with GleamGen's own binding relation",
         "for every workspace (generated programs, token-damaged variants, corpus files) the harness records goto/references/highlight at every identifier token; TLC evaluates the five invariants of the property on each table (inverse relation for occurrences spelled with the declaration's name, self inclusion, no duplicates, same set from every member, highlight = local part). For generated programs the reference set of every declaration is also compared with the set the specification derives from its scope stack.",
         "occurrences are the lexer's IDENT/U_IDENT tokens; the monitor constrains the real answers against each other, the GEN part against the specification", "4 C06, 3.10"),
 "C18": ("GleamGen.tla records the visible value names at every reference (scope stack + module scope + imports); TLC-generated programs replayed into the real completion engine",
         "at every reference of every generated program the completion labels of value kinds offered with the cursor at the end of the identifier must equal the specification's visible set (innermost shadowing = one entry per name), without duplicates, and the replace range must be exactly the identifier; after `module.` the offered set must be exactly the library's public functions and constructors.",
         "field completions after `value.` and empty-hole positions are not yet generated (see DESIGN F12/F14)", "4 C18, 3.3"),
 "C07": ("GleamGen.tla derives for every declaration the exact set of tokens a rename must rewrite (RenameSet, theorem RenameComplete model-checked by TLC); every TLC-generated program replayed: real rename vs. that set, then re-analysis and rename-back",
         "for every declaration of every generated program the real rename to a fresh name must return exactly the specification's edit set as whole-identifier, non-overlapping edits (in both modules for library declarations); the edits are applied, the workspace re-analysed and the binding map (go-to-definition at every identifier) and diagnostics compared with the pre-state; renaming back must restore the original text byte for byte.",
         "generated programs cover locals of every binder form, parameters, functions, constants and library items through qualified/unqualified/aliased imports; record fields and labels are not generated yet", "4 C07, 3.10"),
 "C10": ("TLA+ specification of workspace histories (Workspace.tla): TLC enumerates every workspace one damage step from small seeds and simulates multi-step histories; each workspace replayed into a fresh real analysis with every query at every token boundary",
         "the specification predicts `answered` for every (workspace, file, offset, query kind); TLC enumerates all single-step damages (every position x every damage lexeme, truncation, duplication, file replacement/emptying/adding, import rewiring incl. self-imports and cycles) of small seeds exhaustively and samples multi-step histories from generated, hand-written and corpus seeds; the harness issues 15 query kinds at every token boundary and observes answered / panicked / timeout / aborted.",
         "a query running longer than 30 s counts as non-termination; offsets are token boundaries plus some mid-token offsets", "4 C10, 3.7"),
 "C11": ("Workspace.tla in history mode (the observable has no history argument); TLC-simulated histories replayed into one long-lived real AnalysisHost and compared step by step with fresh analyses",
         "for TLC-simulated 8-step histories (edits, truncation, duplication, file replacement/emptying/adding, import rewiring, interleaved queries) one long-lived AnalysisHost receives the changes as the server builds them (file changes only; roots / package graph replaced); after every change step all 15 query kinds at every token boundary are compared between the long-lived host, a fresh host and a second fresh host queried in reverse order; a second configuration adds 140 filler modules so the 128-entry parse LRU must evict.",
         "answer equality is on a canonical rendering (order of references, rename edits and completion items is not part of the answer); salsa's internals are observed, not modelled", "4 C11, 3.7"),
 "C20": ("TLA+ monitor specification (Ranges.tla) evaluated by TLC on every distinct range recorded from the real analysis over the Workspace.tla workspaces",
         "the sweep harness records every range any of 15 query kinds reports at every token boundary of every file of the C10 workspaces (incl. non-ASCII and broken ones) with the facts the monitor needs (file length, character-boundary bits, token tiling from the lexer, enclosing full range); TLC evaluates RangeOK on each record: inside the named file of the workspace, on character boundaries, focus inside full range, name-like results exactly one whole token.",
         "boundary/token facts are computed by the harness with the repository's own lexer", "4 C20"),
 "C04": ("TLA+ reference grammar of the supported surface syntax as a pushdown generator emitting tokens plus tree brackets (GleamSyn.tla), checked by TLC; every generated program replayed into the real parser and compared structurally and through the typed accessors",
         "TLC enumerates all expressions with up to three operator applications (every operator pair and triple over the precedence levels, prefix and postfix), every production of the grammar in every slot within the BFS budget, and simulates larger files; each program is rendered in three layouts (single spaces, no spaces around punctuation, seeded whitespace/newlines/comments), parsed by the real parser and must have no syntax error, exactly the specification's bracket structure over the grouping node kinds, and typed accessors (lhs/rhs/op, func/arguments, label/value, pattern/annotation/body, name/param_list/return_type/body, patterns/body, subjects/clauses ...) that agree with source positions.",
         "the grammar and its tree shapes are a transcription (no Gleam compiler in the sandbox); productions that trigger recorded findings are masked in the main run and re-enabled one at a time", "4 C04, 3.3"),
 "C08": ("explicit TLA+ decision-table specification (RenameGate.tla), TLC exhaustive enumeration with per-action coverage, spec->impl replay at the ide API and black-box over LSP",
         "TLC enumerates the whole RenameGate decision table (101 symbol occurrences of 18 kinds x 3 package localities x 157 candidate names of 39 lexical classes, names defined character by character) and checks PrepareAccept <=> exists valid name: RenameAccept, no edit outside local packages and sufficiency of each refusal reason on every state; every row is replayed into ide::Analysis::prepare_rename and rename on a workspace with a local, a path-dependency and a build/packages package and compared with the predicted answer, edit locality, whole-token edits and prepare/rename agreement; 10 rows run through the real server over LSP.",
         "exhaustive over the finite table; the table is a fixed family of sources (one definition and >= 1 use per kind and spelling), not all programs; acceptance is predicted only for occurrences glas supports, elsewhere only the refusal obligations and prepare/rename agreement are checked", "4 C08, 3.10"),
 "C03": ("TLA+ specification of admissible damage (Recovery.tla): TLC checks the property's precondition on every reachable state and enumerates every (file, victim, edit); each damaged file replayed into the real parser",
         "TLC enumerates all ordered pairs of 12 definition templates x every victim with a brace-delimited body x every single edit (insert/delete/replace at every position strictly inside the outermost braces with every non-opening lexeme) and seeded two-edit damages in files of three definitions, checking on the model that braces stay balanced and no opener is introduced; the real parser must recognise every other definition with the same kind, name and text in the same order and report every syntax error inside the victim's span.",
         "victims are definitions with a brace-delimited body; opening delimiters excluded from the damage alphabet are ( [ { << # and the string/comment openers (DESIGN 4 C03)", "4 C03, 3.5"),
 "C17": ("explicit TLA+ model of project layouts (Layout.tla) + TLC model checking (BFS exhaustive small scope, -simulate beyond) as a generator of annotated configurations; black-box conformance replay against the server binary over LSP",
         "TLC enumerates all Layout configurations of a small scope and simulates larger ones (up to 4 packages: root, registry and path dependencies, nested module directories, equal module names, free-standing file, open orders), checking on the model that Resolve is a function into own + direct dependencies, RootOf is the unique longest-prefix root and ModuleName is injective per package; every configuration is materialised on disk and every import use site / rename gate / free-file query is compared with the specification's prediction through the real server (definition targets, prepareRename, rename edit locality).",
         "oracle compares files, not offsets; unresolved imports may answer null or error; two genuine defects recorded as known findings (see known_findings.d/C17.json)", "4 C17, 3.10"),
 "C09": ("TLA+ type-directed generator (Typing.tla: Gleam's typing rules read goal-first over a small type universe), checked by TLC; every generated program replayed into the real inference (hover on every binder and function name)",
         "every expression is derived against a chosen monomorphic goal type so the type of each let-bound variable, pattern variable, parameter and function is known by construction; signatures of the generated functions are fixed up front so calls refer forwards, backwards and recursively, D0 results and pinned parameters are left unannotated and must be inferred; TLC enumerates one function per representative goal type x every rule (BFS) and simulates three-function modules; programs are rendered with the functions in a seeded order, prelude before or after, and the displayed type of every binder/function is compared with the specification's (type variables renamed by first occurrence).",
         "typing rules are a transcription (no Gleam compiler in the sandbox); constructs that leave a type variable open ([] / Ok / Error alone, unpinned lambdas) are generated only where the context pins them; rules that trigger recorded findings are masked in the main run and re-enabled one at a time", "4 C09, 3.4"),
 "C12": ("TLA+ model of salsa's snapshot/cancellation protocol as used by ide::AnalysisHost (Host.tla) model-checked by TLC for safety and liveness; multi-threaded harness (hostrace) on the real ide crate; recorded traces validated against Host by TLC (Trace_Host.tla) together with reference answers of a fresh analysis",
         "TLC proves on Host.tla, exhaustively and without state constraint for 2 readers x 2 changes x 2 files x 2 queries per snapshot, that every answer is the answer for the snapshot's own version or Cancelled, that no read is torn, that a live snapshot always has the current completed version, and - under weak fairness - that every apply_change returns; both are refuted when the exclusivity of apply_change resp. the flag check is switched off. 300 (quick) / 5000 (thorough) seeded races of one writer against 1-4 readers (9 query kinds) on the real AnalysisHost are recorded with a global sequence number and each accepted by TLC as a behaviour of Host in which every Ok(hash) equals the hash a fresh single-threaded analysis gives for the snapshot's version and every apply_change returned within 30 s.",
         "interleavings of the real code are sampled (seeded delays + OS scheduler), exhaustive only in the model; answers compared as hashes of Debug renderings (lists as sets)", "4 C12, 3.8, App. B"),
}
NOT_YET = "check not built yet in this revision of /verif (work in progress; see DESIGN.md section 8)"

props = [json.loads(l)["id"] for l in open(os.path.join(V, "properties.jsonl"))]
hooks = subprocess.run(["git", "-C", "/repo", "log", "--format=%H %s"], capture_output=True, text=True).stdout.splitlines()
hook_commits = [l.split()[0] for l in hooks if l.split(" ", 1)[1].startswith("verif hook")]

m = {
 "version": 1,
 "setup_cmd": "cd /verif/harness && CARGO_NET_OFFLINE=true cargo build --release --offline",
 "hooks": {
  "guard": "cfg(glas_verif)",
  "enable": "RUSTFLAGS='--cfg glas_verif' (set in /verif/harness/.cargo/config.toml; the harness has path dependencies on /repo/crates/{syntax,ide,glas})",
  "baseline_off_cmd": "cd /repo && cargo test --workspace --no-fail-fast --offline",
  "source_commits": hook_commits,
  "add_only": True,
 },
 "engines": [
  {"name": "spec", "path": "spec/", "serves_properties": sorted(CLAIMED), "kind_free_text": "TLA+ modules checked with TLC (MC_/cfg files hold the bounds; Trace_* modules validate recorded traces)"},
  {"name": "harness", "path": "harness/", "serves_properties": sorted(CLAIMED), "kind_free_text": "Rust crate with path deps on /repo crates (hooks on): replays TLC-generated cases into the real code, records traces"},
  {"name": "check", "path": "bin/check", "serves_properties": sorted(CLAIMED), "kind_free_text": "python driver: build, TLC, replay/trace validation, evidence, known findings"},
 ],
 "checks": [],
 "not_applicable": [],
 "notes": "Exit 0 held / 1 VIOLATION / 2 tool error. VERIF_SEED seeds TLC simulation and renderers. See DESIGN.md.",
}
for p in props:
    if p in CLAIMED:
        tech, text, note, ref = CLAIMED[p]
        m["checks"].append({
            "property_id": p,
            "quick_cmd": f"bin/check {p} --tier quick",
            "thorough_cmd": f"bin/check {p} --tier thorough",
            "evidence_file": f"evidence/{p}.json",
            "replay_cmd_template": f"bin/check {p} --replay {{path}}",
            "engine": "check",
            "level_claimed": {"category": "model_checking", "text": text, "design_ref": ref},
            "level_note": note,
            "technique": tech,
        })
    else:
        m["not_applicable"].append({"property_id": p, "reason": NOT_YET})
json.dump(m, open(os.path.join(V, "MANIFEST.json"), "w"), indent=1)
print("claimed:", sorted(CLAIMED))
