"""Shared machinery of the /verif checks: building the harness, running TLC, collecting
TLC-emitted cases, evidence files, known findings, violation reporting.

Exit protocol (see DESIGN.md 2.1): 0 held / 1 VIOLATION line printed / 2 tool error.
"""
import json, os, re, shutil, subprocess, sys, time, hashlib

VERIF = os.path.dirname(os.path.dirname(os.path.abspath(__file__)))
HARNESS = os.path.join(VERIF, "harness")
SPEC = os.path.join(VERIF, "spec")
TARGET = os.path.join(HARNESS, "target")
WORK = os.path.join(TARGET, "verif-work")
SHARED = WORK      # caches shared by all properties (bin/check gives every property its own WORK below it)
REPLAYS = os.path.join(VERIF, "replays")
EVIDENCE = os.path.join(VERIF, "evidence")
BIN = os.path.join(TARGET, "release")
NCPU = os.cpu_count() or 4


class ToolError(Exception):
    pass


def log(*a):
    print("[verif]", *a, file=sys.stderr, flush=True)


def seed_from_env(default=1):
    try:
        return int(os.environ.get("VERIF_SEED", default))
    except ValueError:
        return default


# --------------------------------------------------------------------------------------
# building

def build_harness(bins=None):
    """cargo build --release in /verif/harness; path deps => rebuilds from /repo's tree."""
    env = dict(os.environ)
    env["CARGO_NET_OFFLINE"] = "true"
    cmd = ["cargo", "build", "--release", "--offline"]
    for b in bins or []:
        cmd += ["--bin", b]
    t = time.time()
    p = subprocess.run(cmd, cwd=HARNESS, env=env, stdout=subprocess.PIPE, stderr=subprocess.STDOUT, text=True)
    if p.returncode != 0:
        sys.stderr.write(p.stdout[-6000:])
        raise ToolError("harness build failed (the repository tree does not compile with hooks on?)")
    log(f"harness built in {time.time()-t:.1f}s")


def workdir(name):
    d = os.path.join(WORK, name)
    shutil.rmtree(d, ignore_errors=True)
    os.makedirs(d, exist_ok=True)
    return d


# --------------------------------------------------------------------------------------
# TLC

class TlcResult:
    """Result of one TLC run.  TLC's output is kept in a file (thorough runs print millions of CASE lines): `.out` holds
    only the lines that are not `<<"TAG", ...>>` prints (plus the first few of those); `cases(tag)` streams the file."""
    def __init__(self, out_path, rc, wall):
        self.out_path = out_path
        self.rc = rc
        self.wall = wall
        keep, tagged, other = [], 0, 0
        with open(out_path, "r", errors="replace") as f:
            for line in f:
                if line.startswith('<<"CASE"'):
                    tagged += 1
                    if tagged <= 5:
                        keep.append(line)
                elif line.startswith('<<"'):
                    other += 1
                    if other <= 200000:
                        keep.append(line)
                else:
                    keep.append(line)
        out = self.out = "".join(keep)
        self.printed = tagged
        self.states = 0
        self.distinct = 0
        m = None
        for m in re.finditer(r"(\d+) states generated, (\d+) distinct states found", out):
            pass
        if m:
            self.states, self.distinct = int(m.group(1)), int(m.group(2))
        else:
            # simulation mode: "The number of states generated: N"
            m = re.search(r"The number of states generated: (\d+)", out)
            if m:
                self.states = self.distinct = int(m.group(1))
        self.violated = bool(re.search(r"Error: Invariant .* is violated|Error: Deadlock reached|"
                                       r"Error: Temporal properties were violated|is violated\.|"
                                       r"Error: Action property .* is violated|Assumption .* is false",
                                       out))
        self.error = ("Error:" in out) and not self.violated
        self.coverage = {}
        for m in re.finditer(r"<(\w+) line \d+, col \d+ to line \d+, col \d+ of module (\w+)>: (\d+):(\d+)", out):
            self.coverage[m.group(1)] = self.coverage.get(m.group(1), 0) + int(m.group(4))

    def raw_cases(self, tag="CASE"):
        """The JSON text of every `PrintT(<<tag, ToJson(x)>>)` line, undecoded (one JSON document per item)."""
        pre = '<<"%s", ' % tag
        with open(self.out_path, "r", errors="replace") as f:
            for line in f:
                line = line.rstrip("\n")
                if line.startswith(pre) and line.endswith(">>"):
                    try:
                        yield json.loads(line[len(pre):-2])
                    except Exception:
                        raise ToolError("undecodable TLC case line: " + line[:200])

    def cases(self, tag="CASE"):
        """Lines printed by `PrintT(<<tag, ToJson(x)>>)`: yields decoded JSON values."""
        for body in self.raw_cases(tag):
            try:
                yield json.loads(body)
            except Exception:
                raise ToolError("undecodable TLC case: " + body[:200])


def tlc(module, cfg=None, workers=None, simulate=None, depth=None, seed=None, timeout=600,
        env=None, coverage=False, deadlock=None, name=None, heap="4g", extra=None, dfs=False):
    """Run TLC on spec/<module>.tla with spec/<cfg>. Returns TlcResult. Raises ToolError on
    timeouts / parse errors (never on property violations: caller inspects .violated)."""
    cfg = cfg or module + ".cfg"
    name = name or (module + "-" + os.path.splitext(os.path.basename(cfg))[0])
    meta = workdir("tlc-" + name)
    cmd = tlc_base_cmd(timeout, heap, dfs)
    cmd += ["-metadir", meta, "-cleanup", "-noGenerateSpecTE", "-config", cfg]
    cmd += ["-workers", str(workers or min(NCPU, 8))]
    if simulate:
        cmd += ["-simulate", f"num={simulate}"]
    if depth:
        cmd += ["-depth", str(depth)]
    if seed is not None:
        cmd += ["-seed", str(seed)]
    if coverage:
        cmd += ["-coverage", "1"]
    if deadlock is False:
        cmd += ["-deadlock"]  # "-deadlock" = do NOT check for deadlock
    cmd += list(extra or [])
    cmd += [module + ".tla"]
    e = dict(os.environ)
    e.update(env or {})
    t = time.time()
    os.makedirs(os.path.join(WORK, "tlc-out"), exist_ok=True)
    out_path = os.path.join(WORK, "tlc-out", name + ".txt")
    with open(out_path, "wb") as of:
        p = subprocess.run(cmd, cwd=SPEC, env=e, stdout=of, stderr=subprocess.STDOUT)
    wall = time.time() - t
    shutil.rmtree(meta, ignore_errors=True)
    if p.returncode == 124:
        raise ToolError(f"TLC timed out after {timeout}s on {module}/{cfg}")
    r = TlcResult(out_path, p.returncode, wall)
    if "Parsing or semantic analysis failed" in r.out or "Semantic errors" in r.out or \
            "TLC threw an unexpected exception" in r.out or "java.lang.OutOfMemoryError" in r.out:
        sys.stderr.write(r.out[-4000:])
        raise ToolError(f"TLC failed on {module}/{cfg}")
    log(f"TLC {module}/{cfg}: {r.states} states, {r.distinct} distinct, {wall:.1f}s, rc={p.returncode}")
    return r


TLC_CP = "/opt/veriftools/tla/tla2tools.jar:/opt/veriftools/tla/CommunityModules-deps.jar"


def tlc_base_cmd(timeout, heap, dfs):
    cmd = ["timeout", str(timeout), "java", "-XX:+UseParallelGC", f"-Xmx{heap}", "-Xss1g"]
    if dfs:
        cmd += ["-Dtlc2.tool.queue.IStateQueue=StateDeque"]
    cmd += ["-cp", TLC_CP, "tlc2.TLC"]
    return cmd


def tlc_many(jobs, max_parallel=6):
    """Run several TLC jobs (dicts of tlc() keyword arguments, each with a distinct 'name') concurrently.
    Used for simulation: TLC's RandomElement draws are per-run, so N single-worker runs with different seeds
    give N times the behaviours."""
    import concurrent.futures
    with concurrent.futures.ThreadPoolExecutor(max_workers=max_parallel) as ex:
        futs = [ex.submit(lambda kw=kw: tlc(**kw)) for kw in jobs]
        return [f.result() for f in futs]


def require_ok(r, what):
    """Model-level result must be clean; a violated model invariant on the unchanged spec is a tool
    error of the check (the spec is part of the machinery), not a property violation of glas."""
    if r.violated or r.error or r.rc not in (0,):
        sys.stderr.write(r.out[-5000:])
        raise ToolError(f"TLC reported a problem in {what} (rc={r.rc})")


# --------------------------------------------------------------------------------------
# running harness binaries

def run_bin(name, args=(), stdin_path=None, stdin_data=None, timeout=3600, env=None):
    exe = os.path.join(BIN, name)
    e = dict(os.environ)
    e.update(env or {})
    kw = {}
    if stdin_path:
        kw["stdin"] = open(stdin_path, "rb")
    elif stdin_data is not None:
        kw["input"] = stdin_data if isinstance(stdin_data, bytes) else stdin_data.encode()
    try:
        p = subprocess.run([exe, *args], stdout=subprocess.PIPE, stderr=subprocess.PIPE, env=e,
                           timeout=timeout, **kw)
    except subprocess.TimeoutExpired:
        raise ToolError(f"{name} timed out after {timeout}s")
    return p


def json_lines(b):
    out = []
    for line in b.decode("utf-8", "replace").split("\n"):      # not splitlines(): U+2028 etc. occur inside JSON strings
        line = line.strip()
        if line.startswith("{"):
            out.append(json.loads(line))
    return out


# --------------------------------------------------------------------------------------
# findings / violations / evidence

def load_known():
    """known_findings.json plus known_findings.d/*.json (one file per group of properties)."""
    import glob
    res = []
    for p in [os.path.join(VERIF, "known_findings.json")] + sorted(glob.glob(os.path.join(VERIF, "known_findings.d", "*.json"))):
        if os.path.exists(p):
            res += json.load(open(p)).get("findings", [])
    return res


def match_known(prop, features, known=None):
    """A finding's signature is a dict of feature -> value (or list of allowed values); all keys
    must match the violation's feature vector."""
    for f in (known if known is not None else load_known()):
        if f.get("property") != prop or f.get("status") != "open":
            continue
        sig = f.get("signature", {})
        ok = True
        for k, v in sig.items():
            fv = features.get(k)
            if isinstance(v, list):
                if fv not in v:
                    ok = False
            elif isinstance(v, dict) and "equals" in v:
                if fv != v["equals"]:
                    ok = False
            elif isinstance(v, dict) and "prefix" in v:
                if not (isinstance(fv, str) and fv.startswith(v["prefix"])):
                    ok = False
            elif isinstance(v, dict) and "contains" in v:
                if not (isinstance(fv, str) and v["contains"] in fv):
                    ok = False
            elif isinstance(v, dict) and "min" in v:
                if not (isinstance(fv, (int, float)) and fv >= v["min"]):
                    ok = False
            elif fv != v:
                ok = False
            if not ok:
                break
        if ok:
            return f
    return None


class Outcome:
    """Collects what one check run saw; finishes with evidence + exit code."""

    def __init__(self, prop, tier, seed):
        self.prop, self.tier, self.seed = prop, tier, seed
        self.t0 = time.time()
        self.violations = []      # (features, detail)
        self.known_hits = {}      # finding id -> count
        self.known_desc = {}
        self.cov = {"states": 0, "transitions": 0, "traces_validated_against_impl": 0, "samples": [],
                    "evaluations": 0, "distinct_nontrivial": 0, "rule": "", "exhaustive": False,
                    "tlc_runs": [], "action_coverage": {}}
        self.assumptions = []
        self.known = load_known()

    def add_tlc(self, r, what):
        self.cov["states"] += r.distinct
        self.cov["transitions"] += r.states
        self.cov["tlc_runs"].append({"what": what, "generated": r.states, "distinct": r.distinct,
                                     "wall_s": round(r.wall, 1)})
        for k, v in r.coverage.items():
            self.cov["action_coverage"][k] = self.cov["action_coverage"].get(k, 0) + v

    def report(self, features, detail):
        """A disagreement between spec and implementation (or a panic/hang of the code)."""
        f = match_known(self.prop, features, self.known)
        if f:
            self.known_hits[f["id"]] = self.known_hits.get(f["id"], 0) + 1
            self.known_desc[f["id"]] = f.get("what", "")
        else:
            self.violations.append((features, detail))

    def finish(self):
        os.makedirs(EVIDENCE, exist_ok=True)
        wall = time.time() - self.t0
        for fid, n in sorted(self.known_hits.items()):
            print(f"KNOWN-FINDING: property={self.prop} {fid}: {self.known_desc[fid]} (re-observed {n}x)")
        rc = 0
        if self.violations:
            os.makedirs(REPLAYS, exist_ok=True)
            shown = set()
            for i, (features, detail) in enumerate(self.violations[:5]):
                h = hashlib.sha1(json.dumps([features, detail], sort_keys=True, default=str).encode()).hexdigest()[:10]
                path = os.path.join(REPLAYS, f"{self.prop}-{h}.json")
                json.dump({"property": self.prop, "features": features, "detail": detail,
                           "seed": self.seed, "tier": self.tier}, open(path, "w"), indent=1, default=str)
                if path not in shown:
                    print(f"VIOLATION property={self.prop} replay={path}")
                    shown.add(path)
            log(f"{len(self.violations)} violation(s); first: " + json.dumps(self.violations[0], default=str)[:1500])
            rc = 1
        cov = dict(self.cov)
        cov["known_findings_reobserved"] = self.known_hits
        if not cov["samples"]:
            cov["samples"] = ["(none recorded)"]
        cov["samples"] = cov["samples"][:8]
        ev = {"property_id": self.prop, "tier": self.tier, "seed": self.seed, "level": "model_checking",
              "coverage": cov, "assumptions": self.assumptions, "wall_s": round(wall, 2),
              "violations": len(self.violations)}
        json.dump(ev, open(os.path.join(EVIDENCE, f"{self.prop}.json"), "w"), indent=1, default=str)
        log(f"{self.prop} {self.tier}: rc={rc} wall={wall:.1f}s states={cov['states']} "
            f"validated={cov['traces_validated_against_impl']} evaluations={cov['evaluations']}")
        return rc
