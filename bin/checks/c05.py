"""C05 - go-to-definition follows Gleam's scoping rules.
Spec: GleamGen.tla - a pushdown generator whose state is Gleam's scope stack; every identifier it emits carries
the declaration it is bound to by construction.  MC: the operational scope stack agrees with the declarative
restatement of the scoping rule (ScopeDeclarative), pending binders are invisible in their own initialiser.
GEN: every program (BFS small budget + simulation) is loaded into a real AnalysisHost and goto_definition is
compared with the specification's target at every identifier occurrence."""
from checks import scope_common


def run(out, tier, seed):
    scope_common.run_gen_check(out, tier, seed, "C05", ["clause_guard", "unary"])
    out.cov["exhaustive"] = True
    out.cov["rule"] = ("all programs GleamGen derives with the BFS budget (every import form x every production once in every slot, "
                       "names from a pool of two so shadowing is the norm) plus seeded simulation with budget 7 and up to 3 items; "
                       "each rendered with seeded whitespace/comments; goto_definition at every identifier occurrence compared with the "
                       "spec's binding (local binder / top-level item / library export / module / unbound); "
                       "distinct_nontrivial = programs in which some name is bound more than once (shadowing)")
    out.assumptions += ["GleamGen is a transcription of Gleam's scoping rules for the supported core (no Gleam compiler available to cross-check)",
                        "productions that trigger recorded findings are masked in the main run and re-enabled one at a time in extra runs"]


def replay(out, path):
    scope_common.replay_case(out, path, "C05")
