"""C05 - go-to-definition follows Gleam's scoping rules.
Spec: GleamGen.tla - a pushdown generator whose state is Gleam's scope stack; every identifier it emits carries
the declaration it is bound to by construction.  MC: the operational scope stack agrees with the declarative
restatement of the scoping rule (ScopeDeclarative), pending binders are invisible in their own initialiser.
GEN: every program (BFS small budget + simulation) is loaded into a real AnalysisHost and goto_definition is
compared with the specification's target at every identifier occurrence.
Workspace: the program m1 is the module of package `app`; the library modules m2 and sub/m2 (same last path segment, same
declared names, own declaration ids 2001.. / 3001..) belong to a second local package `lib` that `app` depends on (one
workspace in four: a single package).  Module headers have up to two imports - both modules, plain or `as`, both orders,
unqualified items from either; `acc.x`, `acc.A(..)`, the pattern `acc.A(..)` and the annotation `acc.T` must land in the
module the accessor stands for (last path segment unless aliased)."""
from checks import scope_common


def run(out, tier, seed):
    scope_common.run_gen_check(out, tier, seed, "C05", [])
    out.cov["exhaustive"] = True
    out.cov["rule"] = ("all programs GleamGen derives with the BFS budget: b1 = every production once in every slot under the base headers "
                       "(no import, m2 plain / `as q` / .{c} / .{A}, sub/m2), b1h = the import-sensitive productions (references to imported names, "
                       "qualified names / constructors / labels through every accessor, type annotations) under EVERY header with up to two imports "
                       "of m2 and sub/m2 ({plain, as} x both orders x at most one unqualified item: 91 headers); names from a pool of two so "
                       "shadowing is the norm; plus seeded simulation with budget 7, up to 3 items and all 211 headers; workspaces with two local "
                       "packages (app -> lib), one in four with a single package; "
                       "each rendered with seeded whitespace/comments; goto_definition at every identifier occurrence compared with the "
                       "spec's binding (local binder / top-level item / library export / module / unbound); "
                       "distinct_nontrivial = programs in which some name is bound more than once (shadowing)")
    out.assumptions += ["GleamGen is a transcription of Gleam's scoping rules for the supported core (no Gleam compiler available to cross-check)",
                        "productions that trigger recorded findings are masked in the main run and re-enabled one at a time in extra runs"]


def replay(out, path):
    scope_common.replay_case(out, path, "C05")
