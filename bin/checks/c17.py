"""C17 - modules and packages resolve according to the project layout.

Spec: Layout.tla.  A configuration is a project tree: 1-4 packages (the root; every other package has an ENTRY - how its
importers name it: by version requirement or by `path = ...` - and, independently, a PLACE - <root>/build/packages/<name>,
next to the root, or nested in the root as <root>/packages/<name>; all combinations that denote a project, e.g. a path
entry pointing into build/packages, plus "twins": a same-named directory lying next to a build/packages package); a
dependency DAG; modules at src|test/<dir>*/<name>.gleam whose directories are drawn from {dir, sub, src, test, build,
packages} (src/test/helpers.gleam is the module test/helpers), with equal names in different packages; a free-standing
file; an open order.  Every file imports every module name in use and every proper tail of one (`import helpers` next to
test/helpers must not resolve).  The reference operators ModuleName, RootOf, Visible, Resolve, External are written
declaratively there (External = the package directory is .../build/packages/<name>, whatever the entry says) and TLC checks
on every configuration that Resolve is a function into Visible(RootOf(importer)), that RootOf is the unique longest-prefix
root, that ModuleName is the path below the package's src/ or test/ directory and injective per package, and that External
coincides with place = build/packages for every base directory.

GEN, end to end: TLC prints every finished configuration with the spec's predictions (BFS: all configurations of a small
scope, exactly once; -simulate: random configurations up to 4 packages / arbitrary open orders).  This module writes the tree
to disk (real gleam.toml files and .gleam modules), starts the real server binary on it, opens the files in the given order
and compares
  * textDocument/definition on every import use site (module qualifier, member after the qualifier, unqualified import item,
    unqualified use, imported type in an annotation) with Resolve: the target URI and, for members, that the returned range
    overlaps the name of the expected definition.  Asked twice: right after the file has been opened (only a prefix of the
    open order is known to the server) and again when everything is open (once for the file that is opened last);
  * textDocument/prepareRename on uses and on definitions with External: error (or null) for symbols of build/packages
    packages, a range for local ones; textDocument/rename of local functions must not edit files of build/packages,
    textDocument/rename of a function of a build/packages package must be refused
    (what rename accepts and edits is C08's subject; it is observed here on every generated layout and reported as a C17
    violation, "packages under build/packages are ... not editable");
  * definition / hover / glas/syntaxTree on the free-standing file: answered, no error response, server alive.

What is a violation (and what is not):
  * expected target T:  no location, an error response, or a location in another file than T  -> violation;
    a location in T is accepted wherever it points for a module qualifier (DESIGN C05: "the module file, offset 0" is not
    prescribed by C17); for a member the range must overlap the defining name;
  * expected unresolved: a location in any file other than the importing file itself -> violation (the import resolved to
    a module that is not visible); null / empty / an error response are all accepted (the property does not demand a
    diagnostic, and panics on broken programs belong to C10);
  * URIs are compared after lexical normalisation ("app/../lib" names the same file as "lib"); a correct target spelled
    with ".." is reported separately as "non-canonical target URI" (known finding C17-F2: the file is held twice).
"""
import concurrent.futures, json, os, shutil, threading
from urllib.parse import unquote
import vlib, lsp

STYLES = ["qual", "unqual", "alias"]
INV = ("TypeOK RootsDistinct ExternalIsPlace RootOfIsInnermost ModuleNameInjective ResolveIsFunction ResolveIsVisible "
       "ImportsAcyclic DepsShape").split()
# (entry, place) of a package -> the label used in feature vectors
KIND = {("root", "top"): "root", ("version", "packages"): "registry", ("path", "sibling"): "path", ("path", "nested"): "nested",
        ("path", "packages"): "pinned", ("none", "sibling"): "twin", ("none", "nested"): "twin"}
SPECIAL_SEGMENTS = {"src", "test", "build", "packages"}
ACTIONS_BFS = ["AddPackage", "AddDep", "AddModules", "Open", "Finish"]


# --------------------------------------------------------------------------------------------------
# naming

def ident(parts):
    return "_".join(parts)


def camel(parts):
    return "".join(w.capitalize() for p in parts for w in p.split("_"))


def fn_name(pkg, modname):
    return "f_" + ident([pkg] + list(modname))


def ty_name(pkg, modname):
    return "T" + camel([pkg] + list(modname))


def rel(path_parts, gleam=True):
    return os.path.join(*path_parts) + (".gleam" if gleam else "")


# --------------------------------------------------------------------------------------------------
# materialising a configuration

class Tree:
    """Texts and probe positions of one configuration (deterministic in (case, salt))."""

    def __init__(self, case, salt):
        self.case = case
        self.salt = salt
        self.pkgs = {p["id"]: p for p in case["pkgs"]}      # by label: a twin has the NAME of its original
        self.files = {tuple(f["path"]): f for f in case["files"]}
        self.modnames = {tuple(f["modname"]) for f in case["files"] if f["role"] == "module"}
        self.texts = {}      # rel path -> text
        self.defs = {}       # path tuple -> {"fn": (line, c0, c1), "ty": (line, c0, c1)}
        self.probes = {}     # path tuple -> list of probes
        self.tomls = {}
        self.free = None
        for f in case["files"]:
            if f["role"] == "free":
                self.free = tuple(f["path"])
        by_file = {}
        for u in case["uses"]:
            by_file.setdefault(tuple(u["from"]), []).append(u)
        for k in by_file:
            by_file[k].sort(key=lambda u: u["name"])
        for fi, f in enumerate(sorted(case["files"], key=lambda f: f["path"])):
            self._module(fi, f, by_file.get(tuple(f["path"]), []))
        for p in case["pkgs"]:
            lines = ['name = "%s"' % p["name"], 'version = "1.0.0"', "", "[dependencies]"]
            for d in sorted(p["deps"], key=lambda d: d["name"]):
                if d["entry"] == "path":
                    # the relative path from this package's directory to the dependency's, wherever that is:
                    # "../lib" (sibling), "packages/lib" (nested), "build/packages/lib" (a pinned download), ...
                    lines.append('%s = { path = "%s" }' % (d["name"], os.path.relpath(os.path.join("/", *d["loc"]),
                                                                                      os.path.join("/", *p["loc"]))))
                else:
                    lines.append('%s = "~> 1.0"' % d["name"])
            self.tomls[os.path.join(*p["loc"], "gleam.toml")] = "\n".join(lines) + "\n"

    def kind_of_pkg(self, pid):
        return KIND[(self.pkgs[pid]["entry"], self.pkgs[pid]["place"])] if pid else "free"

    def entry_of_pkg(self, pid):
        return self.pkgs[pid]["entry"] if pid else "free"

    def via_path_only(self, pid):
        """A package named by version entries that no chain root -> version -> ... -> version reaches: every way to it
        passes through a path entry.  (Feature of the known finding C17-F1: such packages are looked up in the wrong
        directory.)"""
        if not pid or self.pkgs[pid]["entry"] != "version":
            return False
        root = self.case["pkgs"][0]["id"]
        reach, todo = {root}, [root]
        while todo:
            a = todo.pop()
            for d in self.pkgs[a]["deps"]:
                if d["entry"] == "version" and d["id"] not in reach:
                    reach.add(d["id"])
                    todo.append(d["id"])
        return pid not in reach

    def name_is(self, name):
        """a module name in use somewhere in the configuration, or only the tail of one (`helpers` of test/helpers)"""
        return "module" if tuple(name) in self.modnames else "tail"

    def pinned_via_dotdot(self, pid):
        """A build/packages package named by the path entry of a package other than the root project: every such entry
        contains `..` ("../lib", "../app/build/packages/lib", "../../build/packages/lib").  (Feature of the known finding
        C17-F2b/c: glas keeps the package root under the un-normalised path.)"""
        if not pid or self.pkgs[pid]["entry"] != "path" or self.pkgs[pid]["place"] != "packages":
            return False
        root = self.case["pkgs"][0]["id"]
        return any(d["id"] == pid for p in self.case["pkgs"] if p["id"] != root for d in p["deps"])

    def _intended(self, u):
        """(pkg, modname) whose names the use site spells: the expected target, else a same-named module that must NOT be
        found (so that a wrong resolution has something to land on), else nothing."""
        if u["target"]:
            t = self.files[tuple(u["target"])]
            return t["pkg"], t["modname"]
        for d in sorted(u["decoys"]):
            t = self.files[tuple(d)]
            return t["pkg"], t["modname"]
        return "missing", u["name"]

    def _module(self, fi, f, uses):
        path = tuple(f["path"])
        is_free = f["role"] == "free"
        L = []            # lines
        probes = []
        taken = set()
        imports = []
        body = []
        extra = []
        # A module's names are imported unqualified at most once per file, by the import that must resolve to it if there is
        # one: `import src/gen.{f}` (resolves) next to `import gen.{f}` (must not) would let the second f() resolve through
        # the first import.  The other use sites that spell the same names fall back to the alias style.
        styles = [STYLES[(i + fi + self.salt) % 3] for i in range(len(uses))]
        claimed = {tuple(map(str, self._intended(u))) for u, st in zip(uses, styles) if st == "unqual" and u["target"]}
        for i, u in enumerate(uses):
            key = tuple(map(str, self._intended(u)))
            if styles[i] == "unqual" and not u["target"]:
                if key in claimed:
                    styles[i] = "alias"
                claimed.add(key)
        for i, u in enumerate(uses):
            style = styles[i]
            modpath = "/".join(u["name"])
            ipkg, imod = self._intended(u)
            fname, tname = fn_name(ipkg, imod), ty_name(ipkg, imod)
            acc = u["name"][-1]
            alias = None
            if style == "alias" or acc in taken:
                alias = "al%d" % i
                acc = alias
            taken.add(acc)
            imports.append((u, style, modpath, fname, tname, acc, alias))
        for (u, style, modpath, fname, tname, acc, alias) in imports:
            line = len(L)
            base = {"name": u["name"], "target": u["target"], "targetpkg": u["targetpkg"], "style": style,
                    "decoys": u["decoys"], "name_is": self.name_is(u["name"])}
            if style == "unqual":
                text = "import %s.{%s, type %s}" % (modpath, fname, tname)
                if alias:
                    text += " as " + alias
                c = text.index("{") + 1
                probes.append(dict(base, q="import item", line=line, col=c + 2, member="fn"))
                L.append(text)
                body.append(("  %s()" % fname, dict(base, q="unqualified use", col=2 + 2, member="fn", rename=True)))
                extra.append(("fn ty_user_%d(x: %s) { x }" % (len(extra), tname),
                              dict(base, q="type use", col=len("fn ty_user_%d(x: " % len(extra)) + 1, member="ty")))
            else:
                text = "import %s" % modpath + (" as " + alias if alias else "")
                L.append(text)
                body.append(("  %s.%s()" % (acc, fname), [dict(base, q="qualifier", col=2, member=None),
                                                          dict(base, q="member", col=2 + len(acc) + 1 + 2, member="fn",
                                                               rename=True)]))
        if imports:
            L.append("")
        if is_free:
            own_fn, own_ty = "lone", "TLone"
        else:
            own_fn, own_ty = fn_name(f["pkg"], f["modname"]), ty_name(f["pkg"], f["modname"])
        L.append("pub type %s {" % own_ty)
        self.defs.setdefault(path, {})["ty"] = (len(L) - 1, len("pub type "), len("pub type ") + len(own_ty))
        L.append("  C%s" % own_ty[1:])
        L.append("}")
        L.append("")
        L.append("pub fn %s() {" % own_fn)
        self.defs[path]["fn"] = (len(L) - 1, len("pub fn "), len("pub fn ") + len(own_fn))
        L.append("  1")
        L.append("}")
        L.append("")
        L.append("pub fn user() {")
        for text, pr in body:
            for p in (pr if isinstance(pr, list) else [pr]):
                p["line"] = len(L)
                probes.append(p)
            L.append(text)
        L.append("  %s()" % own_fn)
        self.defs[path]["own_use"] = (len(L) - 1, 2, 2 + len(own_fn))
        L.append("}")
        for text, p in extra:
            L.append("")
            p["line"] = len(L)
            probes.append(p)
            L.append(text)
        self.texts[rel(path)] = "\n".join(L) + "\n"
        self.probes[path] = probes

    def write(self, root):
        for r, t in list(self.texts.items()) + list(self.tomls.items()):
            p = os.path.join(root, r)
            os.makedirs(os.path.dirname(p), exist_ok=True)
            with open(p, "w") as fh:
                fh.write(t)


# --------------------------------------------------------------------------------------------------
# driving the server

def norm_uri(u):
    if not u.startswith("file://"):
        return u
    return os.path.normpath(unquote(u[len("file://"):]))


def locations(result):
    """definition result -> list of (normalised path, range, raw uri)"""
    if result is None:
        return []
    if isinstance(result, dict):
        result = [result]
    out = []
    for loc in result:
        u = loc.get("uri") or loc.get("targetUri")
        rg = loc.get("range") or loc.get("targetSelectionRange")
        out.append((norm_uri(u), rg, u))
    return out


def overlaps(rg, line, c0, c1):
    s, e = (rg["start"]["line"], rg["start"]["character"]), (rg["end"]["line"], rg["end"]["character"])
    return s <= (line, c1) and e >= (line, c0) and s <= e


class CaseRun:
    def __init__(self, case, salt, root):
        self.case, self.salt, self.root = case, salt, root
        self.tree = Tree(case, salt)
        self.viol = []          # (features, bad)
        self.evals = 0
        self.stats = {"nonnormal_uri": 0, "error_at_unresolved": 0, "resolved": 0, "unresolved": 0, "cross_pkg": 0,
                      "gate_external": 0, "gate_local": 0, "rename": 0, "rename_external": 0, "free": 0, "skipped_early": 0}
        self.sess = None
        self.root_known = False

    def abspath(self, parts):
        return os.path.join(self.root, rel(parts))

    def pos_params(self, parts, line, col):
        return {"textDocument": {"uri": lsp.uri(self.abspath(parts))}, "position": {"line": line, "character": col}}

    def importer_kind(self, parts):
        return self.tree.kind_of_pkg(self.tree.files[tuple(parts)]["pkg"])

    def importer_entry(self, parts):
        return self.tree.entry_of_pkg(self.tree.files[tuple(parts)]["pkg"])

    def bad(self, feats, **bad):
        self.viol.append((feats, bad))

    def ask(self, method, params):
        r = self.sess.request(method, params, timeout=120.0)
        self.evals += 1
        return r

    # ---- one definition probe
    def probe_definition(self, parts, p, rnd):
        feats = {"query": p["q"], "style": p["style"], "round": rnd, "importer_kind": self.importer_kind(parts),
                 "importer_entry": self.importer_entry(parts),
                 "target_kind": self.tree.kind_of_pkg(p["targetpkg"]) if p["target"] else "none",
                 "target_entry": self.tree.entry_of_pkg(p["targetpkg"]) if p["target"] else "none",
                 "expected": "resolved" if p["target"] else "unresolved",
                 "name_is": p["name_is"],
                 "importer_pkg_via_path_only": self.tree.via_path_only(self.tree.files[tuple(parts)]["pkg"]),
                 "importer_pkg_pinned_via_dotdot": self.tree.pinned_via_dotdot(self.tree.files[tuple(parts)]["pkg"])}
        if rnd == "early" and feats["importer_entry"] == "path" and feats["target_entry"] == "version" and not self.root_known:
            # only files of local path dependencies have been opened so far: nothing has told the server yet which project's
            # build/packages holds the packages named by version.  Asked again in the final round.
            self.stats["skipped_early"] += 1
            return
        r = self.ask("textDocument/definition", self.pos_params(parts, p["line"], p["col"]))
        where = {"file": rel(parts), "line": p["line"], "col": p["col"], "import": "/".join(p["name"]),
                 "expected_target": rel(p["target"]) if p["target"] else None}
        if r is None:
            self.bad(dict(feats, what="no response"), **where)
            return
        importer = os.path.normpath(self.abspath(parts))
        if "error" in r:
            msg = r["error"].get("message", "")[:300]
            if tuple(parts) == self.tree.free:
                self.bad(dict(feats, what="error response on free-standing file"), error=msg, **where)
            elif p["target"]:
                self.bad(dict(feats, what="error response"), error=msg, **where)
            else:
                self.stats["error_at_unresolved"] += 1
            return
        locs = locations(r.get("result"))
        self.stats["nonnormal_uri"] += sum(1 for (n, _, raw) in locs if norm_uri(raw) != unquote(raw[len("file://"):]))
        got = [os.path.relpath(n, self.root) for (n, _, _) in locs]
        if p["target"]:
            self.stats["resolved"] += 1
            if self.tree.files[tuple(p["target"])]["pkg"] != self.tree.files[tuple(parts)]["pkg"]:
                self.stats["cross_pkg"] += 1
            exp = os.path.normpath(self.abspath(p["target"]))
            if not locs:
                self.bad(dict(feats, what="unresolved"), got=None, **where)
                return
            wrong = [g for (n, _, _), g in zip(locs, got) if n != exp]
            if wrong:
                invisible = any(os.path.normpath(self.abspath(d)) == n for d in p["decoys"] for (n, _, _) in locs)
                self.bad(dict(feats, what="wrong target", got_is_same_named_module=invisible), got=got, **where)
                return
            raw = [r for (_, _, r) in locs if norm_uri(r) != unquote(r[len("file://"):])]
            if raw:
                # right file, but named through another package's directory ("app/../lib/src/m.gleam"): the server holds the
                # file a second time under that path, i.e. the file belongs to two package roots at once
                self.bad(dict(feats, what="non-canonical target URI"), got=[r.replace(self.root, "") for r in raw], **where)
            if p["member"]:
                d = self.tree.defs[tuple(p["target"])][p["member"]]
                if not any(rg and overlaps(rg, *d) for (_, rg, _) in locs):
                    self.bad(dict(feats, what="wrong range"), got=[rg for (_, rg, _) in locs], expected_name_at=d, **where)
        else:
            self.stats["unresolved"] += 1
            other = [g for (n, _, _), g in zip(locs, got) if n != importer]
            if other:
                invisible = any(os.path.normpath(self.abspath(d)) == n for d in p["decoys"] for (n, _, _) in locs)
                self.bad(dict(feats, what="resolved to a module that is not visible" if invisible else "resolved but must not"),
                         got=got, **where)

    # ---- External
    def probe_gate(self, parts, line, col, external, feats, where):
        r = self.ask("textDocument/prepareRename", self.pos_params(parts, line, col))
        if r is None:
            self.bad(dict(feats, what="no response"), **where)
            return
        refused = "error" in r or r.get("result") is None
        if external:
            self.stats["gate_external"] += 1
            if not refused:
                self.bad(dict(feats, what="external symbol offered for rename"), got=r.get("result"), **where)
        else:
            self.stats["gate_local"] += 1
            if refused:
                self.bad(dict(feats, what="local symbol refused for rename"),
                         got=(r.get("error") or {}).get("message", "null")[:200], **where)

    def probe_rename(self, parts, line, col, feats, where, external=False):
        params = self.pos_params(parts, line, col)
        params["newName"] = "renamed_by_c17"
        r = self.ask("textDocument/rename", params)
        self.stats["rename_external" if external else "rename"] += 1
        if r is None:
            self.bad(dict(feats, what="no response"), **where)
            return
        if "error" in r or not r.get("result"):
            return
        res = r["result"]
        uris = list((res.get("changes") or {}).keys())
        for dc in res.get("documentChanges") or []:
            if "textDocument" in dc:
                uris.append(dc["textDocument"]["uri"])
        if external:
            # a symbol of a build/packages package: rename must answer like prepareRename, with an error and no edits
            self.bad(dict(feats, what="external symbol renamed"),
                     got=[os.path.relpath(norm_uri(u), self.root) for u in uris], **where)
            return
        ext_dirs = [os.path.normpath(os.path.join(self.root, *p["loc"])) + os.sep for p in self.case["pkgs"] if p["external"]]
        hit = [u for u in uris if any((norm_uri(u) + os.sep).startswith(d) or norm_uri(u).startswith(d) for d in ext_dirs)]
        if hit:
            pkg_of = lambda u: next(p["id"] for p in self.case["pkgs"] if p["external"] and
                                    norm_uri(u).startswith(os.path.normpath(os.path.join(self.root, *p["loc"])) + os.sep))
            # one report per edited package (each has its own explanation, if any)
            for pid in sorted({pkg_of(u) for u in hit}):
                self.bad(dict(feats, what="rename of a local symbol edits build/packages",
                              edited_pkgs_via_path_only=self.tree.via_path_only(pid),
                              edited_pkgs_pinned_via_dotdot=self.tree.pinned_via_dotdot(pid)),
                         got=[os.path.relpath(norm_uri(u), self.root) for u in hit if pkg_of(u) == pid], **where)

    def probes_of_file(self, parts, rnd):
        t = self.tree
        f = t.files[tuple(parts)]
        for p in t.probes[tuple(parts)]:
            self.probe_definition(parts, p, rnd)
            if not self.sess.alive():
                return
        if rnd != "final":
            return
        # External(pkg) observed through the rename gate
        if f["role"] == "module":
            ext = self.tree.pkgs[f["pkg"]]["external"]
            line, c0, _ = t.defs[tuple(parts)]["fn"]
            feats = {"query": "prepareRename", "on": "definition", "importer_kind": self.importer_kind(parts),
                     "importer_entry": self.importer_entry(parts),
                     "target_kind": self.importer_kind(parts), "target_entry": self.importer_entry(parts), "round": rnd,
                     "importer_pkg_via_path_only": self.tree.via_path_only(f["pkg"]),
                     "importer_pkg_pinned_via_dotdot": self.tree.pinned_via_dotdot(f["pkg"]),
                     "target_pkg_pinned_via_dotdot": self.tree.pinned_via_dotdot(f["pkg"])}
            where = {"file": rel(parts), "line": line, "col": c0 + 2}
            self.probe_gate(parts, line, c0 + 2, ext, feats, where)
            self.probe_rename(parts, line, c0 + 2, dict(feats, query="rename"), where, external=ext)
        for p in t.probes[tuple(parts)]:
            if not p.get("rename") or not p["target"]:
                continue
            ext = self.tree.pkgs[p["targetpkg"]]["external"]
            feats = {"query": "prepareRename", "on": p["q"], "importer_kind": self.importer_kind(parts),
                     "importer_entry": self.importer_entry(parts),
                     "target_kind": self.tree.kind_of_pkg(p["targetpkg"]),
                     "target_entry": self.tree.entry_of_pkg(p["targetpkg"]), "round": rnd,
                     "importer_pkg_via_path_only": self.tree.via_path_only(f["pkg"]),
                     "importer_pkg_pinned_via_dotdot": self.tree.pinned_via_dotdot(f["pkg"]),
                     "target_pkg_pinned_via_dotdot": self.tree.pinned_via_dotdot(p["targetpkg"])}
            where = {"file": rel(parts), "line": p["line"], "col": p["col"], "import": "/".join(p["name"]),
                     "expected_target": rel(p["target"])}
            self.probe_gate(parts, p["line"], p["col"], ext, feats, where)

    def probe_free(self, rnd):
        t = self.tree
        parts = list(t.free)
        line, c0, _ = t.defs[t.free]["own_use"]
        feats = {"importer_kind": "free", "round": rnd}
        where = {"file": rel(parts), "line": line, "col": c0 + 1}
        for method in ("textDocument/definition", "textDocument/hover"):
            r = self.ask(method, self.pos_params(parts, line, c0 + 1))
            self.stats["free"] += 1
            if r is None or "error" in r:
                self.bad(dict(feats, what="free-standing file not answered", query=method.split("/")[1]),
                         got=None if r is None else r["error"].get("message", "")[:300], **where)
            elif method.endswith("definition"):
                locs = locations(r.get("result"))
                if any(n != os.path.normpath(self.abspath(parts)) for (n, _, _) in locs):
                    self.bad(dict(feats, what="wrong target", query="definition"), got=[n for (n, _, _) in locs], **where)
        r = self.sess.syntax_tree(self.abspath(parts), timeout=120.0)
        self.evals += 1
        self.stats["free"] += 1
        if r is None or "error" in r or not isinstance(r.get("result"), str):
            self.bad(dict(feats, what="free-standing file not answered", query="syntaxTree"), got=str(r)[:300], **where)

    def toml_history(self):
        """the root project's gleam.toml loses one dependency entry on disk (reported through didChangeWatchedFiles) and gets
        it back: in between, the imports of the root project's files resolve as Layout.Alt says, afterwards as before"""
        alt = self.case["alt"]
        rootpkg = self.case["pkgs"][0]
        toml_rel = os.path.join(*rootpkg["loc"], "gleam.toml")
        toml = os.path.join(self.root, toml_rel)
        full = self.tree.tomls[toml_rel]
        dropped = "\n".join(l for l in full.split("\n") if not l.startswith(alt["dropname"] + " =")) + ("" if full.endswith("\n") else "")
        if dropped == full:
            raise vlib.ToolError("toml history: no entry for " + alt["dropname"])
        exp = {(tuple(u["from"]), tuple(u["name"])): u for u in alt["uses"]}
        for rnd, text in (("toml_dropped", dropped), ("toml_restored", full)):
            with open(toml, "w") as fh:
                fh.write(text)
            self.sess.notify("workspace/didChangeWatchedFiles", {"changes": [{"uri": lsp.uri(toml), "type": 2}]})
            for parts in self.case["order"]:
                f = self.tree.files[tuple(parts)]
                if f["pkg"] != rootpkg["id"]:
                    continue
                for p in self.tree.probes[tuple(parts)]:
                    if rnd == "toml_dropped":
                        u = exp.get((tuple(parts), tuple(p["name"])))
                        if u is None:
                            continue
                        decoys = list(p["decoys"]) + ([p["target"]] if p["target"] and list(p["target"]) != list(u["target"]) else [])
                        member = p["member"] if list(u["target"]) == list(p["target"] or []) else None
                        p2 = dict(p, target=u["target"] or None, targetpkg=u["targetpkg"], decoys=decoys, member=member)
                        if not p2["target"]:
                            p2["target"] = None
                        self.probe_definition(parts, p2, rnd)
                    else:
                        self.probe_definition(parts, p, rnd)
                    if not self.sess.alive():
                        return

    def run(self):
        shutil.rmtree(self.root, ignore_errors=True)
        os.makedirs(self.root)
        self.tree.write(self.root)
        self.sess = lsp.Session(self.root, stderr_path=os.path.join(self.root, "server-stderr.log"))
        try:
            if self.sess.initialize() is None:
                raise vlib.ToolError("server did not answer initialize")
            done = []
            for parts in self.case["order"]:
                path = self.abspath(parts)
                with open(path) as fh:
                    self.sess.did_open(path, fh.read())
                done.append(parts)
                owner = self.tree.files[tuple(parts)]["pkg"]
                if owner and (owner == self.case["pkgs"][0]["id"] or self.tree.pkgs[owner]["external"]):
                    # a file of the root project, or of a package in its build/packages (the server walks up to the
                    # enclosing project); a nested member or a sibling is a project of its own
                    self.root_known = True
                if len(done) == len(self.case["order"]):
                    break      # the last file: its early round would be asked in the very state the final round starts in
                if tuple(parts) == self.tree.free:
                    self.probe_free("early")
                self.probes_of_file(parts, "early")
                if not self.sess.alive():
                    break
            if self.sess.alive():
                for parts in self.case["order"]:
                    if tuple(parts) == self.tree.free:
                        self.probe_free("final")
                    self.probes_of_file(parts, "final")
                    if not self.sess.alive():
                        break
            if self.sess.alive() and (self.case.get("alt") or {}).get("drop"):
                self.toml_history()
            if not self.sess.alive():
                self.bad({"what": "server died", "importer_kind": "-", "round": "-"},
                         exit_code=self.sess.exit_code(), opened=[rel(p) for p in done])
        finally:
            self.sess.close()
            # the results of all configurations are kept until the end of the run: do not keep the server's pipes with them
            self.sess.t.join(2.0)      # the reader thread ends at EOF of the server's stdout
            for pipe in (self.sess.p.stdin, self.sess.p.stdout):
                try:
                    pipe.close()
                except OSError:
                    pass
            self.sess = None
        return self


def features_of_case(case):
    kinds = [KIND[(p["entry"], p["place"])] for p in case["pkgs"]]
    pk = {p["id"]: p for p in case["pkgs"]}
    direct = {(p["id"], d["id"]) for p in case["pkgs"] for d in p["deps"]}
    trans = any((a, c) not in direct for (a, b) in direct for (b2, c) in direct if b == b2)
    fpk = {tuple(f["path"]): f["pkg"] for f in case["files"]}
    cross = any(u["target"] and fpk[tuple(u["target"])] != fpk[tuple(u["from"])] for u in case["uses"])
    names = {}
    for f in case["files"]:
        if f["role"] == "module":
            names.setdefault(tuple(f["modname"]), set()).add(f["pkg"])
    shadow = any(u["target"] and fpk[tuple(u["target"])] == fpk[tuple(u["from"])] and
                 any(fpk[tuple(d)] in {b for (a, b) in direct if a == fpk[tuple(u["from"])]} for d in u["decoys"])
                 for u in case["uses"])
    first = case["order"][0]
    first_kind = "free" if fpk[tuple(first)] == "" else KIND[(pk[fpk[tuple(first)]]["entry"], pk[fpk[tuple(first)]]["place"])]
    modfiles = [f for f in case["files"] if f["role"] == "module"]
    modnames = {tuple(f["modname"]) for f in modfiles}
    twins = [p for p in case["pkgs"] if p["twin_of"]]
    names_of = lambda pid: {tuple(f["modname"]) for f in modfiles if f["pkg"] == pid}
    return {"npk": len(kinds), "registry": "registry" in kinds, "path": "path" in kinds,
            # entry x place: a path entry pointing into build/packages, a member nested in the root project, a same-named
            # directory next to a build/packages package (and one offering a module name of its original)
            "pinned": "pinned" in kinds, "nested": "nested" in kinds, "twin": bool(twins),
            "twin_shares_module_name": any(names_of(t["id"]) & names_of(t["twin_of"]) for t in twins),
            "path_entry_from_build_packages": any(p["place"] == "packages" and d["entry"] == "path"
                                                  for p in case["pkgs"] for d in p["deps"]),
            # module directories called src / test / build / packages below src/ or test/
            "special_dir": any(set(f["modname"][:-1]) & SPECIAL_SEGMENTS for f in modfiles),
            "plain_nested_dir": any(len(f["modname"]) > 1 and not set(f["modname"][:-1]) & SPECIAL_SEGMENTS for f in modfiles),
            "dir_named_like_its_source_dir": any(f["modname"][0] in ("src", "test") and len(f["modname"]) > 1 for f in modfiles),
            # `import helpers` next to test/helpers: must stay unresolved / must find the real module helpers
            "tail_import_unresolved": any(tuple(u["name"]) not in modnames and not u["target"] and fpk[tuple(u["from"])]
                                          for u in case["uses"]),
            "tail_is_also_a_module": any(tuple(u["name"]) in modnames and u["target"] and
                                         any(len(fm["modname"]) > len(u["name"]) for fm in modfiles
                                             if tuple(fm["path"]) in {tuple(d) for d in u["decoys"]})
                                         for u in case["uses"]),
            "transitive_chain": trans,
            "cross_package_import": cross, "equal_names": any(len(v) > 1 for v in names.values()),
            "own_shadows_dep": shadow, "first_opened": first_kind,
            "nested_dir": any(len(f["modname"]) > 1 for f in case["files"]),
            "test_dir": any(f["role"] == "module" and f["path"][-len(f["modname"]) - 1] == "test" for f in case["files"]),
            "unresolved_with_decoy": any((not u["target"]) and u["decoys"] and fpk[tuple(u["from"])] for u in case["uses"])}


def run_cases(out, cases, salt0, workers=min(12, max(4, vlib.NCPU - 4)), keep_dirs=False):
    base = vlib.workdir("c17")
    results = [None] * len(cases)

    def one(i):
        root = os.path.join(base, str(i))
        cr = CaseRun(cases[i], salt0 + i, root).run()
        if not cr.viol and not keep_dirs:
            shutil.rmtree(root, ignore_errors=True)
        return i, cr

    with concurrent.futures.ThreadPoolExecutor(max_workers=workers) as ex:
        for i, cr in ex.map(one, range(len(cases))):
            results[i] = cr
    agg = {}
    cover = {}
    nontrivial = 0
    for i, cr in enumerate(results):
        cf = features_of_case(cases[i])
        for k, v in cf.items():
            key = f"{k}={v}"
            cover[key] = cover.get(key, 0) + 1
        if cf["npk"] >= 2 and cf["cross_package_import"]:
            nontrivial += 1
        out.cov["traces_validated_against_impl"] += 1
        out.cov["evaluations"] += cr.evals
        for k, v in cr.stats.items():
            agg[k] = agg.get(k, 0) + v
        seen = set()
        before = len(out.violations)
        for feats, bad in cr.viol:
            # one report per distinct feature vector and configuration
            key = json.dumps(feats, sort_keys=True)
            if key in seen:
                continue
            seen.add(key)
            out.report(feats, {"case": cases[i], "salt": salt0 + i, "bad": bad,
                               "all_bad_of_case": [b for (f2, b) in cr.viol][:12], "tree": os.path.join(base, str(i))})
        if cr.viol and len(out.violations) == before and not keep_dirs:
            # every disagreement of this configuration is a known finding: the tree is not needed (--replay rebuilds it)
            shutil.rmtree(os.path.join(base, str(i)), ignore_errors=True)
    out.cov["distinct_nontrivial"] += nontrivial
    return agg, cover


# --------------------------------------------------------------------------------------------------

def gen(out, tier, seed):
    bfs_cfg = "Layout_q.cfg" if tier == "quick" else "Layout_t.cfg"
    r = vlib.tlc("Layout", bfs_cfg, workers=1 if tier == "quick" else 4, coverage=True, timeout=1500)
    vlib.require_ok(r, "Layout " + bfs_cfg)
    out.add_tlc(r, "MC invariants + GEN all configurations within " + bfs_cfg)
    for a in ACTIONS_BFS:
        if r.coverage.get(a, 0) == 0:
            raise vlib.ToolError(f"Layout: action {a} never fired in {bfs_cfg}")
    bfs = list(r.cases())
    if len({json.dumps(c, sort_keys=True) for c in bfs}) != len(bfs):
        raise vlib.ToolError("Layout BFS printed a configuration twice (builder not canonical)")
    want_sim, procs, num = (150, 1, 8) if tier == "quick" else (2600, 4, 30)
    sims = []

    def sim(k):
        return vlib.tlc("Layout", "Layout_sim.cfg", workers=1, simulate=num, depth=500, seed=seed * 16 + k, timeout=1500,
                        name=f"Layout-sim-{k}")

    with concurrent.futures.ThreadPoolExecutor(max_workers=procs) as ex:
        for rs in ex.map(sim, range(procs)):
            vlib.require_ok(rs, "Layout simulation")
            out.add_tlc(rs, "GEN simulated configurations (<= 4 packages, arbitrary open orders)")
            sims += list(rs.cases())
    uniq, seen = [], set()
    for c in sims:
        k = json.dumps(c, sort_keys=True)
        if k not in seen:
            seen.add(k)
            uniq.append(c)
    if len(uniq) < want_sim:
        raise vlib.ToolError(f"simulation produced only {len(uniq)} distinct configurations (wanted {want_sim})")
    return bfs, uniq[:want_sim]


def vacuity(cover, n):
    """the generated population must contain the situations the property talks about"""
    need = ["npk=4", "npk=1", "registry=True", "path=True", "transitive_chain=True", "cross_package_import=True",
            "equal_names=True", "own_shadows_dep=True", "first_opened=root", "first_opened=registry", "first_opened=path",
            "first_opened=free", "nested_dir=True", "test_dir=True", "unresolved_with_decoy=True",
            "pinned=True", "nested=True", "twin=True", "twin_shares_module_name=True", "special_dir=True", "plain_nested_dir=True",
            "dir_named_like_its_source_dir=True", "tail_import_unresolved=True", "tail_is_also_a_module=True",
            "first_opened=pinned", "first_opened=nested"]
    missing = [k for k in need if cover.get(k, 0) == 0]
    if missing:
        raise vlib.ToolError("generated configurations never exercise: " + ", ".join(missing))


def run(out, tier, seed):
    bfs, sims = gen(out, tier, seed)
    cases = bfs + sims
    agg, cover = run_cases(out, cases, salt0=seed)
    vacuity(cover, len(cases))
    for k in ("resolved", "unresolved", "cross_pkg", "gate_external", "gate_local", "rename", "rename_external", "free"):
        if agg.get(k, 0) == 0:
            raise vlib.ToolError(f"no comparison of kind {k} was made")
    out.cov["exhaustive"] = True
    out.cov["comparisons"] = agg
    out.cov["population"] = cover
    out.cov["samples"] += [cases[0], cases[len(bfs) // 2], sims[0], sims[-1]]
    out.cov["rule"] = (
        "TLC enumerates every configuration of Layout within the bounds of the BFS cfg exactly once (%d) and checks the model "
        "invariants (Resolve is a function into Visible(RootOf(importer)), RootOf = unique longest-prefix root, ModuleName = "
        "path below src|test and injective per package, External <=> the directory is build/packages/<name>) on each; the "
        "dependency packages range over entry (version | path | none) x place (build/packages | sibling | nested in the "
        "root), module directories over {dir, sub, src, test, build, packages}; %d further distinct configurations (up to 4 "
        "packages, 12 module names, src+test, 3 locations of the local packages, twins, arbitrary open orders) are drawn by "
        "TLC -simulate.  Every file imports every module name in use and every proper tail of one.  Every configuration is written to disk, a fresh "
        "server process opens the files in the configuration's order, and every import use site is asked twice "
        "(after its file was opened; after all files are open).  evaluations = LSP requests compared; distinct_nontrivial = "
        "configurations with >= 2 packages and at least one import that must resolve into another package"
        % (len(bfs), len(sims)))
    out.assumptions += [
        "importer's own module wins over an equally named module of a dependency; two direct dependencies of one package "
        "never export the same module name (Gleam rejects such projects)",
        "a version entry names <root project>/build/packages/<name>, for every package of the project (also for path "
        "dependencies), as the gleam build tool lays them out; a path entry names the directory it spells, wherever that is",
        "a package is external exactly if its directory is .../build/packages/<name> (the property's rule); how it is referred "
        "to (version or path entry) does not matter",
        "a same-named directory next to a build/packages package (twin) is a project of its own: nothing resolves into it",
        "URIs are compared after lexical normalisation of '..'",
        "imports are acyclic (Gleam rejects cycles); every module imports every name that does not create a cycle",
        "TLC/SANY, Json module; python LSP client framing (bin/lsp.py)"]


def replay(out, path):
    d = json.load(open(path))["detail"]
    agg, _ = run_cases(out, [d["case"]], salt0=d["salt"], workers=1, keep_dirs=True)
    out.cov["comparisons"] = agg
