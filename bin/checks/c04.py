"""C04 - well-formed programs parse error-free with Gleam's structure.
Spec: GleamSyn.tla - the reference grammar of the supported surface syntax as a pushdown generator that emits the
token sequence together with brackets recording the tree the grammar assigns (binary operators by precedence and left
associativity, prefix operators tighter, postfix chains, pipelines, statement / clause / item boundaries, labels,
patterns, type expressions).  MC: brackets balanced, precedence levels disjoint.  GEN: every program (all operator
pairs and triples, every production once in every slot by BFS, larger ones by simulation) is rendered with plain, tight
and seeded whitespace/comment layouts and parsed by the real parser: no syntax errors, the tree's structure over the
grouping node kinds equals the bracket structure, typed accessors agree with source positions."""
import json, os
import vlib

UNMASK = ["todo_operand", "p_neg"]


SPELL = {}


def run_syn(out, path, seed, run_label):
    args = ["--threads", str(vlib.NCPU)]
    if SPELL.get("path"):
        args += ["--spellings", SPELL["path"]]
    p = vlib.run_bin("syncheck", args, stdin_path=path, env={"VERIF_SEED": str(seed)}, timeout=7200)
    if p.returncode != 0:
        raise vlib.ToolError("syncheck crashed: " + p.stderr.decode()[-2000:])
    recs = vlib.json_lines(p.stdout)
    for r in recs:
        if r["kind"] == "mismatch":
            f = dict(r["features"])
            f["run"] = run_label
            out.report(f, r["detail"])
    return [r for r in recs if r["kind"] == "summary"][0]


def dump(results, name):
    """streams the programs printed by the TLC runs into one ndjson file (never held in memory)"""
    d = vlib.workdir("c04-" + name)
    path = os.path.join(d, "programs.ndjson")
    n = 0
    with open(path, "w") as f:
        for r in results:
            for body in r.raw_cases():
                f.write(body + "\n")
                n += 1
    return path, n


def run(out, tier, seed):
    main = []
    for cfg in (["GleamSyn_ops.cfg", "GleamSyn_post.cfg", "GleamSyn_b2.cfg"] if tier == "quick" else ["GleamSyn_ops.cfg", "GleamSyn_post.cfg", "GleamSyn_b3.cfg"]):
        r = vlib.tlc("GleamSyn", cfg, workers=8, timeout=3000, heap="8g", coverage=(cfg == "GleamSyn_b2.cfg"))
        vlib.require_ok(r, cfg)
        out.add_tlc(r, "MC Balanced + GEN (BFS) " + cfg)
        main.append(r)
        if not SPELL:
            # the literal classes of the specification (GleamSyn.LiteralSpellings)
            sp = list(r.cases("SPELL"))
            if not sp:
                raise vlib.ToolError("GleamSyn did not print its literal classes")
            SPELL["path"] = os.path.join(vlib.workdir("c04-spell"), "spellings.json")
            json.dump(sp[0], open(SPELL["path"], "w"))
    nsim, per = (4, 50) if tier == "quick" else (12, 2500)
    jobs = [dict(module="GleamSyn", cfg="GleamSyn_sim.cfg", workers=1, simulate=per, depth=3000, seed=seed * 1000 + i, timeout=3000, name=f"gs-sim-{i}")
            for i in range(nsim)]
    jobs += [dict(module="GleamSyn", cfg=f"GleamSyn_un_{p}.cfg", workers=1, simulate=(20 if tier == "quick" else 300), depth=3000,
                  seed=seed * 1000 + 900 + i, timeout=3000, name=f"gs-un-{p}") for i, p in enumerate(UNMASK)]
    rs = vlib.tlc_many(jobs, max_parallel=7)
    extra = {}
    for j, r in zip(jobs, rs):
        vlib.require_ok(r, j["name"])
        out.add_tlc(r, "GEN simulation " + j["cfg"])
        if j["cfg"] == "GleamSyn_sim.cfg":
            main.append(r)
        else:
            extra[j["cfg"][len("GleamSyn_un_"):-4]] = r
    path, n = dump(main, "main")
    vlib.log(f"C04: {n} programs")
    s = run_syn(out, path, seed, "main")
    for p, r in extra.items():
        path, n = dump([r], p)
        if not n:
            raise vlib.ToolError("no programs for unmasked production " + p)
        s2 = run_syn(out, path, seed, "unmasked:" + p)
        out.cov["evaluations"] += s2["parses"]
    out.cov["traces_validated_against_impl"] += s["programs"]
    out.cov["evaluations"] += s["parses"]
    out.cov["distinct_nontrivial"] += s["programs"]
    out.cov["samples"] += s["samples"]
    out.cov["exhaustive"] = True
    out.cov["rule"] = ("all expressions with up to three operator applications over one representative per precedence level + prefix + postfix "
                       "(every pair and triple), every production of the grammar in every slot within the BFS budget, seeded simulation of larger "
                       "files with every operator spelling; three layouts each (single spaces, no spaces around punctuation, random "
                       "whitespace/newlines/comments); distinct_nontrivial = distinct programs checked")
    out.assumptions += ["GleamSyn is a transcription of the supported grammar (no Gleam compiler in the sandbox to cross-check)",
                        "which node kinds count as grouping (structural) vs. transparent wrappers is fixed in harness/src/bin/syncheck.rs",
                        "a statement or clause starting with `-` right after another one is skipped: Gleam itself reads it as a subtraction"]


def replay(out, path):
    d = json.load(open(path))
    wd = vlib.workdir("c04-replay")
    pp = os.path.join(wd, "programs.ndjson")
    with open(pp, "w") as f:
        f.write(json.dumps(d["detail"]["case"]) + "\n")
    run_syn(out, pp, 1, d["features"].get("run", "main"))
