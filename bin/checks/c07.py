"""C07 - rename to a fresh name preserves what every identifier means.
Spec: GleamGen.tla supplies, for every declaration of a generated program, the set of tokens a rename must rewrite
(RenameSet: the declaring token and every occurrence bound to it that is spelled with its own name; TLC checks
RenameComplete on the model).  GEN: for every declaration the real rename (queried at a seeded occurrence, fresh
lower/upper-case name) must produce exactly that edit set as whole-token, non-overlapping edits; after applying them
the binding map (goto at every identifier) and the diagnostics are unchanged, and renaming back restores the text.
Workspace: m1 in package `app`, the library modules m2 and sub/m2 in a second local package `lib` that `app` depends on
(one workspace in four: a single package).  A library declaration (reached through either accessor or an unqualified
import) is renamed twice - from a seeded occurrence in m1 and from its declaration: the edits must cover the occurrences
in the dependent package AND the declaration plus its uses inside its own module; the other library module (same names,
same last path segment) must stay untouched."""
import json
import vlib
from checks import scope_common


def run_rename(out, cases, seed, name):
    d = vlib.workdir("c07-" + name)
    import os
    if isinstance(cases, scope_common.Programs):
        path = cases.path
    else:
        path = os.path.join(d, "programs.ndjson")
        with open(path, "w") as f:
            for c in cases:
                f.write(json.dumps(c) + "\n")
    p = vlib.run_bin("renamecheck", ["--threads", str(vlib.NCPU)], stdin_path=path, env={"VERIF_SEED": str(seed)}, timeout=7200)
    if p.returncode != 0:
        raise vlib.ToolError("renamecheck crashed: " + p.stderr.decode()[-2000:])
    recs = vlib.json_lines(p.stdout)
    summary = [r for r in recs if r["kind"] == "summary"][0]
    for r in recs:
        if r["kind"] == "mismatch":
            out.report(r["features"], r["detail"])
    return summary


def run(out, tier, seed):
    main, _ = scope_common.programs(out, tier, seed)
    s = run_rename(out, main, seed, "main")
    last = main.last()
    if s["edit_sets_equal"] < 1000:
        raise vlib.ToolError("too few accepted renames - vacuous run")
    out.cov["traces_validated_against_impl"] += s["programs"]
    out.cov["evaluations"] += s["renames_tried"]
    out.cov["distinct_nontrivial"] += s["edit_sets_equal"]
    out.cov["samples"] += [{"refusal_messages_seen": s["refusal_messages"], "renames_tried": s["renames_tried"], "refused": s["refused"]},
                           {"program": " ".join(t["t"] for t in last["out"] if t["r"] not in ("open", "close")), "ren": last["ren"]}]
    out.cov["exhaustive"] = True
    out.cov["rule"] = ("every declaration (local binder of every pattern form, parameter, function, constant, type, field; library function/"
                       "constructor/constant/type/field of m2 and sub/m2 reached through either accessor or unqualified imports) of every GleamGen "
                       "program (BFS b1 + b1h over all import headers + simulation) is renamed once from a seeded occurrence, library declarations "
                       "also from their declaration in the other package; distinct_nontrivial = renames whose edit set (all three modules) matched "
                       "and that went through apply / re-analysis / rename-back")
    out.assumptions += ["the fresh names zz9 / Zz9 occur nowhere in the generated programs", "refused renames are outside C07 (C08 decides them)"]


def replay(out, path):
    d = json.load(open(path))["detail"]
    case = dict(d["case"])
    case["plain"] = True
    run_rename(out, [case], 1, "replay")
