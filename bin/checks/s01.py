"""S01 (supplementary, not one of the listed properties) - signature help shows the callee's type and the active parameter.
Spec: Typing.tla tags the `(` and the commas of calls to functions whose signature is known by construction (generated
functions called backwards, the prelude's `add`) with the text a conforming signature help must show there -
`(P1, lb: P2) -> R`, the callee's type as instantiated at this call, labelled parameters with their label - and the
index of the active parameter (CallSig / CALLOPEN / ARGSEP).
GEN: the same programs as C09; with the cursor right after each tagged token the real signature help must return that
signature (type variables renamed, whitespace normalised) and that active parameter.
This check is part of the growth of the specification beyond the listed properties (DESIGN.md section 10): it is not
in MANIFEST.checks, writes evidence/S01.json and follows the same exit-code / VIOLATION / KNOWN-FINDING conventions."""
import json, os
import vlib
from checks import c09


def run(out, tier, seed):
    jobs, main, _ = c09.generate(tier, seed, "s01", unmasked=False)
    for j, r in zip(jobs, main):
        out.add_tlc(r, "GEN " + j["cfg"])
    path = os.path.join(vlib.workdir("s01"), "programs.ndjson")
    c09.write_cases(path, main)
    s = c09.run_file(out, path, seed, "main", prop="S01")
    if s["signature_helps"] < 100:
        raise vlib.ToolError("too few tagged call sites - vacuous run")
    out.cov["traces_validated_against_impl"] += s["programs"]
    out.cov["evaluations"] += s["signature_helps"]
    out.cov["distinct_nontrivial"] += s["signature_helps"]
    out.cov["exhaustive"] = False
    out.cov["rule"] = ("every `(` and `,` of every positional call to an earlier generated function (generic ones at the call's instantiation, "
                       "labelled parameters shown with their label) or to the prelude's add in the C09 programs")
    out.assumptions += ["the signature text format `(P1, P2) -> R` is glas' own (ide::SignatureHelp::signature)"]


def replay(out, path):
    d = json.load(open(path))
    c09.run_ty(out, [d["detail"]["case"]], 1, "s01-replay", d["features"].get("run", "main"), prop="S01")
