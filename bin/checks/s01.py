"""S01 (supplementary, not one of the listed properties) - signature help shows the callee's type and the active parameter.
Spec: Typing.tla tags the `(` and the commas of calls to functions whose signature is known by construction (generated
functions called backwards, the prelude's `add`) with the text a conforming signature help must show there -
`(P1, P2) -> R` - and the index of the active parameter (CallSig / CALLOPEN / ARGSEP).
GEN: the same programs as C09; with the cursor right after each tagged token the real signature help must return that
signature (type variables renamed, whitespace normalised) and that active parameter.
This check is part of the growth of the specification beyond the listed properties (DESIGN.md section 10): it is not
in MANIFEST.checks, writes evidence/S01.json and follows the same exit-code / VIOLATION / KNOWN-FINDING conventions."""
import json
import vlib
from checks import c09


def run(out, tier, seed):
    r = vlib.tlc("Typing", "Typing_b.cfg", workers=8, timeout=3000, heap="8g")
    vlib.require_ok(r, "Typing BFS")
    out.add_tlc(r, "GEN (BFS, one function, every goal type)")
    cases = list(r.cases())
    nsim, per = (4, 120) if tier == "quick" else (12, 4000)
    jobs = [dict(module="Typing", cfg="Typing_sim.cfg", workers=1, simulate=per, depth=4000, seed=seed * 1000 + i, timeout=3000, name=f"s01-sim-{i}")
            for i in range(nsim)]
    for j, r2 in zip(jobs, vlib.tlc_many(jobs, max_parallel=6)):
        vlib.require_ok(r2, j["name"])
        out.add_tlc(r2, "GEN simulation " + j["cfg"])
        cases += list(r2.cases())
    s = c09.run_ty(out, cases, seed, "s01", "main", prop="S01")
    if s["signature_helps"] < 100:
        raise vlib.ToolError("too few tagged call sites - vacuous run")
    out.cov["traces_validated_against_impl"] += s["programs"]
    out.cov["evaluations"] += s["signature_helps"]
    out.cov["distinct_nontrivial"] += s["signature_helps"]
    out.cov["exhaustive"] = False
    out.cov["rule"] = "every `(` and `,` of every call to a backwards-called generated function or to the prelude's add in the C09 programs"
    out.assumptions += ["the signature text format `(P1, P2) -> R` is glas' own (ide::SignatureHelp::signature)"]


def replay(out, path):
    d = json.load(open(path))
    c09.run_ty(out, [d["detail"]["case"]], 1, "s01-replay", d["features"].get("run", "main"), prop="S01")
