"""C11 - answers after any edit history equal a fresh analysis of the result.
Spec: Workspace.tla in history mode - the observable Obs is a function of the current workspace only (there is no
history argument), so after any sequence of steps (and whatever queries were asked in between) the answers must be those
of a freshly started analysis.  GEN: TLC simulates histories (8 steps: token edits, truncation, duplication, file
replacement / emptying / adding / renaming, element insertion / removal, import rewiring, the package graph alone, a second
dependency with an equally named module, edits delivered in one batch, interleaved queries) annotated with the workspace after
each step, and enumerates EVERY workspace one damage step from small seeds (taken forwards and backwards); one
long-lived AnalysisHost receives the changes the way the server builds them and after every step every query at every
token boundary is compared with a fresh host and with a second fresh host queried in reverse order."""
import json, os
import vlib
from checks import ws_common


def run_hist(out, hs, seed, name, filler=0):
    d = vlib.workdir("c11-" + name)
    path = os.path.join(d, "hist.ndjson")
    with open(path, "w") as f:
        for h in hs:
            f.write(json.dumps(h) + "\n")
    args = ["--threads", str(vlib.NCPU)]
    if filler:
        args += ["--filler", str(filler)]
    p = vlib.run_bin("histcheck", args, stdin_path=path, env={"VERIF_SEED": str(seed)}, timeout=7200)
    if p.returncode != 0:
        raise vlib.ToolError("histcheck crashed: " + p.stderr.decode()[-2000:])
    recs = vlib.json_lines(p.stdout)
    for r in recs:
        if r["kind"] == "mismatch":
            out.report(r["features"], r["detail"])
    return [r for r in recs if r["kind"] == "summary"][0]


def run(out, tier, seed):
    allseeds = ws_common.seeds(out, tier, seed, 12 if tier == "quick" else 60)
    hs = ws_common.histories(out, tier, seed, allseeds, n=(120 if tier == "quick" else 3000))
    s = run_hist(out, hs, seed, "main")
    # exhaustive single steps: every workspace one damage step from the BFS seeds, forwards (seed -> damaged) and backwards
    # (damaged -> seed: the error is repaired); quick: alternating, thorough: both directions for every workspace
    pairs = ws_common.single_step_histories(out, tier, seed, allseeds)
    one = []
    for k, (a, b) in enumerate(pairs):
        fwd = {"hist": [a, dict(b, op={"k": "damage", "f": 0, "i": 0, "x": ""})]}
        back = {"hist": [dict(b, op={"k": "seed", "f": 0, "i": 0, "x": ""}), dict(a, op={"k": "repair", "f": 0, "i": 0, "x": ""})]}
        if tier != "quick":
            one += [fwd, back]
        else:
            one.append(fwd if k % 2 == 0 else back)
    # every seed by itself: warm, fresh and fresh-asked-in-reverse must agree (no dependence on query order or instance)
    one += [{"hist": [{"op": {"k": "seed", "f": 0, "i": 0, "x": ""}, "files": w["files"], "dep": True, "dup": False, "one": shape, "ext": ext, "batched": False}], "check_seed": True}
            for w in allseeds for shape, ext in ((False, False), (True, False), (False, True))]
    # two packages / all modules in one package (import cycles resolve only there) / the library a downloaded, non-local
    # dependency (its last module under test/): each also delivered in stages (histcheck `staged`)
    s1 = run_hist(out, one, seed, "single")
    del ws_common.LEX_FAILS[:]      # a lexer failure on a seed is C10's to report
    out.cov["traces_validated_against_impl"] += s1["histories"]
    out.cov["evaluations"] += s1["answers_compared"]
    out.cov["distinct_nontrivial"] += s1["steps"]
    # the big configuration: 140 filler modules force the 128-entry parse LRU to evict
    big = hs[:(10 if tier == "quick" else 200)]
    s2 = run_hist(out, big, seed, "big", filler=140)
    out.cov["traces_validated_against_impl"] += s["histories"] + s2["histories"]
    out.cov["evaluations"] += s["answers_compared"] + s2["answers_compared"]
    out.cov["distinct_nontrivial"] += s["steps"] + s2["steps"]
    out.cov["samples"] += [{"ops": [st["op"] for st in hs[0]["hist"]]}, {"interleaved_queries": s["interleaved_queries"], "steps": s["steps"]}]
    out.cov["exhaustive"] = False
    out.cov["rule"] = ("TLC-simulated histories of 8 steps over 2-3 files from generated/corpus seeds; after every change step all 15 query kinds "
                       "at every token boundary of every file are compared (canonical rendering; lists whose order the API does not promise are "
                       "sorted) between the long-lived host, a fresh host and a fresh host queried in reverse order; a second run adds 140 filler "
                       "modules so the parse LRU evicts; distinct_nontrivial = change steps compared")
    out.assumptions += ["order of references / rename edits / completion items is not part of the answer",
                        "salsa's internal validation algorithm is not modelled, only observed through the histories"]


def replay(out, path):
    d = json.load(open(path))["detail"]
    run_hist(out, [d["case"]], 1, "replay")
