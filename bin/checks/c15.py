"""C15 - no message sequence can take the server down.

Spec: Server.tla in mode "seq" (the sequential protocol view: the client waits for quiescence between messages and
draws them from a grammar of valid and invalid parameters).
MC:   Alive, AtMostOneResponse, AllAnswered, NoDeadlock, LockDiscipline and the action property EditSafety on every script
      "fixed prefix + one message of the grammar" (exhaustive) and on simulated scripts; the pre-repair design (PreFixF9)
      and the out-of-grammar messages (ThirdPartyFatal) must violate Alive (vacuity of the invariant).
GEN:  the same TLC runs print every finished script with the state the spec predicts before each message and at the
      end (which documents the server holds, and their text).  Each script is played against the real server binary;
      after every message glas/syntaxTree of every document is compared with the prediction.
"""
import json, os, shutil, threading
from concurrent.futures import ThreadPoolExecutor
import vlib, lsp
from checks import server_common

TABLES = [["a", "ß", "💣"], ["Z", "é", "𝒳"], ["_", "\u0080", "\U00010000"], ["x", "߿", "\U0010ffff"]]
HUGE = {-1: 2 ** 31, -2: 2 ** 32 - 1}
ABSENT = ["ABSENT"]
METHODS = {"hover": "textDocument/hover", "definition": "textDocument/definition", "references": "textDocument/references",
           "highlight": "textDocument/documentHighlight", "completion": "textDocument/completion",
           "signatureHelp": "textDocument/signatureHelp", "prepareRename": "textDocument/prepareRename",
           "rename": "textDocument/rename", "semFull": "textDocument/semanticTokens/full",
           "semRange": "textDocument/semanticTokens/range", "semRangeRev": "textDocument/semanticTokens/range",
           "syntaxTree": "glas/syntaxTree"}
SEQ_ACTIONS = ["M_Dequeue", "M_Skip", "M_SpawnTask", "M_PollTasks", "M_LockVfs", "M_IgnoreChange", "M_ApplyEdit",
               "M_OpenStore", "M_WatchedDelete", "M_UnlockVfs", "M_TakeChange", "M_RequestCancel", "M_AcquireDbWrite",
               "M_SetInputs", "M_SpawnDiagT", "M_Close", "D_Emit", "E_Publish", "T_Start", "T_Aborted", "T_ReadVfs", "T_QueryDone",
               "T_Return", "D_Return", "C_Script", "Finish"]
DOC_KIND = {"u": "untitled", "h": "file_with_authority", "g": "other_scheme", "o": "outside_package", "e": "percent_encoded", "n": "percent_encoded_not_utf8", "p": "named_pipe",
            "q": "query_fragment"}
PER_SESSION = 25
DEADLINE = 30.0


def render(units, tab):
    m = {"a": tab[0], "nl": "\n", "c2": tab[1], "c4": tab[2]}
    return "".join(m[u] for u in units)


def num(v):
    return HUGE.get(v, v)


def pos(p):
    return {"line": num(p["l"]), "character": num(p["c"])}


# ---- classification of a change relative to the text the server holds (feature vector of a violation)
def boundaries(units):
    res, l, c = [(0, 0)], 0, 0
    for u in units:
        if u == "nl":
            l, c = l + 1, 0
        else:
            c += 2 if u == "c4" else 1
        res.append((l, c))
    return res


def pos_class(units, p):
    if p["l"] < 0 or p["c"] < 0:
        return "huge"
    b = boundaries(units)
    if (p["l"], p["c"]) in b:
        return "valid"
    last = b[-1][0]
    if p["l"] > last:
        return "line_beyond"
    end = max(c for (l, c) in b if l == p["l"])
    return "col_beyond" if p["c"] > end else "mid_char"


def change_class(units, ch):
    if units == ABSENT:
        return "doc_absent"
    if ch["full"]:
        return "full"
    a, b = pos_class(units, ch["s"]), pos_class(units, ch["e"])
    if a == "valid" and b == "valid":
        bs = boundaries(units)
        return "reversed" if bs.index((ch["s"]["l"], ch["s"]["c"])) > bs.index((ch["e"]["l"], ch["e"]["c"])) else "valid"
    return a if a != "valid" else b


def features_of(step):
    m = step["m"]
    f = {"kind": m["k"], "doc": DOC_KIND.get(m["d"], "file" if m["d"] else "")}
    if m["k"] == "change":
        pre = step["pre"]["text"][m["d"]]
        f["change_class"] = change_class(pre, m["chs"][0])
        f["n_changes"] = len(m["chs"])
    if m["k"] == "req":
        f["rk"] = m["rk"]
        pre = step["pre"]["text"][m["d"]]
        f["pos_class"] = "doc_absent" if pre == ABSENT else pos_class(pre, m["p"])
    return f


# ---- one script against a live session
class Dead(Exception):
    pass


class Player:
    def __init__(self, sess, root, k, tab):
        self.s, self.tab, self.k, self.root = sess, tab, k, root
        self.pkg = os.path.join(root, f"p{k}")
        os.makedirs(os.path.join(root, f"outside{k}"))
        os.makedirs(os.path.join(self.pkg, "src"))
        open(os.path.join(self.pkg, "gleam.toml"), "w").write(f'name = "p{k}"\nversion = "0.1.0"\n')
        self.disk = {"d1": ["a", "nl", "a"], "d2": ["a"]}            # = DiskText of the spec
        for d, units in self.disk.items():
            open(self.path(d), "w", newline="").write(render(units, tab))
        os.mkfifo(os.path.join(self.pkg, "src", "pipe.gleam"))
        self.ids = []

    def path(self, d):
        """local file path of a document, None if its URI has none"""
        if d in ("u", "h", "g"):
            return None
        if d == "o":                                   # outside any package: no gleam.toml above it
            return os.path.join(self.root, f"outside{self.k}", "o.gleam")
        if d == "p":                                   # a named pipe (created at set-up, never removed)
            return os.path.join(self.pkg, "src", "pipe.gleam")
        if d == "n":                                   # a file name that is not valid UTF-8 (legal on this platform)
            return os.fsdecode(os.fsencode(os.path.join(self.pkg, "src")) + b"/\xff\xfen.gleam")
        name = {"e": "caf\u00e9 \u4e2d x", "q": "d3"}.get(d, d)
        return os.path.join(self.pkg, "src", name + ".gleam")

    def uri(self, d):
        """documents by URI shape (see Server.tla, 'Documents')"""
        if d == "u":
            return f"untitled:Untitled-{self.k}"
        if d == "h":                                   # authority present: no local path on this platform
            return f"file://fileserver/share/p{self.k}/src/b.gleam"
        if d == "g":                                   # another scheme whose path part names an existing file
            return "git:" + self.path("d1")
        if d == "n":
            return lsp.uri(os.path.join(self.pkg, "src")) + "/%FF%FEn.gleam"
        if d == "q":                                   # same file path as d3
            return lsp.uri(self.path("d3")) + "?rev=1#L1"
        return lsp.uri(self.path(d))                   # percent-encodes "e"

    def request(self, method, params):
        i = self.s.send_request(method, params)
        self.ids.append(i)
        r = self.s.wait(i, DEADLINE)
        if r is None:
            raise Dead("no response to %s within %ss" % (method, DEADLINE) if self.s.alive() else "server died")
        return r

    def server_text(self, d):
        r = self.request("glas/syntaxTree", {"textDocument": {"uri": self.uri(d)}})
        if "error" in r:
            return None
        return "".join(t for (_, _, t) in lsp.tree_text(r["result"]))

    def check_obs(self, obs, where, only=None):
        """glas/syntaxTree of every document (or of `only`) against the predicted state; returns a mismatch or None"""
        for d, units in sorted(obs["text"].items()):
            if only is not None and d not in only:
                continue
            exp = None if units == ABSENT else render(units, self.tab)
            got = self.server_text(d)
            if got != exp:
                return {"where": where, "doc": d, "expected": exp, "got": got}
        return None

    def long_text(self):
        """text of a content change the server cannot apply: Server.tla's outcome (document forgotten, the rest of the
        notification dropped) does not depend on it, so any text is a rendering of it - here a long one in which most byte
        offsets are not character boundaries, with a seeded alignment"""
        self.n_long = getattr(self, "n_long", 0) + 1
        k = (self.k + self.n_long) % 4
        return "x" * k + "\u4e2d" * 30 + "\U0001f4a3" * 12 + "\u00e9" * 25 + "\n" + "\u211d" * 40

    def send(self, m, pre=None):
        s, d = self.s, m["d"]
        k = m["k"]
        td = {"uri": self.uri(d)} if d else None
        if k == "open":
            s.notify("textDocument/didOpen", {"textDocument": {"uri": td["uri"], "languageId": "gleam", "version": 1,
                                                                "text": render(m["chs"][0]["t"], self.tab)}})
        elif k == "close":
            s.notify("textDocument/didClose", {"textDocument": td})
        elif k == "change":
            chs = []
            rejected = pre is not None and pre == ABSENT
            for ci, c in enumerate(m["chs"]):
                t = render(c["t"], self.tab)
                if pre is not None and not rejected and ci == 0 and change_class(pre, c) not in ("valid", "full"):
                    rejected = True
                if rejected and not c["full"] and (self.k + ci) % 2 == 0:
                    t = self.long_text()
                chs.append({"text": t} if c["full"] else {"range": {"start": pos(c["s"]), "end": pos(c["e"])}, "text": t})
            s.notify("textDocument/didChange", {"textDocument": {"uri": td["uri"], "version": 2}, "contentChanges": chs})
        elif k == "req":
            rk, p = m["rk"], pos(m["p"])
            if rk in ("semFull", "syntaxTree"):
                params = {"textDocument": td}
            elif rk == "semRange":
                params = {"textDocument": td, "range": {"start": {"line": 0, "character": 0}, "end": p}}
            elif rk == "semRangeRev":
                params = {"textDocument": td, "range": {"start": p, "end": {"line": 0, "character": 0}}}
            else:
                params = {"textDocument": td, "position": p}
                if rk == "rename":
                    params["newName"] = "zz"
                if rk == "references":
                    params["context"] = {"includeDeclaration": True}
            self.request(METHODS[rk], params)
        elif k in ("wdel", "wchg"):
            s.notify("workspace/didChangeWatchedFiles", {"changes": [{"uri": td["uri"], "type": 3 if k == "wdel" else 2}]})
        elif k == "save":
            s.notify("textDocument/didSave", {"textDocument": td})
        elif k == "fsdel":
            if d != "p" and self.path(d) and os.path.exists(self.path(d)):
                os.remove(self.path(d))
        elif k == "cancel":
            s.notify("$/cancelRequest", {"id": 987654})
        elif k == "dollar":
            s.notify("$/verif/unknown", {"x": 1})
        elif k == "config":
            s.notify("workspace/didChangeConfiguration", {"settings": {}})
        else:
            raise vlib.ToolError("script message of unknown kind " + k)

    def play(self, script):
        """returns (features, detail) of the first disagreement, or None"""
        steps = script["steps"]
        self.last_sent = -1

        def culprit():
            if self.last_sent < 0:
                return {"kind": "(start)"}
            f = features_of(steps[self.last_sent])
            # was the document with two URIs (d3 and d3?query#fragment) addressed through its second URI so far?
            f["alias_used"] = any(st["m"]["d"] == "q" for st in steps[:self.last_sent + 1])
            return f
        try:
            for i, st in enumerate(steps):
                # between two messages: the documents the last message names or the prediction says have changed (both
                # URIs of the aliased one); every document is compared at the start, after the prefix and at the end
                only = None
                if i >= 2:
                    prev = steps[i - 1]
                    only = {prev["m"]["d"]} | {d for d in st["pre"]["text"] if st["pre"]["text"][d] != prev["pre"]["text"][d]}
                    if only & {"q", "d3"}:
                        only |= {"q", "d3"}
                bad = self.check_obs(st["pre"], f"before message {i}", only)
                if bad:
                    return dict(culprit(), what="state"), bad
                self.last_sent = i
                self.send(st["m"], st["pre"]["text"].get(st["m"]["d"]) if st["m"]["k"] == "change" else None)
            bad = self.check_obs(script["final"], "after the last message")
            if bad:
                return dict(culprit(), what="state"), bad
        except Dead as e:
            return dict(culprit(), what="hang" if self.s.alive() else "died"), \
                {"where": f"message {self.last_sent}", "error": str(e), "exit_code": self.s.exit_code()}
        return None


def play_group(base, gi, group, seed, results):
    """several scripts on one server process (each in its own package directory); restart after a crash"""
    root = os.path.join(base, f"g{gi}")
    os.makedirs(root)
    sess = None
    n_req = 0
    try:
        for k, (idx, script) in enumerate(group):
            if sess is None:
                sess = lsp.Session(root, stderr_path=os.path.join(root, f"stderr-{k}.log"))
                if sess.initialize() is None:
                    raise vlib.ToolError("server did not answer initialize")
                players = []
            tab = (seed + idx) % len(TABLES)
            pl = Player(sess, root, k, TABLES[tab])
            pl.sent_index = -1
            players.append(pl)
            bad = pl.play(script)
            n_req += len(pl.ids)
            if bad is None and sess.alive():
                # exactly one response per request id so far
                with sess.cv:
                    dup = [i for i in pl.ids if sess.resp_count.get(i, 0) != 1]
                if dup:
                    bad = ({"what": "responses", "kind": "req"}, {"ids_without_exactly_one_response": dup[:5]})
            if bad:
                feats, detail = bad
                detail = dict(detail, script=script, table=tab, index=idx)
                if not sess.alive():
                    try:
                        detail["stderr_tail"] = open(sess.stderr_path, "rb").read()[-1500:].decode("utf-8", "replace")
                        import re
                        m = re.search(r"panicked at ([^\n]*)\n([^\n]*)", detail["stderr_tail"])
                        if m:
                            feats["panic"] = (m.group(1).split(":")[0].split("/")[-1] + ": " + m.group(2))[:80]
                    except OSError:
                        pass
                results.append(("bad", feats, detail))
                if not sess.alive() or feats.get("what") == "hang":
                    sess.close()
                    sess = None
            else:
                results.append(("ok", idx, len(script["steps"])))
        if sess is not None:
            # the process must live until `exit` and then leave with status 0
            rc = sess.close()
            sess = None
            if rc != 0:
                results.append(("bad", {"what": "exit_status", "kind": "exit"}, {"exit_code": rc, "index": group[-1][0],
                                                                                 "script": group[-1][1], "table": 0}))
    finally:
        if sess is not None:
            sess.close()
        shutil.rmtree(root, ignore_errors=True)
    return n_req


def play_all(out, scripts, seed, name, jobs=8):
    base = vlib.workdir(name)
    groups = [list(enumerate(scripts))[i:i + PER_SESSION] for i in range(0, len(scripts), PER_SESSION)]
    results = []
    with ThreadPoolExecutor(jobs) as ex:
        futs = [ex.submit(play_group, base, gi, g, seed, results) for gi, g in enumerate(groups)]
        nreq = sum(f.result() for f in futs)
    nontrivial = 0
    for r in results:
        if r[0] == "bad":
            out.report(r[1], r[2])
    for s in scripts:
        if any(st["m"]["k"] == "change" and change_class(st["pre"]["text"][st["m"]["d"]], st["m"]["chs"][0])
               not in ("valid", "full") for st in s["steps"]):
            nontrivial += 1
    out.cov["traces_validated_against_impl"] += len(scripts)
    out.cov["evaluations"] += nreq
    out.cov["distinct_nontrivial"] += nontrivial
    return results


def run(out, tier, seed):
    # --- MC + GEN, exhaustive: prefix + every single message of the grammar
    r = vlib.tlc("Server", "Server_s_bfs.cfg", workers=8, timeout=1800, coverage=True, heap="8g")
    vlib.require_ok(r, "Server seq bfs")
    out.add_tlc(r, "MC (Alive, AtMostOneResponse, AllAnswered, NoDeadlock, LockDiscipline, StoreApplied, EditSafety) + GEN: prefix + every message")
    bfs = list(r.cases())
    out.cov["action_coverage"].update(server_common.require_actions(r, SEQ_ACTIONS, "Server (seq)"))
    if len(bfs) < 2000:
        raise vlib.ToolError("too few single-message scripts emitted")
    # --- vacuity of the invariants: the pre-repair design and the out-of-grammar messages must break Alive
    for cfg, inv in (("Server_x_s_old.cfg", "Alive"), ("Server_x_s_fatal.cfg", "Alive"), ("Server_x_s_wdel.cfg", "StoreApplied")):
        rx = vlib.tlc("Server", cfg, workers=8, timeout=900)
        if not rx.violated or f"Invariant {inv} is violated" not in rx.out:
            raise vlib.ToolError(f"{cfg}: {inv} was expected to be violated (vacuity check)")
        out.add_tlc(rx, "expected violation " + cfg)
    # --- GEN, simulation: longer scripts
    nsim = 300 if tier == "quick" else 10000
    # one behaviour of depth 450 holds about 4 scripts; `num` is per worker
    rs = vlib.tlc("Server", "Server_s_sim.cfg", workers=8, simulate=-(-nsim // 26), depth=450, seed=seed,
                  timeout=3000)
    vlib.require_ok(rs, "Server seq simulation")
    out.add_tlc(rs, "MC on simulated scripts + GEN (12 messages each)")
    sim = list(rs.cases())
    if len(sim) < nsim * 0.6:
        raise vlib.ToolError(f"simulation produced too few scripts ({len(sim)})")
    if tier == "quick":
        # every change / open / lifecycle script, requests thinned to one position class each
        import random
        rnd = random.Random(seed)
        keep, seen = [], set()
        for s in bfs:
            m = s["steps"][-1]["m"]
            if m["k"] == "req":
                key = (m["rk"], m["d"], features_of(s["steps"][-1]).get("pos_class"))
                if key in seen and rnd.random() > 0.1:
                    continue
                seen.add(key)
            keep.append(s)
        bfs_play = keep
    else:
        bfs_play = bfs
    play_all(out, bfs_play, seed, "c15-bfs", jobs=8)
    play_all(out, sim, seed, "c15-sim", jobs=8)
    out.cov["exhaustive"] = True
    out.cov["samples"] += [bfs[len(bfs) // 3]["steps"][-1]["m"], sim[0]["steps"][3]["m"]]
    out.cov["rule"] = ("scripts = (a) didOpen of one document followed by every single message of the grammar in Server.tla "
                       "(%d scripts, %d played; exhaustive for the grammar) and (b) %d simulated scripts of 12 messages over 9 "
                       "documents by URI shape (in package on disk / new / percent-encoded / with query+fragment, outside any package, "
                       "file://host/..., untitled:, git:); every script is played against the real server binary, %d scripts "
                       "per process; after every message glas/syntaxTree of all 9 documents is compared with the spec's predicted "
                       "text / absence, the process must stay alive, answer every request exactly once and exit with status 0 after "
                       "shutdown/exit. non-trivial = script contains a content change the design must reject"
                       % (len(bfs), len(bfs_play), len(sim), PER_SESSION))
    out.assumptions += ["the text is read back through the lossless syntax tree (C01)",
                        "messages on which async-lsp's own router/lifecycle layers end the loop (undeserializable notification "
                        "parameters, unregistered non-$/ notification, second `initialized`) are outside the grammar",
                        "TLC/SANY, Json module"]


def replay(out, path):
    d = json.load(open(path))["detail"]
    if "script" not in d:
        raise vlib.ToolError("replay file carries no script")
    base = vlib.workdir("c15-replay")
    results = []
    play_group(base, 0, [(d.get("index", 0), d["script"])], d.get("table", 0) - d.get("index", 0), results)
    for r in results:
        if r[0] == "bad":
            out.report(r[1], r[2])
    out.cov["traces_validated_against_impl"] += 1
