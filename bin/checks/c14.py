"""C14 - positions mean the same to server and client.
Spec: Positions.tla.  MC: reference theorems on all documents <= n.  GEN: every reachable document with its
boundary table is replayed into glas' LineMap (line_col_for_pos, pos_for_line_col, from_pos, to_range)."""
import json, os
import vlib


def replay_cases(out, cases, seed):
    d = vlib.workdir("c14")
    path = os.path.join(d, "cases.ndjson")
    with open(path, "w") as f:
        for c in cases:
            f.write(json.dumps(c) + "\n")
    p = vlib.run_bin("positions", stdin_path=path, env={"VERIF_SEED": str(seed)})
    if p.returncode != 0:
        raise vlib.ToolError("positions replay crashed: " + p.stderr.decode()[-2000:])
    summary = None
    for r in vlib.json_lines(p.stdout):
        if r["kind"] == "mismatch":
            out.report(r["features"], r["detail"])
        elif r["kind"] == "summary":
            summary = r
    if summary is None:
        raise vlib.ToolError("positions replay printed no summary")
    out.cov["traces_validated_against_impl"] += summary["cases"]
    out.cov["evaluations"] += summary["checks"]
    out.cov["distinct_nontrivial"] += summary["distinct_nontrivial"]
    out.cov["samples"] += summary["samples"]
    return summary


def run(out, tier, seed):
    cfg = "Positions_q.cfg" if tier == "quick" else "Positions_t.cfg"
    r = vlib.tlc("Positions", cfg, workers=8, timeout=900, coverage=True)
    vlib.require_ok(r, "Positions")
    out.add_tlc(r, "MC+GEN exhaustive " + cfg)
    cases = list(r.cases())
    if len(cases) != r.distinct:
        raise vlib.ToolError(f"expected one case per distinct state, got {len(cases)} vs {r.distinct}")
    replay_cases(out, cases, seed)
    # long random documents: simulation of the same spec
    n = 40 if tier == "quick" else 400
    r2 = vlib.tlc("Positions", "Positions_sim.cfg", workers=4, simulate=n // 4, depth=601, seed=seed, timeout=600)
    vlib.require_ok(r2, "Positions simulation")
    out.add_tlc(r2, "GEN simulation of long documents")
    long_cases = list(r2.cases())
    if not long_cases:
        raise vlib.ToolError("simulation produced no long documents")
    replay_cases(out, long_cases, seed)
    out.cov["exhaustive"] = True
    out.cov["rule"] = ("every document over {a,nl,c2,c3,c4} up to MaxLen (%s) enumerated by TLC with the client-side boundary "
                       "table; each replayed into LineMap at every boundary and every ordered pair of boundaries; "
                       "non-trivial = contains a line feed or a multi-byte character; plus %d simulated documents of 600 chars"
                       % (cfg, len(long_cases)))
    out.assumptions += ["harness rendering of character classes to concrete code points",
                        "TLC/SANY, Json module"]


def replay(out, path):
    case = json.load(open(path))["detail"]["case"]
    replay_cases(out, [case], 1)
