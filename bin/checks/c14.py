"""C14 - positions mean the same to server and client.
Spec: Positions.tla.  MC: reference theorems on all documents <= n.  GEN: every reachable document with its
boundary table is replayed into glas' LineMap (line_col_for_pos, pos_for_line_col, from_pos, to_range)."""
import json, os, shutil, time
import vlib, lsp

TABLES = [["a", "ß", "ℝ", "💣"], ["z", "é", "中", "𝒳"], ["q", "\u0080", "ࠀ", "\U00010000"], ["k", "߿", "￿", "\U0010ffff"], ["e", "\u00a0", "\ufeff", "\U0001f600"]]
OFFERS = [None, ["utf-8", "utf-16"], ["utf-32", "utf-16"], ["utf-16"]]


def render(units, tab):
    m = {"a": tab[0], "nl": "\n", "c2": tab[1], "c3": tab[2], "c4": tab[3]}
    return "".join(m[u] for u in units)


def expected_ranges(case):
    tab = case["tab"]
    return sorted(((tab[i]["l"], tab[i]["c"]), (tab[j]["l"], tab[j]["c"])) for i, j in case["toks"])


def diagnostics_after(sess, uri, n_seen, timeout=10.0):
    """the next publishDiagnostics for uri after the first n_seen notifications"""
    t0 = time.time()
    while time.time() - t0 < timeout:
        with sess.cv:
            ns = list(sess.notifications)
        for k in range(n_seen, len(ns)):
            n = ns[k]
            if n.get("method") == "textDocument/publishDiagnostics" and n["params"]["uri"] == uri:
                return k + 1, sorted(((d["range"]["start"]["line"], d["range"]["start"]["character"]),
                                      (d["range"]["end"]["line"], d["range"]["end"]["character"])) for d in n["params"]["diagnostics"])
        time.sleep(0.01)
    return n_seen, None


def end_to_end(out, by_enc, seed, n_docs):
    """black box: each document is opened as a module whose every token is a syntax error; the ranges of the published
    diagnostics must be the token boundaries as the CLIENT numbers them in the encoding the session agreed on; then one
    character is typed at the very start (an incremental change) and the same must hold for the new document"""
    base = vlib.workdir("c14-e2e")
    n = 0
    for oi, offer in enumerate(OFFERS):
        root = os.path.join(base, f"s{oi}")
        os.makedirs(os.path.join(root, "src"))
        open(os.path.join(root, "gleam.toml"), "w").write('name = "p"\nversion = "0.1.0"\n')
        sess = lsp.Session(root, stderr_path=os.path.join(root, "stderr.log"))
        try:
            if sess.initialize(encodings=offer) is None:
                raise vlib.ToolError("server did not answer initialize")
            if sess.enc not in (offer or ["utf-16"]) or sess.enc not in by_enc:
                out.report({"what": "server announced a position encoding the client did not offer", "level": "server"}, {"offered": offer, "announced": sess.enc_announced})
                continue
            table = by_enc[sess.enc]
            keys = sorted(table)
            import random
            rnd = random.Random(seed * 31 + oi)
            short = [k for k in keys if len(json.loads(k)) <= 2]
            picks = rnd.sample(keys, min(n_docs, len(keys))) + rnd.sample(short, min(n_docs // 3, len(short)))
            for k, key in enumerate(picks):
                case = table[key]
                if not case["toks"]:
                    continue
                tab = TABLES[(seed + k) % len(TABLES)]
                path = os.path.join(root, "src", f"d{k}.gleam")
                text = render(case["doc"], tab)
                open(path, "w").write(text)
                with sess.cv:
                    seen = len(sess.notifications)
                sess.did_open(path, text)
                seen, got = diagnostics_after(sess, lsp.uri(path), seen)
                exp = expected_ranges(case)
                n += 1
                bad = None
                if got != exp:
                    bad = {"step": "didOpen", "expected": exp, "got": got}
                else:
                    # type one character at the start: the table of the longer document must hold afterwards
                    u = ["c3", "a", "c4", "nl", "c2"][(seed + k) % 5]
                    key2 = json.dumps([u] + case["doc"])
                    if key2 in table and table[key2]["toks"]:
                        sess.did_change(path, [{"range": {"start": {"line": 0, "character": 0}, "end": {"line": 0, "character": 0}}, "text": render([u], tab)}], 2)
                        seen, got2 = diagnostics_after(sess, lsp.uri(path), seen)
                        exp2 = expected_ranges(table[key2])
                        n += 1
                        if got2 != exp2:
                            bad = {"step": "didChange (one character typed at the start)", "expected": exp2, "got": got2, "typed": u}
                        # ... and one notification with two changes, the second addressed in the text the first one leaves:
                        # a line break at the very start, then a character at the start of what is now the second line
                        key3 = json.dumps(["nl", "a", u] + case["doc"])
                        if bad is None and key3 in table:
                            sess.did_change(path, [{"range": {"start": {"line": 0, "character": 0}, "end": {"line": 0, "character": 0}}, "text": "\n"},
                                                   {"range": {"start": {"line": 1, "character": 0}, "end": {"line": 1, "character": 0}}, "text": tab[0]}], 3)
                            seen, got3 = diagnostics_after(sess, lsp.uri(path), seen)
                            exp3 = expected_ranges(table[key3])
                            n += 1
                            if got3 != exp3:
                                bad = {"step": "didChange2 (two changes in one notification)", "expected": exp3, "got": got3}
                # a zero-width range at the very end of a file whose last line is a comment holding the document (no line break at the
                # end): `Expecting "}"` sits at the end of the text, i.e. three ASCII columns + the table's last column into line 1
                if bad is None and "nl" not in case["doc"] and case["doc"]:
                    path2 = os.path.join(root, "src", f"e{k}.gleam")
                    text2 = "fn f() {\n// " + text
                    open(path2, "w").write(text2)
                    with sess.cv:
                        seen = len(sess.notifications)
                    sess.did_open(path2, text2)
                    seen, got4 = diagnostics_after(sess, lsp.uri(path2), seen)
                    endc = 3 + case["tab"][-1]["c"]
                    exp4 = [((1, endc), (1, endc))]
                    n += 1
                    # (a server may choose to show the error on the character in front instead of a zero-width range: what is
                    # demanded is that both ends are positions of the client's table, the end being the end of the text)
                    cols = {3 + t["c"] for t in case["tab"]} | {0, 1, 2, 3}
                    ok4 = got4 is not None and len(got4) == 1 and got4[0][1] == (1, endc) and got4[0][0][0] == 1 and got4[0][0][1] in cols and got4[0][0][1] <= endc
                    if not ok4:
                        bad = {"step": "eof (range at the end of a file that ends in a comment)", "expected": exp4, "got": got4, "text": text2}
                if bad:
                    out.report({"what": "published ranges are not the token boundaries in the client's numbering", "level": "server", "encoding": sess.enc, "step": bad["step"].split(" ")[0]},
                               {"doc": case["doc"], "table": (seed + k) % len(TABLES), "offer": offer, "bad": bad, "e2e": True})
                if not sess.alive():
                    out.report({"what": "server died", "level": "server"}, {"doc": case["doc"], "e2e": True})
                    break
        finally:
            sess.close()
        shutil.rmtree(root, ignore_errors=True)
    return n


def replay_cases(out, cases, seed):
    d = vlib.workdir("c14")
    path = os.path.join(d, "cases.ndjson")
    with open(path, "w") as f:
        for c in cases:
            f.write(json.dumps(c) + "\n")
    p = vlib.run_bin("positions", stdin_path=path, env={"VERIF_SEED": str(seed)})
    if p.returncode != 0:
        raise vlib.ToolError("positions replay crashed: " + p.stderr.decode()[-2000:])
    summary = None
    for r in vlib.json_lines(p.stdout):
        if r["kind"] == "mismatch":
            out.report(r["features"], r["detail"])
        elif r["kind"] == "summary":
            summary = r
    if summary is None:
        raise vlib.ToolError("positions replay printed no summary")
    out.cov["traces_validated_against_impl"] += summary["cases"]
    out.cov["evaluations"] += summary["checks"]
    out.cov["distinct_nontrivial"] += summary["distinct_nontrivial"]
    out.cov["samples"] += summary["samples"]
    return summary


def run(out, tier, seed):
    cfg = "Positions_q.cfg" if tier == "quick" else "Positions_t.cfg"
    r = vlib.tlc("Positions", cfg, workers=8, timeout=900, coverage=True)
    vlib.require_ok(r, "Positions")
    out.add_tlc(r, "MC+GEN exhaustive " + cfg)
    cases = list(r.cases())
    if len(cases) != r.distinct:
        raise vlib.ToolError(f"expected one case per distinct state, got {len(cases)} vs {r.distinct}")
    replay_cases(out, cases, seed)
    # long random documents: simulation of the same spec
    n = 40 if tier == "quick" else 400
    r2 = vlib.tlc("Positions", "Positions_sim.cfg", workers=4, simulate=n // 4, depth=601, seed=seed, timeout=600)
    vlib.require_ok(r2, "Positions simulation")
    out.add_tlc(r2, "GEN simulation of long documents")
    long_cases = list(r2.cases())
    if not long_cases:
        raise vlib.ToolError("simulation produced no long documents")
    replay_cases(out, long_cases, seed)
    # end to end, in every encoding a session may agree on: the tables of all documents per encoding
    by_enc = {"utf-16": {json.dumps(c["doc"]): c for c in cases}}
    for enc in ("utf-8", "utf-32"):
        r3 = vlib.tlc("Positions", cfg, workers=8, timeout=900, env={"POS_ENC": enc}, name="positions-" + enc)
        vlib.require_ok(r3, "Positions " + enc)
        out.add_tlc(r3, "MC+GEN exhaustive, columns in " + enc)
        by_enc[enc] = {json.dumps(c["doc"]): c for c in r3.cases()}
    ne = end_to_end(out, by_enc, seed, 60 if tier == "quick" else 600)
    out.cov["traces_validated_against_impl"] += ne
    out.cov["exhaustive"] = True
    out.cov["rule"] = ("every document over {a,nl,c2,c3,c4} up to MaxLen (%s) enumerated by TLC with the client-side boundary "
                       "table; each replayed into LineMap at every boundary and every ordered pair of boundaries; "
                       "non-trivial = contains a line feed or a multi-byte character; plus %d simulated documents of 600 chars; "
                       "end to end: sampled documents opened on the real server in sessions that offer no / utf-8 / utf-32 / utf-16 position "
                       "encodings - the ranges of the published diagnostics (one per token) must be the token boundaries of the table "
                       "written for the agreed encoding, also after one character is typed at the start"
                       % (cfg, len(long_cases)))
    out.assumptions += ["harness rendering of character classes to concrete code points",
                        "TLC/SANY, Json module"]


def replay(out, path):
    d = json.load(open(path))["detail"]
    if d.get("e2e"):
        run(out, "quick", 1)
        return
    replay_cases(out, [d["case"]], 1)
