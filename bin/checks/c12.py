"""C12 - snapshots are isolated from later changes; changes cancel, never block.

Spec: Host.tla (snapshot = read lock on the one storage, queries read the live inputs and check the pending-write
flag at every entry, apply_change = synthetic write + the writes the Change carries in queue order, each: flag, write
lock, store, unlock).  A Change is a sequence of writes as the server queues them: optional roots / package-graph
writes (no file text), then per touched file its final text, up to MaxDup files also with an INTERMEDIATE text queued
somewhere before the final one (two edits taken at once), in any interleaving.  Abstract effect = last content
queued per file (ApplyEffect); no completed version, no new snapshot and no answer ever shows an intermediate text
(NoIntermediate).
MC:    exhaustive, no state constraint, safety (Isolation, NoTornRead, Frozen, NoIntermediate, ...) and liveness
       (Prompt) under fairness, action properties SnapshotSeesCommitted and ApplyEffect; three deliberately broken
       configurations must be refuted by TLC (vacuity: snapshot during apply_change, no flag check, first queued content
       wins), -coverage must show every action firing.  The configurations run in parallel.
TRACE: harness/src/bin/hostrace.rs races 1 writer against n <= 4 readers on the real ide::AnalysisHost under seeded
       scheduling, records the events with one global sequence number, computes reference answers for every version
       (= the LAST content queued per file) by a fresh single-threaded analysis; Trace_Host.tla accepts a run iff it is
       a behaviour of Host, every ok-hash is the reference of the version the model assigns to the snapshot, and every
       apply_change met the deadline.
       - The menu of every run holds every public query method of ide::Analysis (19 kinds: completions without / with
         '.' / '@' trigger, syntax_highlight with None and five range shapes incl. ranges ending past the end of the
         file and starting at its very end, prepare_rename, rename, ...).  The check reads the `pub fn`s of
         `impl Analysis` from the tree under test and fails (exit 2) if one of them is not in the menu.
       - Pending write, deterministically: in 3 of 4 runs reader 1 (and any reader with probability 1/8 per snapshot)
         keeps its snapshot until the writer is inside apply_change, probes until a query comes back Cancelled (from
         then on the flag is known to be up: it cannot be lowered while the snapshot lives) and then issues the WHOLE
         menu; Host then admits only Cancelled for these (an ok answer or an escaped panic payload is a violation).
         The check requires >= runs/10 such calls per query kind (exit 2 otherwise).
       - Changes as the server builds them: every third touched file is queued twice (intermediate text, then final
         text; any interleaving with the other files), every fifth change re-sends roots and package graph; the
         ApplyBegin line carries the writes in queue order and Trace_Host requires the last content queued for a file
         to be its text in the new version (WellFormedTodo)."""
import json, os, time, re
import vlib

ACTIONS = ["Snapshot", "QueryStart", "QueryStep", "QueryFinish", "Drop",
           "ApplyCallWith", "ApplyBegin", "ApplyAcquire", "ApplySet", "ApplyEnd"]
DEADLINE_MS = 30000


# --------------------------------------------------------------------------------------
# MC

def _liveness_violated(r):
    return bool(re.search(r"Temporal propert(y|ies) .*violated", r.out))


def model_check(out, tier):
    cfgs = ["Host.cfg", "Host_nosyn.cfg"] + (["Host_3.cfg", "Host_f3.cfg"] if tier == "thorough" else [])
    neg = ["Host_torn.cfg", "Host_nocancel.cfg", "Host_firstwins.cfg"]
    jobs = [dict(module="Host", cfg=cfg, workers=4 if tier == "quick" else 8, timeout=5400,
                 coverage=cfg in ("Host.cfg", "Host_nosyn.cfg"), extra=["-lncheck", "final"], heap="8g",
                 name="Host-" + cfg[:-4]) for cfg in cfgs]
    jobs += [dict(module="Host", cfg=cfg, workers=2, timeout=900, extra=["-lncheck", "final"], name="Host-" + cfg[:-4])
             for cfg in neg]
    res = dict(zip(cfgs + neg, vlib.tlc_many(jobs, max_parallel=5 if tier == "quick" else 3)))
    for cfg in cfgs:
        r = res[cfg]
        cov = cfg in ("Host.cfg", "Host_nosyn.cfg")
        vlib.require_ok(r, "Host " + cfg)
        out.add_tlc(r, "MC Host %s (safety + liveness, exhaustive)" % cfg)
        for a in ACTIONS if cov else []:
            if not r.coverage.get(a):
                raise vlib.ToolError(f"Host/{cfg}: action {a} never taken (vacuity)")
        if "Checking temporal properties" not in r.out and "temporal properties" not in r.out:
            raise vlib.ToolError(f"Host/{cfg}: liveness was not checked")
    # the properties must have teeth: one switch off => TLC refutes
    r = res["Host_torn.cfg"]
    if not (r.violated and re.search(r"Invariant (Frozen|Isolation|NoTornRead) is violated", r.out)):
        raise vlib.ToolError("Host_torn: a snapshot during apply_change was expected to violate an invariant (vacuity check)")
    r = res["Host_nocancel.cfg"]
    if not _liveness_violated(r) or r.violated:
        raise vlib.ToolError("Host_nocancel: without cancellation Prompt was expected to be violated (vacuity check)")
    r = res["Host_firstwins.cfg"]
    if not (r.violated and re.search(r"Invariant NoIntermediate is violated|Action property ApplyEffect is violated", r.out)):
        raise vlib.ToolError("Host_firstwins: a Change::apply that keeps the first content queued for a file was expected to "
                             "violate NoIntermediate / ApplyEffect (vacuity check)")
    out.cov["negative_models_refuted"] = ["Host_torn.cfg (Frozen)", "Host_nocancel.cfg (Prompt)",
                                          "Host_firstwins.cfg (NoIntermediate)"]


# --------------------------------------------------------------------------------------
# running the race

class ProcessDied(Exception):
    def __init__(self, rc, stderr):
        Exception.__init__(self, f"rc={rc}")
        self.rc, self.stderr = rc, stderr


def hostrace(seed, args, trace_path, timeout):
    p = vlib.run_bin("hostrace", list(args) + ["--trace-out", trace_path, "--deadline-ms", str(DEADLINE_MS)],
                     env={"VERIF_SEED": str(seed)}, timeout=timeout)
    if p.returncode < 0 or p.returncode in (134, 139):
        # killed by a signal (abort: a panic while unwinding, a stack overflow ...): the analysis took the process down -
        # "never a panic" is part of the property.  Panics proper are caught per call and come back as data.
        raise ProcessDied(p.returncode, p.stderr.decode("utf-8", "replace")[-1500:])
    if p.returncode != 0:
        raise vlib.ToolError(f"hostrace crashed rc={p.returncode}: " + p.stderr.decode()[-2000:])
    recs = vlib.json_lines(p.stdout)
    summary = [r for r in recs if r["kind"] == "summary"]
    errs = [r for r in recs if r["kind"] == "harness_error"]
    if errs:
        raise vlib.ToolError("hostrace: the harness itself panicked: " + json.dumps(errs[0])[:1500])
    if not summary:
        raise vlib.ToolError("hostrace printed no summary")
    return summary[0], [r for r in recs if r["kind"] == "mismatch"]


def locate_abort(seed, hr_args, d):
    """the first run plan whose re-execution alone (a few attempts) kills the process again; None if none does within the budget"""
    args = list(hr_args)
    nruns = int(args[args.index("--runs") + 1]) if "--runs" in args else 20
    t0 = time.time()
    for r in range(nruns):
        if time.time() - t0 > 240:
            break
        p = vlib.run_bin("hostrace", ["--only-run", str(r), "--repeat", "3", "--jobs", "1", "--trace-out", os.path.join(d, "locate.ndjson"),
                                      "--deadline-ms", str(DEADLINE_MS)], env={"VERIF_SEED": str(seed)}, timeout=300)
        if p.returncode < 0 or p.returncode in (134, 139):
            return r
    return None


def split_runs(trace_path):
    """-> list of runs, each a list of raw lines starting with its reset line"""
    runs = []
    with open(trace_path) as f:
        for line in f:
            line = line.rstrip("\n")
            if not line:
                continue
            if '"ev":"reset"' in line:
                runs.append([])
            if not runs:
                raise vlib.ToolError("trace does not start with a reset event")
            runs[-1].append(line)
    return runs


def classify(run_lines, k):
    """Why did TLC stop at event k (0-based index into the run; 0 = reset)?  Informative only: the verdict is TLC's."""
    evs = [json.loads(x) for x in run_lines]
    head = evs[0]
    refs = head.get("refs") or []
    menu = head.get("menu") or []
    if k >= len(evs):
        return ({"what": "trace rejected", "event": "end", "why": "run did not end quiescent"},
                {"note": "a snapshot was never dropped or an apply_change never returned"})
    snap, in_apply, flag_seen = {}, False, False
    for e in evs[1:k]:
        if e["ev"] == "Snapshot":
            snap[e["r"]] = e["ver"]
        elif e["ev"] == "ApplyBegin":
            in_apply, flag_seen = True, False
        elif e["ev"] == "ApplyEnd":
            in_apply = False
        elif e["ev"] == "QueryEnd" and e["res"] == "cancelled":
            flag_seen = True
    e = evs[k]
    f = {"what": "trace rejected", "event": e["ev"]}
    d = {}
    if e["ev"] == "QueryEnd":
        q = e.get("q", 0)
        kind = menu[q - 1].split("@")[0] if 0 < q <= len(menu) else "?"
        f["query_kind"] = kind
        v = snap.get(e["r"])
        d["snapshot_version"] = v
        d["query"] = menu[q - 1] if 0 < q <= len(menu) else None
        if e["res"] == "panic":
            f["what"] = "panic"
        elif e["res"] == "cancelled":
            f["what"] = "cancelled without a pending change"
        elif e["res"] == "ok":
            exp = refs[v][q - 1] if v is not None and v < len(refs) else None
            if exp != e["h"]:
                f["what"] = "wrong answer for snapshot revision"
                same = [i for i, row in enumerate(refs) if row[q - 1] == e["h"]]
                first = [i for i, row in enumerate(head.get("refs_first_content_wins") or []) if row and row[q - 1] == e["h"]]
                f["answer_is_of"] = ("a later version" if any(i > v for i in same) else
                                     "an earlier version" if same else
                                     "an intermediate content of a change (the first text queued for a file, not the last)"
                                     if first else "no version (mixture)")
                d.update({"expected_hash": exp, "got_hash": e["h"], "versions_with_that_answer": same,
                          "during_apply": in_apply, "writes_of_the_changes": head.get("changes")})
            else:
                f["what"] = "ok answer where Host requires Cancelled or no answer"
                d["flag_known_raised"] = flag_seen
    elif e["ev"] == "ApplyEnd":
        if e.get("ms", 0) > DEADLINE_MS:
            f["what"] = "apply blocked"
            f["deadline_ms"] = DEADLINE_MS
        else:
            f["what"] = "apply returned while a snapshot was live"
    elif e["ev"] == "ApplyPanic":
        f["what"] = "panic"
        f["where"] = "apply_change"
    elif e["ev"] == "Snapshot":
        f["what"] = "snapshot does not have the current version"
    d["event"] = e
    return f, d


def validate(out, runs, name, chunk_runs=400, report=True):
    """TLC trace validation, chunk_runs recorded runs per JVM.  Returns (accepted runs, [(features, detail)])."""
    d = vlib.workdir("c12-" + name)
    accepted, bad = 0, []
    for c0 in range(0, len(runs), chunk_runs):
        part = list(runs[c0:c0 + chunk_runs])
        tries = 0
        while part:
            pth = os.path.join(d, f"tr-{c0}-{tries}.ndjson")
            with open(pth, "w") as f:
                for r in part:
                    f.write("\n".join(r) + "\n")
                f.write('{"ev":"end"}\n')
            r = vlib.tlc("Trace_Host", "Trace_Host.cfg", workers=1, timeout=1800, env={"TRACE": pth}, dfs=True,
                         name=f"trace-host-{name}-{c0}-{tries}")
            out.add_tlc(r, f"TRACE Host runs {c0}..{c0+len(part)}")
            if r.violated:
                raise vlib.ToolError("an invariant of Host failed during trace validation (the spec is inconsistent): "
                                     + r.out[-1500:])
            m = re.search(r'<<"REJECTED", (\d+)>>', r.out)
            if not m:
                if r.rc != 0 or r.error:
                    raise vlib.ToolError("Trace_Host failed: " + r.out[-1500:])
                accepted += len(part)
                os.remove(pth)
                break
            line = int(m.group(1))          # 1-based line of the chunk file that no path could consume
            acc_lines, idx = 0, None
            for i, rr in enumerate(part):
                if line <= acc_lines + len(rr):
                    idx = i
                    break
                acc_lines += len(rr)
            if idx is None:                 # the final `end` line: the last run did not end quiescent
                idx = len(part) - 1
                k = len(part[idx])
            else:
                k = line - acc_lines - 1
                if k == 0 and idx > 0:      # a reset was refused: the *previous* run did not end quiescent
                    idx -= 1
                    k = len(part[idx])
            feats, det = classify(part[idx], k)
            head = json.loads(part[idx][0])
            det.update({"run": head.get("run"), "attempt": head.get("attempt", 0), "event_index": k,
                        "shape": {key: head.get(key) for key in ("n", "k", "nf", "touch")},
                        "trace": part[idx][:k + 3]})
            bad.append((feats, det))
            accepted += idx                 # the runs before it were matched completely
            part = part[idx + 1:]
            tries += 1
            if tries > 8:
                vlib.log(f"C12: more than 8 rejected runs in one chunk; {len(part)} runs left unvalidated")
                break
    if report:
        for feats, det in bad:
            out.report(feats, det)
    return accepted, bad


def binding_selftest(out, runs):
    """The validator must have teeth on this very recording: one corrupted answer hash and one dropped Drop event
    must each be rejected, the first at exactly that line.  (A validator that accepts them is a tool error.)"""
    part = [list(r) for r in runs[:25]]
    flat = [(i, j) for i, r in enumerate(part) for j in range(len(r))]
    oks = [(i, j) for (i, j) in flat if '"res":"ok"' in part[i][j]]
    drops = [(i, j) for (i, j) in flat if '"ev":"Drop"' in part[i][j]]
    if not oks or not drops:
        raise vlib.ToolError("selftest: recording has no ok answer / no Drop event")

    def line_no(i, j):
        return sum(len(r) for r in part[:i]) + j + 1

    scratch = vlib.Outcome(out.prop, out.tier, out.seed)
    # (1) corrupted field
    i, j = oks[len(oks) // 2]
    e = json.loads(part[i][j])
    e["h"] = "0" * 16
    mod = [list(r) for r in part]
    mod[i][j] = json.dumps(e, separators=(",", ":"))
    acc, bad = validate(scratch, mod, "selftest-a", report=False)
    want_run = json.loads(part[i][0]).get("run")
    if not bad or bad[0][1].get("run") != want_run or bad[0][1].get("event_index") != j or \
            bad[0][0]["what"] != "wrong answer for snapshot revision":
        raise vlib.ToolError(f"selftest: corrupted hash at line {line_no(i, j)} was not rejected there: {bad[:1]}")
    # (2) dropped event
    i, j = drops[len(drops) // 2]
    mod = [list(r) for r in part]
    del mod[i][j]
    acc, bad2 = validate(scratch, mod, "selftest-b", report=False)
    if not bad2 or bad2[0][1].get("run") != json.loads(part[i][0]).get("run") or bad2[0][1].get("event_index") < j:
        raise vlib.ToolError(f"selftest: dropped Drop event at line {line_no(i, j)} was not rejected: {bad2[:1]}")
    out.cov["binding_selftest"] = {"corrupted_hash_rejected_at_line": line_no(i=oks[len(oks) // 2][0], j=oks[len(oks) // 2][1]),
                                   "dropped_Drop_event_rejected_as": bad2[0][0]["what"] + " @ " + str(bad2[0][0].get("event"))}


def race_and_validate(out, seed, hr_args, name, timeout, selftest=False):
    d = vlib.workdir("c12-race-" + name)
    trace_path = os.path.join(d, "trace.ndjson")
    try:
        summary, mism = hostrace(seed, hr_args, trace_path, timeout)
    except ProcessDied as e:
        # which run: the jobs run in parallel, so the plans are re-run one at a time, each in its own process
        culprit = locate_abort(seed, hr_args, d)
        out.report({"what": "process aborted", "signal": -e.rc if e.rc < 0 else e.rc - 128},
                   {"seed": seed, "args": list(hr_args) if culprit is None else ["--only-run", str(culprit), "--repeat", "6", "--jobs", "1"],
                    "run": culprit, "stderr_tail": e.stderr})
        return {"runs": 0, "aborted": True, "queries": 0, "racing_runs": 0, "samples": [], "ref_pairs": 0, "ref_pairs_differing": 0,
                "events": 0, "cancelled_results": 0, "applies": 0, "max_apply_ms": 0, "mean_apply_ms": 0, "max_query_ms": 0, "ambushes": 0,
                "ambush_timeouts": 0, "changes_with_two_contents_for_a_file": 0, "changes_with_roots_and_graph": 0,
                "ok_answers_on_versions_after_such_changes": 0, "by_kind": {}}, 0
    runs = split_runs(trace_path)
    if len(runs) != summary["runs"]:
        raise vlib.ToolError(f"trace has {len(runs)} runs, summary says {summary['runs']}")
    # what only the harness can see: panic messages, an apply_change that never returned
    extra = {}
    blocked_runs = set()
    for m in mism:
        run = m["detail"].get("run")
        if m["features"]["what"] in ("apply blocked", "query hung"):
            m["detail"]["seed"] = seed
            m["detail"]["args"] = list(hr_args)
            out.report(m["features"], m["detail"])
            blocked_runs.add((run, m["detail"]["shape"].get("attempt", 0)))
        else:
            extra.setdefault((run, m["detail"]["shape"].get("attempt", 0)), []).append(m)
    complete = [r for r in runs if not json.loads(r[0]).get("aborted")]
    accepted, bad = validate(out, complete, name, report=False)
    if selftest and not bad and complete:
        binding_selftest(out, complete)
    for feats, det in bad:
        key = (det.get("run"), det.get("attempt", 0))
        if feats["what"] == "panic" and key in extra:
            p = extra[key][0]
            feats["panic_at"] = p["features"].get("panic_at")
            feats["where"] = p["features"].get("where")
            det["panic"] = p["detail"].get("panic")
        det["seed"] = seed
        det["args"] = list(hr_args)
        out.report(feats, det)
    reported = {(d_.get("run"), d_.get("attempt", 0)) for _, d_ in bad}
    nextra = 0
    for key, ms in sorted(extra.items()):   # panics in runs that TLC did not get to (it gives up after 8 rejected runs per chunk)
        if key not in reported and nextra < 20:
            nextra += 1
            m = ms[0]
            m["detail"]["seed"] = seed
            m["detail"]["args"] = list(hr_args)
            m["detail"]["panics_in_this_run"] = len(ms)
            out.report(m["features"], m["detail"])
    out.cov["traces_validated_against_impl"] += accepted
    out.cov["evaluations"] += summary["queries"]
    out.cov["distinct_nontrivial"] += summary["racing_runs"]
    out.cov["samples"] += summary["samples"]
    return summary, accepted


def repo_tree():
    """The checkout under test = where harness/Cargo.toml takes the ide crate from (/repo, or a worktree under with_repo)."""
    m = re.search(r'^ide\s*=\s*\{\s*path\s*=\s*"([^"]+)/crates/ide"', open(os.path.join(vlib.HARNESS, "Cargo.toml")).read(), re.M)
    if not m:
        raise vlib.ToolError("harness/Cargo.toml: no path dependency on the ide crate")
    return m.group(1)


def public_query_api(tree):
    """The `pub fn`s of `impl Analysis` in crates/ide/src/ide/mod.rs: the complete query API a snapshot offers."""
    src = open(os.path.join(tree, "crates/ide/src/ide/mod.rs")).read()
    m = re.search(r"\nimpl Analysis \{\n(.*?)\n\}\n", src, re.S)
    names = sorted(set(re.findall(r"^    pub fn (\w+)\s*[(<]", m.group(1), re.M))) if m else []
    if len(names) < 5:
        raise vlib.ToolError("could not read the public methods of ide::Analysis from " + tree)
    return names


def coverage_requirements(summary, nruns, api):
    """Vacuity: the race must have exercised what the claim says (tool error otherwise)."""
    missing = sorted(set(api) - set(summary["api"]))
    if missing:
        raise vlib.ToolError("public query methods of ide::Analysis that the race never calls: " + ", ".join(missing)
                             + " (extend KINDS / API / render_query in harness/src/bin/hostrace.rs)")
    called = {c["method"] for c in summary["by_kind"].values()}
    if set(summary["api"]) - called:
        raise vlib.ToolError("hostrace: API names without a query kind: " + ", ".join(sorted(set(summary["api"]) - called)))
    need = max(3, nruns // 10)
    for kind, c in sorted(summary["by_kind"].items()):
        if c["write_known_pending"] < need:
            raise vlib.ToolError(f"query kind {kind}: only {c['write_known_pending']} calls were started while a write was known to "
                                 f"be pending (need {need}): its cancellation wrapper is not exercised")
        if c["issued"] - c["cancelled"] < need:
            raise vlib.ToolError(f"query kind {kind}: only {c['issued'] - c['cancelled']} calls came back with an answer (need {need})")
    if summary["changes_with_two_contents_for_a_file"] < nruns // 4 or summary["changes_with_roots_and_graph"] < nruns // 10:
        raise vlib.ToolError("too few changes with two contents for one file / with roots and package graph")
    if summary["ok_answers_on_versions_after_such_changes"] < nruns:
        raise vlib.ToolError("too few answers on snapshots of versions written by a change with two contents for one file")
    if summary["ambush_timeouts"] > max(2, summary["ambushes"] // 20):
        raise vlib.ToolError(f"{summary['ambush_timeouts']} ambushes never saw the pending write (of {summary['ambushes']})")


def run(out, tier, seed):
    api = public_query_api(repo_tree())
    model_check(out, tier)
    nruns = 300 if tier == "quick" else 5000
    jobs = max(1, min(6, vlib.NCPU // 2 - 2))
    args = ["--runs", str(nruns), "--jobs", str(jobs)]
    summary, accepted = race_and_validate(out, seed, args, tier, timeout=900 if tier == "quick" else 6000, selftest=True)
    if not summary["aborted"] and summary["runs"] != nruns:
        raise vlib.ToolError(f"hostrace executed {summary['runs']} of {nruns} runs")
    if summary["runs"] and not summary["aborted"] and not out.violations:
        frac = summary["racing_runs"] / summary["runs"]
        if frac < 0.3:
            raise vlib.ToolError(f"only {frac:.0%} of the runs had a query overlapping an apply_change: the workload does not race")
        if summary["ref_pairs"] and summary["ref_pairs_differing"] / summary["ref_pairs"] < 0.3:
            raise vlib.ToolError("reference answers of consecutive versions hardly differ: a mixture would go unnoticed")
        coverage_requirements(summary, nruns, api)
    out.cov["exhaustive"] = False
    out.cov["race"] = {k: summary[k] for k in ("runs", "events", "queries", "racing_runs", "cancelled_results", "applies",
                                               "max_apply_ms", "mean_apply_ms", "max_query_ms", "ref_pairs",
                                               "ref_pairs_differing", "aborted", "ambushes", "ambush_timeouts",
                                               "changes_with_two_contents_for_a_file", "changes_with_roots_and_graph",
                                               "ok_answers_on_versions_after_such_changes")}
    out.cov["analysis_api"] = api
    out.cov["query_kinds"] = summary["by_kind"]
    out.cov["rule"] = ("MC: Host.tla exhaustively for 2 readers x 2 changes x 2 files x 2 queries per snapshot, a Change = any interleaving of "
                       "its writes with up to 2 files written twice (intermediate, then final text), with and without a leading "
                       "roots/graph write and the synthetic write (thorough adds 3 readers, and 3 changes x 3 files); invariants incl. "
                       "NoIntermediate, action properties ApplyEffect / SnapshotSeesCommitted, liveness Prompt without state constraint, "
                       "every action covered, three broken variants refuted.  TRACE: %d seeded runs of 1 writer (1-4 changes of 1-3 of 3 "
                       "generated modules with up to 240 chained functions; every third file queued twice, every fifth change with roots "
                       "+ package graph) against 1-4 readers on the real AnalysisHost; menu of 24 entries over 19 query kinds = every "
                       "public query method of ide::Analysis (compared with the source of the tree under test); 1-3 queries per "
                       "snapshot, or - ambush - the whole menu while a write is known to be pending; each run validated by TLC against "
                       "Host with the reference hashes of a fresh analysis of every version (last content queued per file).  samples = "
                       "harness runs; evaluations = queries issued on snapshots; distinct_nontrivial = runs in which a query overlapped "
                       "an apply_change (a Cancelled result or a QueryEnd between ApplyBegin and ApplyEnd); "
                       "traces_validated_against_impl = runs accepted by Trace_Host; query_kinds = per kind: issued / started while a "
                       "write was known pending / cancelled / ok during an apply" % nruns)
    out.assumptions += [
        "the host mutex of the harness stands for the &self/&mut self exclusivity of AnalysisHost (in the server both happen on the one main-loop thread)",
        "scheduling is sampled (seeded delays + OS scheduler), not enumerated: exhaustive only at the model level",
        "answers are compared through a 64-bit FNV hash of their Debug rendering, list answers as sets",
        "liveness of apply_change is observed as wall-clock <= 30 s on inputs whose queries take < 0.2 s",
        "TLC/SANY, CommunityModules Json/IOUtils; trace acceptance uses a TLC register (single worker)",
    ]


def replay(out, path):
    """Re-executes the failing run plan (same seed, run => same workspace, changes and menu) 40 times under fresh
    scheduling against the current tree and validates what was recorded."""
    rec = json.load(open(path))
    d = rec["detail"]
    seed = d.get("seed", rec.get("seed", 1))
    run_id = d.get("run")
    if run_id is None:
        if rec.get("features", {}).get("what") == "process aborted" and d.get("args"):
            # the run that killed the process could not be singled out: the whole race again
            race_and_validate(out, seed, list(d["args"]), "replay", timeout=1800)
            out.cov["rule"] = f"replay of the whole race (seed {seed})"
            return
        raise vlib.ToolError("replay file has no run id")
    args = list(d.get("args", []))
    # keep workload-shaping arguments, drop the run range
    keep, skip = [], False
    for a in args:
        if skip:
            skip = False
            continue
        if a in ("--runs", "--first-run", "--jobs"):
            skip = True
            continue
        keep.append(a)
    args = keep + ["--only-run", str(run_id), "--repeat", "40", "--jobs", "2"]
    race_and_validate(out, seed, args, "replay", timeout=1200)
    out.cov["rule"] = f"replay of run {run_id} (seed {seed}) 40 times"
