"""C03 - a syntax error inside one definition does not disturb the others.
Spec: Recovery.tla - files of well-formed definitions, a victim with a body, up to k admissible edits strictly inside the
victim's outermost braces (no opening delimiter, no string/comment opener, braces untouched); TLC checks that the
precondition of the property holds in every reachable state (Admissible) and enumerates every (file, victim, edit).
GEN: the harness parses each damaged file: the definitions outside the victim's span must be recognised with the same
kind, name and text in the same order, and every syntax error must lie inside the victim's span."""
import json, os
import vlib

TEMPLATES = [
    ("fn", "f1", "fn f1 ( x , y ) { let z = x + y z }"),
    ("fn", "f2", "pub fn f2 ( a : Int ) -> Int { case a { 1 -> 2 _ -> a } }"),
    ("fn", "f3", "fn f3 ( ) { g ( 1 , l : [ 2 , 3 ] ) |> h }"),
    ("fn", "f4", "fn f4 ( r ) { use v <- try ( r ) # ( v , fn ( q ) { q } ) }"),
    ("type", "T1", "pub type T1 { A1 B1 ( Int , l : String ) }"),
    ("type", "T2", "type T2 ( a ) { C2 ( inner : a ) }"),
    ("const", "c1", "pub const c1 = 1"),
    ("const", "c2", "const c2 : String = \"s\""),
    ("import", "m/n", "import m/n . { x , type Y }"),
    ("import", "k", "import k as j"),
    ("alias", "A1", "pub type A1 = List ( Int )"),
    ("fn", "f5", "@external ( erlang , \"m\" , \"f\" ) fn f5 ( x ) -> Int"),
    ("fn", "f6", "fn f6 ( a ) { let x = << a , 2 >> case x { << 1 , r >> -> r _ -> a } }"),
    ("fn", "f7", "fn f7 ( t ) { let # ( a , b ) = t case t { # ( 1 , [ h , .. r ] ) -> h T ( l : v , .. ) as w -> v } }"),
    ("fn", "f8", "pub fn f8 ( l k : List ( Int ) , _ ) -> fn ( Int ) -> Int { fn ( a , b : Int ) -> Int { a + b . 0 } }"),
    ("type", "T3", "pub opaque type T3 ( a , b ) { D3 ( f : fn ( a ) -> b , g : # ( a , m . X ( b ) ) ) E3 }"),
    ("fn", "f9", "fn f9 ( x ) { let assert [ y ] = x todo as \"s\" x . f ( 1 ) |> g ( _ , 2 ) }"),
    ("const", "c3", "const c3 = # ( 1 + 2 , k . v , \"s\" <> \"t\" , [ A , B ( 1 ) ] )"),
    ("alias", "A2", "type A2 ( a ) = fn ( a , m . T ) -> # ( a , List ( a ) )"),
    # closers directly in front of a lambda's closing brace that is itself directly followed by a closer of the same kind
    ("fn", "f10", "fn f10 ( xs ) { m . map ( xs , fn ( x ) { d ( x ) } ) [ fn ( ) { [ xs ] } ] # ( 1 , fn ( ) { # ( 1 , 2 ) } ) }"),
]


# damages found by the thorough tier's two-edit simulation, kept in every run (the quick tier samples only 1 600 two-edit files)
PINNED = [
    # F47: a definition keyword inside a type body + a lost `)`: the restarted definition's generic parameter list
    {"edits": [{"k": "rep", "p": 12, "x": ":"}, {"k": "rep", "p": 7, "x": "type"}],
     "items": [{"kind": "type", "lex": "type T2 ( a ) { type ( inner : a : }".split(" "), "name": "T2", "victim": True},
               {"kind": "fn", "lex": "fn f4 ( r ) { use v <- try ( r ) # ( v , fn ( q ) { q } ) }".split(" "), "name": "f4", "victim": False},
               {"kind": "import", "lex": "import k as j".split(" "), "name": "k", "victim": False}]},
    # F48
    {"edits": [{"k": "ins", "p": 6, "x": "fn"}, {"k": "rep", "p": 14, "x": ">="}], "items": [{"kind": "type", "lex": ["pub", "opaque", "type", "T3", "(", "a", ",", "b", ")", "{", "D3", "(", "f", ":", "fn", "(", "a", ")", "->", "b", ",", "g", ":", "#", "(", "a", ",", "m", ".", "X", "(", "b", ")", ")", ")", "E3", "}"], "name": "T3", "victim": False}, {"kind": "fn", "lex": ["fn", "f1", "(", "x", ",", "y", ")", "{", "let", "z", "=", "x", "+", "y", "z", "}"], "name": "f1", "victim": False}, {"kind": "type", "lex": ["pub", "type", "T1", "{", "A1", "B1", "fn", "(", "Int", ",", "l", ":", "String", ">=", "}"], "name": "T1", "victim": True}]},
    # F48
    {"edits": [{"k": "del", "p": 17, "x": ")"}, {"k": "rep", "p": 6, "x": "fn"}], "items": [{"kind": "fn", "lex": ["fn", "f7", "(", "t", ")", "{", "let", "#", "(", "a", ",", "b", ")", "=", "t", "case", "t", "{", "#", "(", "1", ",", "[", "h", ",", "..", "r", "]", ")", "->", "h", "T", "(", "l", ":", "v", ",", "..", ")", "as", "w", "->", "v", "}", "}"], "name": "f7", "victim": False}, {"kind": "alias", "lex": ["type", "A2", "(", "a", ")", "=", "fn", "(", "a", ",", "m", ".", "T", ")", "->", "#", "(", "a", ",", "List", "(", "a", ")", ")"], "name": "A2", "victim": False}, {"kind": "fn", "lex": ["fn", "f3", "(", ")", "{", "fn", "(", "1", ",", "l", ":", "[", "2", ",", "3", "]", "|>", "h", "}"], "name": "f3", "victim": True}]},
    # F48
    {"edits": [{"k": "rep", "p": 12, "x": "|>"}, {"k": "ins", "p": 7, "x": "fn"}], "items": [{"kind": "import", "lex": ["import", "m/n", ".", "{", "x", ",", "type", "Y", "}"], "name": "m/n", "victim": False}, {"kind": "type", "lex": ["type", "T2", "(", "a", ")", "{", "C2", "fn", "(", "inner", ":", "a", "|>", "}"], "name": "T2", "victim": True}, {"kind": "type", "lex": ["pub", "type", "T1", "{", "A1", "B1", "(", "Int", ",", "l", ":", "String", ")", "}"], "name": "T1", "victim": False}]},
]

FOLLOWERS = {"f1", "f2", "T1", "T2", "c1", "c2", "k", "A1", "f5"}   # every way the next definition can start


def item(kind, name, text):
    lex = text.split(" ")
    lo = hi = 0
    is_open = False
    if kind in ("fn", "type") and "{" in lex and lex[-1] == "}":
        lo = lex.index("{") + 1
        hi = len(lex)
    elif kind in ("const", "alias"):
        # a body that is not delimited by braces: everything after `=`
        lo = lex.index("=") + 1
        hi = len(lex) + 1
        is_open = True
    return {"kind": kind, "name": name, "lex": lex, "lo": lo, "hi": hi, "open": is_open, "follower": name in FOLLOWERS}


def run_cases(out, cases, name):
    d = vlib.workdir("c03-" + name)
    path = os.path.join(d, "cases.ndjson")
    with open(path, "w") as f:
        for c in cases:
            f.write(json.dumps(c) + "\n")
    p = vlib.run_bin("recoverycheck", stdin_path=path, timeout=7200)
    if p.returncode != 0:
        raise vlib.ToolError("recoverycheck crashed: " + p.stderr.decode()[-2000:])
    recs = vlib.json_lines(p.stdout)
    for r in recs:
        if r["kind"] == "mismatch":
            out.report(r["features"], r["detail"])
    return [r for r in recs if r["kind"] == "summary"][0]


def run(out, tier, seed):
    items = [item(*t) for t in TEMPLATES]
    d = vlib.workdir("c03-items")
    # BFS (k = 1, every position x every non-opening lexeme) over all ordered pairs of templates
    ip = os.path.join(d, "items.ndjson")
    with open(ip, "w") as f:
        for it in items:
            f.write(json.dumps(it) + "\n")
    r = vlib.tlc("Recovery", "Recovery_k1.cfg", workers=8, timeout=3000, heap="8g", env={"ITEMS": ip}, coverage=True)
    vlib.require_ok(r, "Recovery k=1")
    out.add_tlc(r, "MC Admissible + GEN k=1 exhaustive")
    cases = list(r.cases())
    if len(cases) < 5000:
        raise vlib.ToolError("too few Recovery cases")
    nsim = 1600 if tier == "quick" else 20000
    jobs = [dict(module="Recovery", cfg="Recovery_sim.cfg", workers=1, simulate=1, depth=nsim // 4 * 5 + 3, seed=seed * 10 + i, timeout=3000,
                 env={"ITEMS": ip}, name=f"rec-sim-{i}") for i in range(4)]
    for j, r2 in zip(jobs, vlib.tlc_many(jobs, max_parallel=4)):
        vlib.require_ok(r2, j["name"])
        out.add_tlc(r2, "GEN simulation k=2, files of 3 definitions")
        cases += list(r2.cases())
    cases += PINNED
    s = run_cases(out, cases, "main")
    out.cov["traces_validated_against_impl"] += s["cases"]
    out.cov["evaluations"] += s["cases"]
    out.cov["distinct_nontrivial"] += s["with_errors"]
    out.cov["samples"] += s["samples"]
    out.cov["exhaustive"] = True
    out.cov["rule"] = ("every template with a body as victim (11) x every designated follower (9: private/pub fn, attribute, type, pub type, const, pub const, import, alias) x every single edit (insert / delete / "
                       "replace at every position strictly inside the outermost braces with every non-opening lexeme: keywords incl. "
                       "fn/pub/type/const/import, identifiers, literals, operators, closers, separators, lexer-error characters), plus seeded "
                       "two-edit damages in files of three definitions; distinct_nontrivial = damaged files that produce at least one syntax error")
    out.assumptions += ["reading of the precondition as fixed in DESIGN.md 4 C03 (victims are items with a brace-delimited body; # counts as opener)"]


def replay(out, path):
    run_cases(out, [json.load(open(path))["detail"]["case"]], "replay")
