"""C10 - every IDE query answers on every workspace, however broken.
Spec: Workspace.tla - workspaces reachable from well-formed seeds by token damage, truncation, duplication, file
replacement/emptying/adding and import rewiring (self-imports, cycles); for every workspace, file, token boundary and
query kind the specification predicts: answered.  GEN: TLC enumerates all single-step damages of small seeds (BFS) and
simulates multi-step histories; the harness loads each workspace into a fresh host and issues every query kind at every
token boundary (observable: answered / panicked / timeout / aborted)."""
import json
import vlib
from checks import ws_common


def features_of(r):
    f = dict(r["features"])
    p = f.get("panic", "")
    # location and message prefix identify a panic site
    if " @ " in p:
        msg, loc = p.rsplit(" @ ", 1)
        f["panic_at"] = loc.replace("/repo/", "")
        f["panic_msg"] = msg[:60]
    return f


def run(out, tier, seed):
    ws, multi, allseeds = ws_common.damaged_workspaces(out, tier, seed)
    cases = ws + multi + allseeds
    mism, summary, _ = ws_common.sweep(cases, "c10")
    for r in mism:
        if r["prop"] == "C10":
            out.report(features_of(r), r["detail"])
    ws_common.flush_lex_failures(out)
    if summary:
        out.cov["traces_validated_against_impl"] += summary["workspaces"]
        out.cov["evaluations"] += summary["calls"]
        out.cov["distinct_nontrivial"] += summary["workspaces_with_diagnostics"]
    out.cov["samples"] += [cases[len(ws) // 2], multi[len(multi) // 2] if multi else cases[0]]
    out.cov["exhaustive"] = True
    out.cov["rule"] = ("every workspace one damage step away from the small seeds (all positions x all damage lexemes, truncations, "
                       "duplications, file replacement/emptying/adding, import rewiring) plus every intermediate workspace of simulated "
                       "8-step histories plus the seeds themselves (generated programs, hand-written feature programs, corpus pieces); "
                       "15 query kinds at every token boundary (and some mid-token offsets) of every file; "
                       "distinct_nontrivial = workspaces with at least one diagnostic (i.e. really broken)")
    out.assumptions += ["a query running longer than 30 s counts as non-termination"]


def replay(out, path):
    d = json.load(open(path))["detail"]
    mism, summary, _ = ws_common.sweep([d["case"]], "c10-replay")
    for r in mism:
        if r["prop"] == "C10":
            out.report(features_of(r), r["detail"])
