"""C10 - every IDE query answers on every workspace, however broken.
Spec: Workspace.tla - workspaces reachable from well-formed seeds by token damage, truncation, duplication, file
replacement/emptying/adding and import rewiring (self-imports, cycles); for every workspace, file, token boundary and
query kind the specification predicts: answered.  GEN: TLC enumerates all single-step damages of small seeds (BFS) and
simulates multi-step histories; the harness loads each workspace into a fresh host and issues every query kind at every
token boundary (observable: answered / panicked / timeout / aborted)."""
import json, os
import vlib
from checks import ws_common


def features_of(r):
    f = dict(r["features"])
    p = f.get("panic", "")
    # location and message prefix identify a panic site
    if " @ " in p:
        msg, loc = p.rsplit(" @ ", 1)
        f["panic_at"] = loc.replace("/repo/", "")
        f["panic_msg"] = msg[:60]
    return f


def scale_text(shape, n):
    """rendering of Workspace.ScaleCases"""
    if shape == "case_vars":
        return "fn f(x) { case x {\n" + "".join(f"  v{i} -> v{i}\n" for i in range(n)) + "} }\n"
    if shape == "case_lits":
        return "fn f(x) { case x {\n" + "".join(f"  {i} -> \"s{i}\"\n" for i in range(n)) + "  _ -> \"\" } }\n"
    if shape == "list":
        return "const l = [\n" + ",\n".join(f"  #({i}, \"v{i}\")" for i in range(n)) + "\n]\nfn f() { l }\n"
    if shape == "args":
        return "fn g(l) { l }\nfn f() { g([" + ", ".join(str(i) for i in range(n)) + "]) }\n"
    if shape == "lets":
        return "fn f(a0) {\n" + "".join(f"  let a{i+1} = a{i} + {i}\n" for i in range(n)) + f"  a{n}\n}}\n"
    if shape == "pipeline":
        return "fn g(x) { x }\nfn f(x) { x\n" + "".join("  |> g\n" for i in range(n)) + "}\n"
    if shape == "fns":
        return "".join(f"pub fn f{i}(x) {{ x + {i} }}\n" for i in range(n)) + "fn main() { f0(1) }\n"
    if shape == "variants":
        return "pub type T {\n" + "".join(f"  V{i}(a: Int)\n" for i in range(n)) + "}\nfn f(t: T) { t }\n"
    raise vlib.ToolError("unknown scale shape " + shape)


def scale_family(out):
    sc = getattr(ws_common, "SCALE", None)
    if not sc:
        raise vlib.ToolError("Workspace.tla did not print its scale cases")
    d = vlib.workdir("c10-scale")
    path = os.path.join(d, "scale.ndjson")
    with open(path, "w") as f:
        for c in sorted(sc, key=lambda c: (c["shape"], c["n"])):
            f.write(json.dumps({"name": f"{c['shape']}:{c['n']}", "gen": c, "text": scale_text(c["shape"], c["n"])}) + "\n")
    p = vlib.run_bin("scalecheck", stdin_path=path, timeout=1200)
    if p.returncode != 0:
        raise vlib.ToolError("scalecheck crashed: " + p.stderr.decode()[-1500:])
    for r in vlib.json_lines(p.stdout):
        if r["kind"] == "mismatch":
            out.report(r["features"], r["detail"])
        elif r["kind"] == "summary":
            out.cov["evaluations"] += r["calls"]
            out.cov["traces_validated_against_impl"] += r["cases"]


def run(out, tier, seed):
    ws, multi, allseeds = ws_common.damaged_workspaces(out, tier, seed)
    scale_family(out)
    cases = ws + multi + allseeds
    mism, summary, _ = ws_common.sweep(cases, "c10")
    for r in mism:
        if r["prop"] == "C10":
            out.report(features_of(r), r["detail"])
    ws_common.flush_lex_failures(out)
    if summary:
        out.cov["traces_validated_against_impl"] += summary["workspaces"]
        out.cov["evaluations"] += summary["calls"]
        out.cov["distinct_nontrivial"] += summary["workspaces_with_diagnostics"]
    out.cov["samples"] += [cases[len(ws) // 2], multi[len(multi) // 2] if multi else cases[0]]
    out.cov["exhaustive"] = True
    out.cov["rule"] = ("every workspace one damage step away from the small seeds (all positions x all damage lexemes, truncations, "
                       "duplications, file replacement/emptying/adding, import rewiring) plus every intermediate workspace of simulated "
                       "8-step histories plus the seeds themselves (generated programs, hand-written feature programs, corpus pieces); "
                       "15 query kinds at every token boundary (and some mid-token offsets) of every file; "
                       "distinct_nontrivial = workspaces with at least one diagnostic (i.e. really broken)")
    out.assumptions += ["a query running longer than 30 s counts as non-termination"]


def replay(out, path):
    d = json.load(open(path))["detail"]
    if d.get("generator"):
        # a case of the scale family: rendered again from (shape, n)
        ws_common.SCALE = [d["generator"]]
        scale_family(out)
        return
    mism, summary, _ = ws_common.sweep([d["case"]], "c10-replay")
    for r in mism:
        if r["prop"] == "C10":
            out.report(features_of(r), r["detail"])
