"""Shared by C10 / C11 / C20: seeds (GleamGen programs, corpus), Workspace.tla runs, the sweep harness."""
import glob, json, os, random, subprocess
import vlib
from checks import scope_common

LIB = "pub fn a(x) { x }\npub fn c() { 1 }\nfn p() { 2 }\npub type A { A(a: Int) C }\npub const k = 1\npub type T { W }\ntype P { Q }\n"
EXTRA_SEEDS = [
    # labelled parameters called in every shape, well- and ill-typed (surplus arguments, labels after positionals, pipes)
    'fn labelled(label1 a: Int, label2 b: String) { a }\nfn u1() { 1 |> labelled(label1: 1, label2: "a") }\nfn u2() { labelled(1, "a", label1: 3) }\n'
    'fn u3() { labelled(label2: "x", label1: 2) }\nfn u4() { labelled(label2: "x") |> labelled(1) }\n',
    # types that do not exist in Gleam (occurs check): infinite types constrained once and twice
    'fn flat(l) { case l { [] -> [] [x, ..r] -> [flat(x), ..flat(r)] } }\nfn selfapp(a) { a(a) a(a) }\nfn once(a) { a(a) }\n',
    # self-referential and mutually recursive aliases, recursive types
    'type A = A\ntype B = List(B)\ntype C = D\ntype D = C\ntype L { Cons(Int, L) Nil2 }\nfn f(x: A, y: B, z: C) { #(x, y, z) }\nfn g(l: L) { case l { Cons(h, t) -> g(t) Nil2 -> 0 } }\n',
    # functions calling each other across two modules (with its own library module)
    ('import m2\npub fn ping(n) { m2.pong(n) }\npub fn top() { ping(1) }\n', 'import m1\npub fn pong(n) { m1.ping(n) }\npub type T { W }\n'),
    ('import m2.{pong}\npub fn ping(n) { pong(n) }\n', 'import m1.{ping}\npub fn pong(n) { ping(n) }\n'),
    # a recursion group of an imported module in which a PRIVATE function precedes a public one (generic, and ill-typed so that
    # the order in which the group's members are inferred shows), reached through an unqualified import
    ('import m2.{g}\npub fn top() { g(1, "s") }\n', 'fn h(a, b) { g(b, a) }\npub fn g(x, y) { h(y, x) }\nfn p() { q() + 1 }\npub fn q() { p() <> "s" }\n'),
    ('import m2.{q}\npub fn top() { q() }\n', 'fn p() { q() + 1 }\npub fn q() { p() <> "s" }\nfn r(a) { [s(a)] }\npub fn s(b) { r(b) }\n'),
    # two modules importing each other where the back reference goes to ANOTHER, non-recursive function with a concrete type:
    # whatever the analysis makes of the cycle must not depend on which function is asked about first
    ('import m2\npub fn one() { 1 }\npub fn f() { m2.two() }\npub fn k() { #(f(), one()) }\n', 'import m1\npub fn two() { m1.one() }\npub fn three() { [two()] }\n'),
    ('import m2.{two}\npub fn one() { "s" }\npub fn f() { two() <> one() }\n', 'import m1.{one}\npub fn two() { one() }\n'),
    # a cycle of imports through three modules, with the calls going round it (qualified and unqualified)
    ('import m2\npub fn f1(n) { m2.f2(n) }\npub fn top() { f1(1) }\n', 'import m3\npub fn f2(n) { m3.f3(n) }\n', 'import m1\npub fn f3(n) { m1.f1(n) }\n'),
    ('import m2.{f2}\npub fn f1(n) { f2(n) }\n', 'import m3.{f3}\npub fn f2(n) { f3(n) + 1 }\n', 'import m1.{f1}\npub fn f3(n) { f1(n) }\n'),
    # a module that imports itself and calls itself through that import (directly and mutually)
    'import m1\npub fn f(x) { m1.f(x) }\npub fn g(y) { m1.h(y) }\npub fn h(z) { m1.g(z) }\nfn top() { m1.f(1) }\n',
    # arities that do not agree: more patterns than subjects (and the surplus binding used), fewer, surplus / missing arguments
    'fn f(x) { case x { 1, y -> y _ -> x } }\nfn g(x, z) { case x, z { 1 -> x a, b, c -> c } }\nfn h(a) { f(a, a) + g(a) + h() }\nfn i(t) { let #(p, q) = #(t, t, t) p }\n',
    # documentation comments in front of variants and labelled fields (the named things there must still be exactly one token)
    'pub type R {\n  /// first é\n  R(\n    /// the name\n    name: String,\n    /// how many 💣\n    count: Int,\n  )\n  /// none\n  N\n}\n/// doc\npub fn f(r: R) { r.name }\nfn g() { R(name: "x", count: 1) }\n',
    # arities that do not agree in pipelines, use and captures (too many / too few arguments, piping into a value)
    'fn one() { 1 }\nfn two(a, b) { a }\nfn p() { 2 |> one(3) }\nfn q() { 2 |> one }\nfn r() { 1 |> two(2, 3, 4) }\nfn s() { 1 |> two }\n'
    'fn t() { use x, y <- two(1) x }\nfn u() { two(_, _, _) }\nfn v() { one(1)(2) }\nfn w() { 1 |> 2 |> one() }\n',
    # values of different custom types of two modules forced together (ill-typed): list elements, equality, case branches
    ('import m2\npub type Fruit { Apple Pear }\npub fn mix() { [Apple, m2.W] }\npub fn eq(x: Fruit, y: m2.T) { x == y }\n'
     'pub fn br(c) { case c { True -> Apple False -> m2.W } }\npub fn back() { [m2.W, Pear] }\n',
     'import m1\npub type T { W }\npub fn other() { [W, m1.Apple] }\n'),
    # non-ASCII text in comments, strings and broken places
    '//// модуль 日本語\n/// док 💣\npub fn h() { "こんにちは" <> "é" } // конец\nconst k = "กขค"\nfn i() { let s = "💣💣" s }\n',
    # mutual recursion / recursion groups (the functions of one group are inferred together)
    'import m2\npub fn is_even(n) { case n { 0 -> True _ -> is_odd(n - 1) } }\npub fn is_odd(n) { case n { 0 -> False _ -> is_even(n - 1) } }\nfn top() { is_even(m2.c()) }\n',
    'pub fn ping(n) { case n { 0 -> 0 _ -> pong(n - 1) } }\nfn pong(n) { ping(n) + 1 }\n',
    'fn p1(x) { p2(x + 1) }\nfn p2(y) { p3(y) <> "s" }\nfn p3(z) { case z { 0 -> "" _ -> p1(z) } }\nfn solo() { p2(1) }\n',
    # a labelled field that several variants share (one access, several declarations), next to fields only one variant has
    'pub type Pet { Dog(name: String, age: Int) Cat(name: String, lives: Int) Fish(name: String) }\nfn n(p: Pet) { p.name }\n'
    'fn mk() { Dog(name: "x", age: 1).name }\nfn m(p) { case p { Cat(name: n, ..) -> n Dog(age: a, ..) -> a _ -> "" } }\n',
    # nesting deeper than any limit the parser may have (closed, and cut off in the truncations)
    'fn deep() { [[[[[[[[[[[[[[[[[[[[[[[[[[[[[[[[[[[[[[[[[[[[[[[[[[[[[[[[[[[[[[[[[[[[[[[[[[[[[[[[[[[[[[[[[[[[[[[[[[[[[[[[[[[[[[[[[[[[[[[[[[[[[[[[[[[[[[[[[[[[[[[[[[[[[[[[[[[[[[[[[[[[[[[[[[[[[[[[[[[[[[[[[[[[[[[[[[[[[[[[[[[[[[[[[[[[[[[[[[[[[[[[[[[[[[[[[[[[[[[[[[[[[[[[[[[[[[[[[[[[[[[[[[[[[[[[[[[[[[[[[[[[[[[[[[[[[[[[[[[[1]]]]]]]]]]]]]]]]]]]]]]]]]]]]]]]]]]]]]]]]]]]]]]]]]]]]]]]]]]]]]]]]]]]]]]]]]]]]]]]]]]]]]]]]]]]]]]]]]]]]]]]]]]]]]]]]]]]]]]]]]]]]]]]]]]]]]]]]]]]]]]]]]]]]]]]]]]]]]]]]]]]]]]]]]]]]]]]]]]]]]]]]]]]]]]]]]]]]]]]]]]]]]]]]]]]]]]]]]]]]]]]]]]]]]]]]]]]]]]]]]]]]]]]]]]]]]]]]]]]]]]]]]]]]]]]]]]]]]]]]]]]]]]]]]]]]]]]]]]]] }\nfn after() { 1 }\n',
    # escapes in string literals, valid and not, also directly in front of multi-byte characters
    'fn esc() { "caf\\\u00e9 \\\u2192 b \\n \\x \\u{41} \\u{zz} \\\U0001f4a3" }\nconst c = "a\\\u00e9"\nfn g(s) { case s { "\\\u00e9" <> rest -> rest _ -> s } }\n',
    # a type whose rendering is large (it doubles with every binding: the last one has 2^11 components)
    'fn big() {\n  let a = #(1, "s")\n  let b = #(a, a)\n  let c = #(b, b)\n  let d = #(c, c)\n  let e = #(d, d)\n  let f = #(e, e)\n  let g = #(f, f)\n'
    '  let h = #(g, g)\n  let i = #(h, h)\n  let j = #(i, i)\n  j\n}\nfn use_big() { big() }\n',
    # invisible characters where editors and tools put them: a byte order mark at the very start of the file (files saved as
    # "UTF-8 with BOM"), a no-break space, a line separator
    '\ufeffimport m2\npub fn main() { m2.c() }\nfn g(x) { main() + g(x) }\npub type T { T(f: Int) }\nfn h(t: T) { t.f }\n',
    '\ufeff\ufeffpub fn main() {\u00a0g(1) }\u2028fn g(x) { x }\n',
    # hand-written multi-feature seeds (fields, labels, types, non-ASCII)
    'import m2.{type A, A}\npub type T { T(x: Int, y: String) U }\npub fn f(t: T) -> Int { case t { T(x: x, ..) -> x U -> 0 } }\nfn g(a: A) { a.a }\nconst s = "é💣"\n',
    '// ünïcode\npub fn h(l: List(Int)) { let [x, ..r] = l use y <- g(x) y + f(r) }\nfn g(x, k) { k(x) }\nfn f(r) { case r { [] -> 0 [a, ..] -> a } }\n',
    'pub type Box(a) { Box(inner: a) }\npub fn map(b: Box(a), f: fn(a) -> b) -> Box(b) { Box(inner: f(b.inner)) }\npub fn main() { Box(1) |> map(fn(x) { x + 1 }) }\n',
]


# Compact seeds for the exhaustive single-step damage (every position x every damage lexeme): small enough for BFS, dense
# in the constructs whose two sides must agree (labels of callee and caller, subjects and patterns, parameters and arguments).
BFS_SEEDS = [
    ('import m2\nfn u(p, q) { m2.mk(b: q, a: p) }\n', 'pub fn mk(a x: Int, b y: String) { #(x, y) }\n'),
    'fn f(a, b) { case a, b { 1, c -> c _, _ -> f(b, a) } }\n',
    # prefix operators where patterns are expected (list element, tuple field, constructor argument)
    'fn g(l) { case l { [-1, ..] -> 0 #(-2, Ok(-3)) -> 1 } }\n',
]


# C11 only: an import chain over three modules (m1 uses m2, m2 uses m3 through a plain `import`), so that a single step two
# modules away from the user - an import put in front of m3, closing a cycle when all modules are in one package - is among
# the exhaustive single steps
CHAIN_SEEDS = [
    ('import m2\npub fn t() { m2.w(1) }\n', 'import m3\npub fn w(x) { m3.v(x) }\n', 'pub fn v(x) { x + 1 }\n'),
]

LEX_FAILS = []
SCALE = None      # Workspace.ScaleCases as printed by the last Workspace run


def lex(text):
    """lexemes of a seed text (the repository's own lexer).  If the lexer itself fails on a seed, every query on that
    workspace would fail too: remembered and reported as a violation by flush_lex_failures, the seed is split on blanks."""
    p = vlib.run_bin("lexdump", stdin_data=text)
    if p.returncode != 0:
        LEX_FAILS.append({"text": text, "stderr": p.stderr.decode("utf-8", "replace")[-600:], "rc": p.returncode})
        return text.split()
    return json.loads(p.stdout.decode())


def flush_lex_failures(out):
    for f in LEX_FAILS:
        out.report({"what": "panic", "query": "lex", "panic": "the lexer failed on a seed"}, {"case": {"files": [["m1", f["text"]]]}, "stderr": f["stderr"], "rc": f["rc"]})
    del LEX_FAILS[:]


def seeds(out, tier, seed, n_gen):
    """list of workspaces [{files:[{name,lex}]}]: generated programs (with the fixed library), extra seeds, corpus pieces"""
    main, _ = scope_common.programs(out, tier, seed)
    rnd = random.Random(seed * 7 + 1)
    liblex = lex(LIB)
    res = []
    # smallish generated programs first (BFS seeds must be small)
    progs = sorted(main.sample(rnd, 400), key=lambda c: len(c["out"]))
    picks = progs[5:5 + n_gen // 2] + rnd.sample(progs[len(progs) // 2:], n_gen - n_gen // 2)
    for c in picks:
        l = [t["t"] for t in c["out"] if t["r"] not in ("open", "close") and t["t"]]
        res.append({"files": [{"name": "m1", "lex": l}, {"name": "m2", "lex": liblex}]})
    res += RAW_SEEDS
    for t in EXTRA_SEEDS:
        if isinstance(t, tuple):
            res.append({"files": [{"name": f"m{i + 1}", "lex": lex(x)} for i, x in enumerate(t)]})
        else:
            res.append({"files": [{"name": "m1", "lex": lex(t)}, {"name": "m2", "lex": liblex}]})
            # the same module as a free-standing file: it belongs to no package of the graph, its imports resolve to nothing
            res.append({"files": [{"name": "m1", "lex": lex(t)}], "shape": "no-package"})
    for f in sorted(glob.glob(os.path.join(vlib.VERIF, "corpus", "**", "*.gleam"), recursive=True)):
        t = open(f, encoding="utf-8").read()
        l = lex(t)
        if 3 < len(l) < 150:
            res.append({"files": [{"name": "m1", "lex": l}, {"name": "m2", "lex": liblex}]})
        elif len(l) >= 150:
            k = rnd.randrange(0, len(l) - 140)
            res.append({"files": [{"name": "m1", "lex": l[k:k + 140]}, {"name": "m2", "lex": liblex}]})
    return res


TAILS = ["// é", "// …", "// 💣", "\"ß"]


# seeds given as lexemes (for files whose last comment has no line break): a module that is only a doc header
RAW_SEEDS = [
    {"files": [{"name": "m1", "lex": ["import", "m2", "pub", "fn", "f", "(", ")", "{", "m2", ".", "x", "}"]},
               {"name": "m2", "lex": ["//// the module\n", "//// more é"]}]},
    {"files": [{"name": "m1", "lex": ["import", "m2", "import", "m3", "fn", "f", "(", ")", "{", "m3", ".", "y", "(", "m2", ".", "x", ")", "}"]},
               {"name": "m2", "lex": ["//// x"]}, {"name": "m3", "lex": ["/// y\n", "pub", "fn", "y", "(", "a", ")", "{", "a", "}", "// end 💣"]}]},
]


def extra_truncations():
    """every lexeme-level truncation of every hand-written seed (end-of-input errors in non-ASCII and odd programs)"""
    liblex = lex(LIB)
    res = []
    for t in EXTRA_SEEDS:
        ms = [lex(x) for x in t] if isinstance(t, tuple) else [lex(t), liblex]
        # (a long seed - the nesting tower - is cut at a dozen places only)
        for i in range(1, len(ms[0]), 1 if len(ms[0]) <= 200 else len(ms[0]) // 12):
            rest = [{"name": f"m{k + 2}", "lex": m} for k, m in enumerate(ms[1:])]
            res.append({"files": [{"name": "m1", "lex": ms[0][:i]}] + rest, "steps": 1})
            # the same truncation with the file ending in a multi-byte character (a comment without its line break)
            if i % 3 == 0:
                res.append({"files": [{"name": "m1", "lex": ms[0][:i] + [TAILS[(i // 3) % len(TAILS)]]}] + rest, "steps": 1})
    return res


def write_seeds(ws, name):
    d = vlib.workdir(name)
    p = os.path.join(d, "seeds.ndjson")
    with open(p, "w") as f:
        for w in ws:
            f.write(json.dumps(w) + "\n")
    return p


def damaged_workspaces(out, tier, seed):
    """Workspace.tla, mode damage (BFS over single steps from two small seeds) + histories (multi-step)."""
    allseeds = seeds(out, tier, seed, 12 if tier == "quick" else 60)
    small = bfs_seeds(allseeds, tier)
    sp = write_seeds(small, "ws-seeds-bfs")
    r = vlib.tlc("Workspace", "Workspace_damage.cfg", workers=8, timeout=3000, heap="8g", env={"SEEDS": sp}, coverage=(tier == "quick"))
    vlib.require_ok(r, "Workspace damage")
    out.add_tlc(r, "GEN Workspace single-step damage (BFS)")
    ws = list(r.cases())
    global SCALE
    sc = list(r.cases("SCALE"))
    SCALE = sc[0] if sc else None
    hs = histories(out, tier, seed, allseeds, n=(40 if tier == "quick" else 1500))
    multi = []
    for h in hs:
        for st in h["hist"][1:]:
            if st["op"]["k"] != "query":
                multi.append({"files": st["files"], "steps": 2})
    return ws, multi + extra_truncations(), allseeds


def bfs_seeds(allseeds, tier, more=()):
    """the seeds of the exhaustive single-step damage: the smallest generated program(s) and the compact hand-written ones"""
    liblex = lex(LIB)
    small = sorted(allseeds, key=lambda w: sum(len(f["lex"]) for f in w["files"]))[:(1 if tier == "quick" else 4)]
    for t in BFS_SEEDS + list(more):
        ms = [lex(x) for x in t] if isinstance(t, tuple) else [lex(t), liblex]
        small.append({"files": [{"name": f"m{k + 1}", "lex": m} for k, m in enumerate(ms)]})
    return small


def single_step_histories(out, tier, seed, allseeds):
    """C11: every workspace one damage step from a BFS seed, as two histories: seed -> damaged and damaged -> seed"""
    small = bfs_seeds(allseeds, tier, CHAIN_SEEDS)
    sp = write_seeds(small, "ws-seeds-bfs11")
    r = vlib.tlc("Workspace", "Workspace_damage.cfg", workers=8, timeout=3000, heap="8g", env={"SEEDS": sp}, name="Workspace-damage-c11")
    vlib.require_ok(r, "Workspace damage")
    out.add_tlc(r, "GEN Workspace single-step damage (BFS) as histories")
    hs = []
    for c in r.cases():
        if c["steps"] != 1:
            continue
        s = small[c["seed"] - 1]["files"]
        a = {"op": {"k": "seed", "f": 0, "i": 0, "x": ""}, "files": s, "dep": True, "dup": False, "batched": False}
        b = {"op": {"k": "damage", "f": 0, "i": 0, "x": ""}, "files": c["files"], "dep": True, "dup": False, "batched": False}
        hs.append((a, b))
        if len(s) >= 3:
            # the same step with all modules in one package (only there can imports form a cycle)
            hs.append((dict(a, one=True), dict(b, one=True)))
    return hs


def histories(out, tier, seed, allseeds, n):
    sp = write_seeds(allseeds, "ws-seeds-hist")
    per = max(1, n // 4)
    jobs = [dict(module="Workspace", cfg="Workspace_hist.cfg", workers=1, simulate=1, depth=per * 10 + 5, seed=seed * 100 + i, timeout=3000,
                 env={"SEEDS": sp}, name=f"ws-hist-{i}") for i in range(4)]
    rs = vlib.tlc_many(jobs, max_parallel=4)
    hs = []
    for j, r in zip(jobs, rs):
        vlib.require_ok(r, j["name"])
        out.add_tlc(r, "GEN Workspace histories (simulation)")
        hs += list(r.cases())
    if len(hs) < n // 2:
        raise vlib.ToolError(f"too few histories: {len(hs)}")
    return hs


def sweep(cases, name, ranges=False):
    d = vlib.workdir("sweep-" + name)
    path = os.path.join(d, "ws.ndjson")
    with open(path, "w") as f:
        for c in cases:
            f.write(json.dumps(c) + "\n")
    args = ["--threads", str(vlib.NCPU)]
    rp = None
    if ranges:
        rp = os.path.join(d, "ranges.ndjson")
        args += ["--ranges", rp]
    p = vlib.run_bin("sweep", args, stdin_path=path, timeout=7200)
    recs = vlib.json_lines(p.stdout)
    summary = [r for r in recs if r["kind"] == "summary"]
    mism = [r for r in recs if r["kind"] == "mismatch"]
    if p.returncode == 3:
        return mism, None, rp     # watchdog: a query hung; the mismatch line names the workspace
    if p.returncode != 0 or not summary:
        # the process died (stack overflow / abort): find the workspace by bisection in child runs
        bad = bisect_crash(cases)
        mism.append({"kind": "mismatch", "prop": "C10", "features": {"what": "aborted", "signal": p.returncode},
                     "detail": {"case": bad}})
        return mism, None, rp
    return mism, summary[0], rp


def bisect_crash(cases):
    lo = list(cases)
    while len(lo) > 1:
        half = lo[:len(lo) // 2]
        p = vlib.run_bin("sweep", ["--threads", "4"], stdin_data="\n".join(json.dumps(c) for c in half) + "\n", timeout=3600)
        lo = half if p.returncode not in (0,) else lo[len(lo) // 2:]
    return lo[0] if lo else None
