"""C06 - find-references and go-to-definition are inverse views.
Spec: Refs.tla - a monitor over the occurrence table recorded from the real analysis for one workspace:
(i) o in refs[d] <=> goto[o] = d for occurrences spelled with d's own name, (ii) d in refs[d], (iii) no duplicates,
(iv) the same set from every listed occurrence, (v) highlight = refs restricted to the current file.
MON: TLC evaluates the monitor on every recorded table (generated programs, the corpus, broken variants).
GEN: for GleamGen programs refs[d] is additionally compared with the specification's own {o : target(o) = d}.
A tenth of the generated workspaces has two files that map to the same module name (src/ and test/ directory of a package).
Workspaces have two local packages (the first file in `app`, the others - the library modules m2 and sub/m2 - in `lib`,
which `app` depends on), one in four a single package; the occurrence table covers every file, so references asked from
a library declaration must list the uses in the dependent package and vice versa."""
import glob, json, os, random, re
import vlib
from checks import scope_common

# the fixed library modules of the generated programs (m2 and sub/m2, in the package `lib` the program's package depends on)
LIB = scope_common.lib_texts()["m2"]
SUB = scope_common.lib_texts()["sub/m2"]


def text_of(case):
    return " ".join(t["t"] for t in case["out"] if t["r"] not in ("open", "close") and t["t"]) + "\n"


def broken(text, rnd):
    toks = text.split(" ")
    for _ in range(rnd.choice([1, 1, 2])):
        i = rnd.randrange(len(toks))
        op = rnd.choice(["del", "ins", "dup"])
        if op == "del":
            del toks[i]
        elif op == "ins":
            toks.insert(i, rnd.choice(["a", "b", "(", ")", "{", "}", ",", "let", "=", "fn", "case", "->", "1", ".."]))
        else:
            toks.insert(i, toks[i])
        if not toks:
            toks = ["fn"]
    return " ".join(toks)


def workspaces(out, tier, seed):
    main, _ = scope_common.programs(out, tier, seed)
    rnd = random.Random(seed)
    n_gen, n_broken = (250, 250) if tier == "quick" else (3000, 3000)
    sample = main.sample(rnd, n_gen)
    # productions a uniform sample rarely hits: a field of a record declared in a module m1 does not import (`acc.mk().f`),
    # the library's record constructor R (used inside the library too)
    sample += main.sample_matching(rnd, n_gen // 8, '"t":"f","tg":2011') + main.sample_matching(rnd, n_gen // 16, '"r":"qref","t":"R"')
    ws = [{"files": [["m1", text_of(c)], ["m2", LIB], ["sub/m2", SUB]], "label": "generated"} for c in sample]
    for c in main.sample(rnd, n_broken):
        r = rnd.random()
        ws.append({"files": [["m1", broken(text_of(c), rnd)], ["m2", broken(LIB, rnd) if r < 0.2 else LIB], ["sub/m2", broken(SUB, rnd) if r > 0.8 else SUB]],
                   "label": "broken"})
    # modules that belong to no package of the package graph (a free-standing file; a project whose graph is not assembled yet):
    # imports do not resolve there, everything inside the file does - and the three views must still be each other's inverse
    for c in main.sample(rnd, 40 if tier == "quick" else 400):
        ws.append({"files": [["m1", text_of(c)]], "label": "no-package", "shape": "no-package"})
    # two files of one package that map to the same module name (src/m1.gleam and test/m1.gleam; also of the library module m2):
    # Gleam rejects the duplicate, the editor workspace can be in that state - every file is still queried and its answers
    # must still be each other's inverse
    n_twin = 60 if tier == "quick" else 600
    tw = main.sample(rnd, 2 * n_twin)
    for k in range(len(tw) // 2):
        c1, c2 = tw[2 * k], tw[2 * k + 1]
        files = [["m1", text_of(c1)], ["m2", LIB], ["sub/m2", SUB], ["@twin/m1", text_of(c1 if k % 2 == 0 else c2)]]
        if k % 3 == 0:
            files.append(["@twin/m2", LIB])
        ws.append({"files": files, "label": "twin"})
    # corpus: small files whole; the big stdlib file cut into item-aligned chunks (whole for thorough)
    for f in sorted(glob.glob(os.path.join(vlib.VERIF, "corpus", "**", "*.gleam"), recursive=True)):
        t = open(f, encoding="utf-8").read()
        if len(t) < 4000:
            ws.append({"files": [["m1", t], ["m2", LIB]], "label": "corpus:" + os.path.basename(f)})
        else:
            parts = re.split(r"\n(?=pub fn |fn |pub type |type )", t)
            chunk, k = "", 0
            for p in parts:
                chunk += "\n" + p
                if len(chunk) > 3500:
                    ws.append({"files": [["m1", chunk], ["m2", LIB]], "label": f"corpus:{os.path.basename(f)}#{k}"})
                    chunk, k = "", k + 1
                    if tier == "quick" and k >= 6:
                        break
            if tier != "quick":
                ws.append({"files": [["m1", t], ["m2", LIB]], "label": "corpus:" + os.path.basename(f)})
    return ws


def monitor(out, ws, name, chunk=120):
    d = vlib.workdir("c06-" + name)
    wpath = os.path.join(d, "ws.ndjson")
    with open(wpath, "w") as f:
        for w in ws:
            f.write(json.dumps(w) + "\n")
    tpath = os.path.join(d, "tables.ndjson")
    p = vlib.run_bin("refstable", ["--out", tpath], stdin_path=wpath, timeout=7200)
    if p.returncode != 0:
        raise vlib.ToolError("refstable crashed: " + p.stderr.decode()[-2000:])
    recs = vlib.json_lines(p.stdout)
    summary = [r for r in recs if r["kind"] == "summary"][0]
    tables = [l for l in open(tpath).read().split("\n") if l]
    nfail = 0
    for c0 in range(0, len(tables), chunk):
        part = tables[c0:c0 + chunk]
        pth = os.path.join(d, f"t-{c0}.ndjson")
        open(pth, "w").write("\n".join(part) + "\n")
        r = vlib.tlc("Refs", "Refs.cfg", workers=1, timeout=1800, env={"TRACE": pth}, name=f"refs-{name}-{c0}")
        out.add_tlc(r, f"MON Refs tables {c0}..{c0+len(part)}")
        if "INCOMPLETE" in r.out or r.rc != 0:
            raise vlib.ToolError("Refs monitor did not process every table: " + r.out[-1500:])
        for w in r.cases("FAILED"):
            t = json.loads(part[w["table"] - 1])
            occ = t["occ"]
            for conj, items in w["w"].items():
                for it in items:
                    i = it[0] if isinstance(it, list) else it
                    a = occ[i - 1]
                    b = occ[it[1] - 1] if isinstance(it, list) else None
                    nfail += 1
                    out.report({"what": "monitor", "conjunct": conj, "binder_kind": a.get("gkind"), "label": str(t.get("label")).split(":")[0]},
                               {"workspace": dict(ws[t["ws"]], shape=t.get("shape")), "a": a, "b": b})
    out.cov["traces_validated_against_impl"] += len(tables)
    out.cov["evaluations"] += summary["queries"]
    return summary


def run(out, tier, seed):
    # GEN part: refs[d] = the specification's own reference set
    scope_common.run_gen_check(out, tier, seed, "C06", [])
    ws = workspaces(out, tier, seed)
    s = monitor(out, ws, "main")
    out.cov["distinct_nontrivial"] = s["workspaces"]
    out.cov["samples"] = [ws[0], ws[len(ws) // 2]]
    out.cov["exhaustive"] = False
    out.cov["rule"] = ("occurrence tables (goto / references / highlight at every identifier token) recorded for generated programs, "
                       "token-damaged variants and the corpus; TLC evaluates the five monitor invariants of Refs.tla on each; for generated "
                       "programs references of every declaration are also compared with the specification's binding; "
                       "distinct_nontrivial = workspaces monitored")
    out.assumptions += ["occurrences = IDENT/U_IDENT tokens of the lexer"]


def replay(out, path):
    d = json.load(open(path))
    if "workspace" in d["detail"]:
        monitor(out, [d["detail"]["workspace"]], "replay")
    else:
        scope_common.replay_case(out, path, "C06")
