"""C01 - the syntax tree is lossless for every input text (see parser_common)."""
import json
from checks import parser_common
import vlib


def run(out, tier, seed):
    parser_common.run_parse(out, tier, seed, "C01")
    out.cov["exhaustive"] = True
    out.cov["rule"] = ("TLC enumerates all token-kind sequences (<=2 over all 70 lexer kinds, <=3 over the representative classes; "
                       "thorough: <=3 over all kinds) and all character strings (<=3/<=4 over a 30-character alphabet); the harness places "
                       "each in 21 syntactic contexts with a canonical and a seeded random spelling, plus every prefix of the corpus "
                       "files, CRLF variants and keyword soup; for each text the real tree's leaves must concatenate to the input with "
                       "contiguous non-empty ranges; a sample of the recorded builder traces is validated against TreeBuilder by TLC. "
                       "distinct_nontrivial counts distinct enumerated cases (each expands to 42 parses)")
    out.assumptions += ["TLC/SANY, Json/IOUtils modules", "rendering of token kinds to spellings in harness/src/lexis.rs"]


def replay(out, path):
    d = json.load(open(path))["detail"]
    p = vlib.run_bin("parsecheck", [], stdin_data=json.dumps(d["case"]) + "\n")
    for r in vlib.json_lines(p.stdout):
        if r["kind"] == "mismatch" and r["features"]["what"] in ("roundtrip", "panicked"):
            out.report(r["features"], r["detail"])
