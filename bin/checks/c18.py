"""C18 - completions list what is in scope.
Spec: GleamGen.tla records at every reference the set of value names visible there (scope stack + module scope
+ unqualified imports).  GEN: completions with the cursor at the end of each reference being typed are compared
with that set (labels of function/constant/variant/local items; built-in constructors ignored), no duplicate
labels, and the replace range must be exactly the identifier being typed.  The module accessors offered must be
exactly VisibleModules (the last path segment of every import, the alias ONLY for `import .. as q`; up to two imports of
m2 and sub/m2), and after `acc.` exactly the public functions and constructors of the module that accessor stands for
(sub/m2 exports one function more than m2).  Workspace: two local packages (app -> lib), one in four a single package."""
from checks import scope_common


def run(out, tier, seed):
    scope_common.run_gen_check(out, tier, seed, "C18", [])
    out.cov["exhaustive"] = True
    out.cov["rule"] = ("same programs as C05 (BFS b1 + b1h over all import headers, simulation); at every reference token (identifier being typed, cursor at its end) the offered value "
                       "names must equal the specification's visible set at that point; distinct_nontrivial = programs with shadowing")
    out.assumptions += ["module.-completions and field completions after `value.` are checked by the dot-completion cases (see DESIGN)"]


def replay(out, path):
    scope_common.replay_case(out, path, "C18")
