"""C18 - completions list what is in scope.
Spec: GleamGen.tla records at every reference the set of value names visible there (scope stack + module scope
+ unqualified imports).  GEN: completions with the cursor at the end of each reference being typed are compared
with that set (labels of function/constant/variant/local items; built-in constructors ignored), no duplicate
labels, and the replace range must be exactly the identifier being typed.  The module accessors offered must be
exactly VisibleModules (the last path segment of every import, the alias ONLY for `import .. as q`; up to two imports of
m2 and sub/m2), and after `acc.` exactly the public functions and constructors of the module that accessor stands for
(sub/m2 exports one function more than m2).  Fields.tla: for every family of variants (labels x / y, types Int / Float,
positional fields, up to three variants) the completion after `value.` offers exactly the fields every variant has with
one type.  Workspace: two local packages (app -> lib), one in four a single package."""
import json, os
import vlib
from checks import scope_common


def run_fields(out):
    """Fields.tla: every family of variants within the bounds with the labels a value of the type has; replayed into
    the completion after `value.`"""
    r = vlib.tlc("Fields", "Fields.cfg", workers=1, timeout=900)
    vlib.require_ok(r, "Fields")
    out.add_tlc(r, "GEN Fields.tla (every family of variants, common fields)")
    d = vlib.workdir("c18-fields")
    path = os.path.join(d, "families.ndjson")
    n = 0
    with open(path, "w") as f:
        for body in r.raw_cases():
            f.write(body + "\n")
            n += 1
    if n < 1000:
        raise vlib.ToolError("Fields.tla printed too few families")
    p = vlib.run_bin("fieldcheck", [], stdin_path=path, timeout=3600)
    if p.returncode != 0:
        raise vlib.ToolError("fieldcheck crashed: " + p.stderr.decode()[-2000:])
    recs = vlib.json_lines(p.stdout)
    for rec in recs:
        if rec["kind"] == "mismatch":
            out.report(rec["features"], rec["detail"])
    s = [x for x in recs if x["kind"] == "summary"][0]
    out.cov["traces_validated_against_impl"] += s["families"]
    out.cov["evaluations"] += s["families"]


def run(out, tier, seed):
    scope_common.run_gen_check(out, tier, seed, "C18", [])
    run_fields(out)
    out.cov["exhaustive"] = True
    out.cov["rule"] = ("same programs as C05 (BFS b1 + b1h over all import headers, simulation); at every reference token (identifier being typed, cursor at its end) the offered value "
                       "names must equal the specification's visible set at that point; distinct_nontrivial = programs with shadowing")
    out.assumptions += ["module.-completions and field completions after `value.` are checked by the dot-completion cases (see DESIGN)"]


def replay(out, path):
    d = json.load(open(path))
    if "vs" in d["detail"].get("case", {}):
        p = vlib.run_bin("fieldcheck", [], stdin_data=json.dumps(d["detail"]["case"]) + "\n")
        for rec in vlib.json_lines(p.stdout):
            if rec["kind"] == "mismatch":
                out.report(rec["features"], rec["detail"])
        return
    scope_common.replay_case(out, path, "C18")
