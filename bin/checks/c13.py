"""C13 - the server's copy of a document tracks the editor's.
Spec: DocSync.tla (InSync = server text equals client text with CR removed, for all valid edits).
MC: invariant on all documents <= n x all valid ranges x all replacements (exhaustive for single edits and for
two changes per notification on a smaller bound).  GEN: every TLC transition replayed through glas' Vfs
(hook level, mirroring on_did_change) and TLC-simulated histories replayed (a) at hook level and (b) black-box
against the real server binary, reading the text back via glas/syntaxTree after every notification."""
import json, os, shutil
import vlib, lsp

TABLES = [["a", "ß", "ℝ", "💣"], ["Z", "é", "中", "𝒳"], [" ", "\u0080", "ࠀ", "\U00010000"], ["\t", "߿", "￿", "\U0010ffff"], ["1", "\u00a0", "\ufeff", "\U0001f600"]]


def render(units, tab):
    m = {"a": tab[0], "nl": "\n", "crlf": "\r\n", "c2": tab[1], "c3": tab[2], "c4": tab[3]}
    return "".join(m[u] for u in units)


def hook_replay(out, cases, seed):
    d = vlib.workdir("c13")
    path = os.path.join(d, "cases.ndjson")
    with open(path, "w") as f:
        for c in cases:
            f.write(json.dumps(c) + "\n")
    p = vlib.run_bin("docsync", stdin_path=path, env={"VERIF_SEED": str(seed)})
    if p.returncode != 0:
        raise vlib.ToolError("docsync replay crashed: " + p.stderr.decode()[-2000:])
    summary = None
    for r in vlib.json_lines(p.stdout):
        if r["kind"] == "mismatch":
            out.report(r["features"], r["detail"])
        elif r["kind"] == "summary":
            summary = r
    if summary is None:
        raise vlib.ToolError("docsync replay printed no summary")
    out.cov["traces_validated_against_impl"] += summary["cases"]
    out.cov["evaluations"] += summary["checks"]
    out.cov["distinct_nontrivial"] += summary["distinct_nontrivial"]
    out.cov["samples"] += summary["samples"]


def server_text(sess, path):
    r = sess.syntax_tree(path)
    if r is None:
        return None, "no response"
    if "error" in r:
        return None, r["error"].get("message", "error")[:200]
    return "".join(t for (_, _, t) in lsp.tree_text(r["result"])), None


# what a client may announce in general.positionEncodings (None: nothing, as most clients do); the histories played in a
# session are those written for the encoding that session agreed on (DocSync.Enc)
OFFERS = [None, ["utf-8", "utf-16"], None, ["utf-32", "utf-16"], ["utf-16"]]


def blackbox(out, hists, seed, per_session=5, by_enc=None, offers=None):
    """Each history is played on its own package (so that the first didOpen of a package is exercised every time);
    the file exists on disk with content `disk` which equals the opened text for even histories and differs for odd."""
    base = vlib.workdir("c13-bb")
    n_ok = 0
    for s0 in range(0, len(hists), per_session):
        group = hists[s0:s0 + per_session]
        root = os.path.join(base, f"s{s0}")
        os.makedirs(root)
        sess = lsp.Session(root, stderr_path=os.path.join(root, "stderr.log"))
        offer = (offers or OFFERS)[(s0 // per_session) % len(offers or OFFERS)]
        try:
            if sess.initialize(encodings=offer) is None:
                raise vlib.ToolError("server did not answer initialize")
            if sess.enc_announced is not None and sess.enc_announced not in (offer or ["utf-16"]):
                out.report({"level": "server", "what": "server announced a position encoding the client did not offer"},
                           {"offered": offer, "announced": sess.enc_announced, "blackbox": True, "case": {"hist": [], "table": 0}})
                continue
            if sess.enc != "utf-16":
                # the histories written for the negotiated encoding
                alt = (by_enc or {}).get(sess.enc)
                if alt is None:
                    raise vlib.ToolError("no DocSync histories for the negotiated encoding " + sess.enc)
                group = alt[s0:s0 + per_session]
            for k, h in enumerate(group):
                hi = s0 + k
                tab = TABLES[(seed + hi) % len(TABLES)]
                pkg = os.path.join(root, f"p{k}")
                os.makedirs(os.path.join(pkg, "src"))
                open(os.path.join(pkg, "gleam.toml"), "w").write(f'name = "p{k}"\nversion = "0.1.0"\n')
                path = os.path.join(pkg, "src", "doc.gleam")
                opened = render(h["hist"][0]["open"], tab)
                disk_differs = hi % 2 == 1
                disk = ("// on disk\n" + opened + "x") if disk_differs else opened
                open(path, "w", newline="").write(disk)
                sess.did_open(path, opened)
                steps = [("open", render(h["hist"][0]["server"], tab))]
                feats = {"level": "server", "disk_differs_from_opened_text": disk_differs}
                bad = None
                got, err = server_text(sess, path)
                if got != steps[0][1]:
                    bad = {"step": "didOpen", "expected": steps[0][1], "got": got, "error": err}
                    feats["what"] = "didOpen text"
                ver = 2
                for ni, note in enumerate(h["hist"][1:]):
                    if bad:
                        break
                    changes = []
                    for ch in note["changes"]:
                        t = render(ch["t"], tab)
                        if ch["full"]:
                            changes.append({"text": t})
                        else:
                            changes.append({"range": {"start": {"line": ch["s"]["l"], "character": ch["s"]["c"]},
                                                      "end": {"line": ch["e"]["l"], "character": ch["e"]["c"]}}, "text": t})
                            # the deprecated rangeLength, as clients that still send it compute it (every other session)
                            if (s0 // per_session) % 2 == 1:
                                changes[-1]["rangeLength"] = ch["len"]
                    if note.get("other"):
                        # something happens to ANOTHER document of the package; this one must stay as it is - in particular it
                        # must not be re-read from disk (where it differs from the editor's text in every second history)
                        toml = os.path.join(pkg, "gleam.toml")
                        sib = os.path.join(pkg, "src", "sibling.gleam")
                        if note["other"] == "save_self":
                            # the save wrote an older state (or went elsewhere): what is on disk is not the editor's text
                            sess.notify("textDocument/didSave", {"textDocument": {"uri": lsp.uri(path)}})
                        elif note["other"] == "open_toml":
                            sess.did_open(toml, open(toml).read())
                        elif note["other"] == "watched_toml":
                            open(toml, "a").write("\n# touched\n")
                            sess.notify("workspace/didChangeWatchedFiles", {"changes": [{"uri": lsp.uri(toml), "type": 2}]})
                        else:
                            if not os.path.exists(sib):
                                open(sib, "w").write("pub fn s() { 1 }\n")
                            sess.did_open(sib, open(sib).read())
                    else:
                        sess.did_change(path, changes, ver)
                        ver += 1
                    exp = render(note["posts"][-1], tab)
                    got, err = server_text(sess, path)
                    if got != exp:
                        bad = {"step": f"didChange #{ni+1}", "expected": exp, "got": got, "error": err, "changes": changes}
                        feats["what"] = "didChange text"
                    if not sess.alive():
                        bad = {"step": f"didChange #{ni+1}", "server_exit": sess.exit_code()}
                        feats["what"] = "server died"
                        break
                out.cov["traces_validated_against_impl"] += 1
                out.cov["evaluations"] += len(h["hist"])
                if bad:
                    feats["encoding"] = sess.enc
                    out.report(feats, {"case": {"hist": h["hist"], "table": (seed + hi) % len(TABLES),
                                                "disk_differs": disk_differs, "enc": sess.enc, "offer": offer}, "bad": bad, "blackbox": True})
                else:
                    n_ok += 1
                if not sess.alive():
                    break
        finally:
            sess.close()
        shutil.rmtree(root, ignore_errors=True)
    return n_ok


def run(out, tier, seed):
    cfgs = ["DocSync_q1.cfg", "DocSync_q2.cfg"] if tier == "quick" else ["DocSync_t1.cfg", "DocSync_t2.cfg"]
    for cfg in cfgs:
        r = vlib.tlc("DocSync", cfg, workers=8, timeout=3000, coverage=(cfg == cfgs[0]), heap="8g")
        vlib.require_ok(r, "DocSync " + cfg)
        out.add_tlc(r, "MC InSync + GEN transitions " + cfg)
        cases = list(r.cases())
        if len(cases) < 1000:
            raise vlib.ToolError("too few DocSync transitions emitted")
        hook_replay(out, cases, seed)
    nsim, nbb = (15, 20) if tier == "quick" else (500, 300)
    r = vlib.tlc("DocSync", "DocSync_sim.cfg", workers=4, simulate=nsim, depth=111, seed=seed, timeout=1800)
    vlib.require_ok(r, "DocSync simulation")
    out.add_tlc(r, "GEN simulated histories (10 notifications each)")
    hists = list(r.cases())
    if len(hists) < nbb:
        raise vlib.ToolError("simulation produced too few histories")
    hook_replay(out, hists, seed)
    # histories for the other encodings a session may agree on (played only if the server announces that encoding)
    by_enc = {}
    for enc in ("utf-8", "utf-32"):
        r2 = vlib.tlc("DocSync", "DocSync_sim.cfg", workers=4, simulate=nsim, depth=111, seed=seed, timeout=1800, env={"DOCSYNC_ENC": enc}, name="docsync-sim-" + enc)
        vlib.require_ok(r2, "DocSync simulation " + enc)
        out.add_tlc(r2, "GEN simulated histories, columns in " + enc)
        by_enc[enc] = list(r2.cases())[:nbb]
        if len(by_enc[enc]) < nbb:
            raise vlib.ToolError("simulation produced too few histories")
    blackbox(out, hists[:nbb], seed, by_enc=by_enc)
    out.cov["exhaustive"] = True
    out.cov["rule"] = ("TLC enumerates every (document, valid range, replacement) transition of DocSync within the bounds of %s "
                       "(one case per transition) and checks InSync on the model; each case is applied to glas' Vfs through the "
                       "hook and the stored text compared after every content change; simulated 10-notification histories are "
                       "replayed at hook level and %d of them black-box against the server binary (text read back through "
                       "glas/syntaxTree after every notification; disk content differs from the opened text in every second one). "
                       "non-trivial = case contains a line break or multi-byte unit" % (cfgs, nbb))
    out.assumptions += ["black-box read-back relies on the syntax tree being lossless (C01)", "TLC/SANY, Json module"]


def replay(out, path):
    d = json.load(open(path))["detail"]
    if d.get("blackbox"):
        hs = [{"hist": d["case"]["hist"]}] * (2 if d["case"].get("disk_differs") else 1)
        enc = d["case"].get("enc", "utf-16")
        blackbox(out, hs, d["case"]["table"] - (1 if d["case"].get("disk_differs") else 0), per_session=2,
                 by_enc={enc: hs}, offers=[d["case"].get("offer")])
    else:
        hook_replay(out, [d["case"]], 1)
