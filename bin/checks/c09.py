"""C09 - inferred types agree with Gleam's typing on well-typed programs.
Spec: Typing.tla - a type-directed generator: every expression is derived against a chosen goal type (Gleam's typing
rules read goal-first), so the type of every let-bound variable, pattern variable, parameter and function is known by
construction.  Signatures of the generated functions are chosen up front (up to four parameters: annotated with a type
or a type variable, unannotated and unconstrained = generic in its own variable, unannotated and pinned by one use as the
operand of an operator; trailing parameters labelled; results over the parameters' variables), so calls refer forwards,
backwards and recursively, and every call to an earlier, generalised function instantiates its variables afresh.
Every binary and prefix operator of Gleam is an expression rule at its result type and a pin (operand left and right).
GEN: programs from
  * Typing_b  - exhaustive, "every rule once": one function per result type x every typing rule once (budget 1), every
    pattern rule, every operator as a pin on either side, every rule once inside a generic function;
  * Typing_bs - exhaustive, "every signature once": every parameter list up to length 4 over a kind alphabet, every
    result that is a variable / a pair of variables / a list, with a caller that instantiates the function at two
    different assignments; labelled parameter lists called with the labels in every order;
  * Typing_sim - simulation: modules of three functions, budget 6 each;
  * Typing_un_<p> - a production (group) re-enabled that triggers a recorded finding (run: unmasked:<p>): lambda_annot,
    call_gen_rec, late_use (access on the parameter of a lambda argument) by simulation; call_rec_labels (recursive
    calls to functions with labelled parameters) exhaustively over the labelled parameter lists; shade_c (field of a
    library record whose type is a library type) exhaustively
are rendered with the functions in a seeded order and the prelude before or after them, in a module that imports the library module pal; hover on every binder, every
generated function and every function of the prelude is compared with the specification's type (whitespace-normalised,
type variables renamed by first occurrence, so fn(a, b) and fn(a, a) stay different)."""
import json, os
import vlib

# production group -> (cfg, exhaustive?)
UNMASK = {"lambda_annot": ("Typing_un_lambda_annot.cfg", False), "call_gen_rec": ("Typing_un_call_gen_rec.cfg", False),
          "call_rec_labels": ("Typing_un_call_rec_labels.cfg", True), "late_use": ("Typing_un_late_use.cfg", False),}


def write_cases(path, results):
    """stream the CASE lines of TLC runs into an ndjson file (never all in memory); returns the number of programs"""
    n = 0
    with open(path, "w") as f:
        for r in results:
            for body in r.raw_cases():
                f.write(body + "\n")
                n += 1
    return n


def prelude_of(r, d):
    """PreludeSigs as printed by the specification's ASSUME -> file for typecheck --prelude"""
    for body in r.raw_cases("PRELUDE"):
        path = os.path.join(d, "prelude.json")
        open(path, "w").write(body)
        return path
    return None


def run_file(out, path, seed, label, prop="C09", prelude=None):
    args = ["--threads", str(vlib.NCPU)] + (["--prelude", prelude] if prelude else [])
    p = vlib.run_bin("typecheck", args, stdin_path=path, env={"VERIF_SEED": str(seed)}, timeout=7200)
    if p.returncode != 0:
        raise vlib.ToolError("typecheck crashed: " + p.stderr.decode()[-2000:])
    recs = vlib.json_lines(p.stdout)
    for r in recs:
        if r["kind"] == "mismatch" and r.get("prop", "C09") == prop:
            f = dict(r["features"])
            f["run"] = label
            out.report(f, r["detail"])
    return [r for r in recs if r["kind"] == "summary"][0]


def run_ty(out, cases, seed, name, label, prop="C09", prelude=None):
    """cases: decoded programs (dicts) or their JSON texts"""
    d = vlib.workdir("c09-" + name)
    path = os.path.join(d, "programs.ndjson")
    with open(path, "w") as f:
        for c in cases:
            f.write((c if isinstance(c, str) else json.dumps(c)) + "\n")
    return run_file(out, path, seed, label, prop, prelude)


def generate(tier, seed, prefix, unmasked=True):
    """all TLC runs of the tier, concurrently; returns (main results, {group: result})"""
    nsim, per, per_un = (4, 60, 50) if tier == "quick" else (12, 2500, 1000)     # behaviours of Rounds = 6 programs each
    jobs = [dict(module="Typing", cfg="Typing_b.cfg", workers=6, timeout=3000, heap="8g", coverage=True, name=prefix + "-b"),
            dict(module="Typing", cfg="Typing_bs.cfg", workers=2, timeout=3000, heap="4g", name=prefix + "-bs")]
    jobs += [dict(module="Typing", cfg="Typing_sim.cfg", workers=1, simulate=per, depth=4000, seed=seed * 1000 + i, timeout=3000, name=f"{prefix}-sim-{i}")
             for i in range(nsim)]
    groups = []
    if unmasked:
        for i, (g, (cfg, exhaustive)) in enumerate(UNMASK.items()):
            groups.append(g)
            if exhaustive:
                jobs.append(dict(module="Typing", cfg=cfg, workers=2, timeout=3000, name=f"{prefix}-un-{g}"))
            else:
                jobs.append(dict(module="Typing", cfg=cfg, workers=1, simulate=per_un, depth=4000, seed=seed * 1000 + 900 + i, timeout=3000, name=f"{prefix}-un-{g}"))
    res = vlib.tlc_many(jobs, max_parallel=12)
    for j, r in zip(jobs, res):
        vlib.require_ok(r, j["name"])
    nmain = 2 + nsim
    return jobs, res[:nmain], dict(zip(groups, res[nmain:]))


def run(out, tier, seed):
    jobs, main, extra = generate(tier, seed, "ty")
    for j, r in zip(jobs, main + list(extra.values())):
        out.add_tlc(r, ("MC Closed/BindersTyped/BindersScoped/SigsWellFormed + GEN " if "simulate" not in j else "GEN simulation ") + j["cfg"])
    d = vlib.workdir("c09-main")
    prelude = prelude_of(main[0], d)
    if prelude is None:
        raise vlib.ToolError("the specification did not print PreludeSigs")
    path = os.path.join(d, "programs.ndjson")
    write_cases(path, main)
    s = run_file(out, path, seed, "main", prelude=prelude)
    for g, r in extra.items():
        p2 = os.path.join(d, f"un-{g}.ndjson")
        if write_cases(p2, [r]) == 0:
            raise vlib.ToolError("no programs for unmasked production " + g)
        s2 = run_file(out, p2, seed, "unmasked:" + g, prelude=prelude)
        out.cov["evaluations"] += s2["hovers"]
    out.cov["traces_validated_against_impl"] += s["programs"]
    out.cov["evaluations"] += s["hovers"]
    out.cov["distinct_nontrivial"] += s["multi_function_programs"]
    out.cov["samples"] += s["samples"]
    out.cov["exhaustive"] = False
    out.cov["rule"] = ("exhaustive 'rules': one function per result type of a representative set x every typing rule once (budget 1) - literals, "
                       "every binary and prefix operator, tuples/indexing, lists/spreads, Result via generic helpers, generic Box, field access, "
                       "labelled constructor arguments in any order, lambdas (parameter pinned by every operator on either side), captures, "
                       "the library module pal used qualified (constructors, labelled constructor, functions, a generic function, patterns), the generic "
                       "record Fx with a function-typed field (constructed, matched, field called), "
                       "function-typed locals (annotated parameters, let-bound lambdas: called, piped into, passed to apply / map, called under a "
                       "prefix operator in a discarded statement), "
                       "pipelines, case over every pattern rule, let over every value type; every operator as the pin of an unannotated "
                       "parameter on either side; every rule once inside a generic function (rigid variables). "
                       "Exhaustive 'sigs': every parameter list up to length 4 over {Int, List(Int), a, b annotated; "
                       "unconstrained; pinned} x results {variable, pair of two variables, list}, each with a caller instantiating it at two "
                       "assignments that give distinct variables distinct types; parameter lists over {Int, String, a} with the last 1..n "
                       "labelled, called positionally and with the labels in every order; parameter lists up to length 3 with function-type "
                       "annotations that share variables with other parameters and the result. "
                       "Simulation: modules of three functions (up to four parameters of every kind, labelled suffixes, generic results over "
                       "the parameters' variables, annotated or inferred), budget 6 per function, calls to earlier functions instantiated per call "
                       "site (call_gen_back, call_gen_labels, let_call), definition order seeded; hover on every binder, generated function and "
                       "prelude function. distinct_nontrivial = programs with more than one generated function")
    out.assumptions += ["Typing.tla is a transcription of Gleam's typing rules for the supported core (no Gleam compiler to cross-check)",
                        "hover markup's first code block is the displayed type",
                        "type variables are compared after renaming by first occurrence within one displayed type"]


def replay(out, path):
    d = json.load(open(path))
    prelude = None
    if d["detail"].get("prelude"):
        prelude = os.path.join(vlib.workdir("c09-replay-prelude"), "prelude.json")
        json.dump(d["detail"]["prelude"], open(prelude, "w"))
    run_ty(out, [d["detail"]["case"]], 1, "replay", d["features"].get("run", "main"), prelude=prelude)
