"""C09 - inferred types agree with Gleam's typing on well-typed programs.
Spec: Typing.tla - a type-directed generator: every expression is derived against a chosen monomorphic goal type
(Gleam's typing rules read goal-first), so the type of every let-bound variable, pattern variable, parameter and
function is known by construction; signatures of the generated functions are chosen up front so calls refer forwards,
backwards and recursively; unannotated results and (pinned) unannotated parameters must be inferred.
GEN: programs (BFS over all goal types with a small budget + simulation of three-function modules) are rendered with
the functions in a seeded order and the prelude before or after them; hover on every binder and function name is
compared with the specification's type (whitespace-normalised, type variables renamed by first occurrence)."""
import json, os
import vlib

UNMASK = ["lambda_annot", "call_gen_rec"]


def run_ty(out, cases, seed, name, label, prop="C09"):
    d = vlib.workdir("c09-" + name)
    path = os.path.join(d, "programs.ndjson")
    with open(path, "w") as f:
        for c in cases:
            f.write(json.dumps(c) + "\n")
    p = vlib.run_bin("typecheck", ["--threads", str(vlib.NCPU)], stdin_path=path, env={"VERIF_SEED": str(seed)}, timeout=7200)
    if p.returncode != 0:
        raise vlib.ToolError("typecheck crashed: " + p.stderr.decode()[-2000:])
    recs = vlib.json_lines(p.stdout)
    for r in recs:
        if r["kind"] == "mismatch" and r.get("prop", "C09") == prop:
            f = dict(r["features"])
            f["run"] = label
            out.report(f, r["detail"])
    return [r for r in recs if r["kind"] == "summary"][0]


def run(out, tier, seed):
    r = vlib.tlc("Typing", "Typing_b.cfg", workers=8, timeout=3000, heap="8g", coverage=True)
    vlib.require_ok(r, "Typing BFS")
    out.add_tlc(r, "MC Closed/BindersTyped + GEN (BFS, one function, every goal type)")
    cases = list(r.cases())
    nsim, per = (4, 120) if tier == "quick" else (12, 4000)
    jobs = [dict(module="Typing", cfg="Typing_sim.cfg", workers=1, simulate=per, depth=4000, seed=seed * 1000 + i, timeout=3000, name=f"ty-sim-{i}")
            for i in range(nsim)]
    jobs += [dict(module="Typing", cfg=f"Typing_un_{p}.cfg", workers=1, simulate=(60 if tier == "quick" else 1500), depth=4000,
                  seed=seed * 1000 + 900 + i, timeout=3000, name=f"ty-un-{p}") for i, p in enumerate(UNMASK)]
    extra = {}
    for j, r2 in zip(jobs, vlib.tlc_many(jobs, max_parallel=6)):
        vlib.require_ok(r2, j["name"])
        out.add_tlc(r2, "GEN simulation " + j["cfg"])
        if j["cfg"] == "Typing_sim.cfg":
            cases += list(r2.cases())
        else:
            extra[j["cfg"][len("Typing_un_"):-4]] = list(r2.cases())
    s = run_ty(out, cases, seed, "main", "main")
    for p, cs in extra.items():
        if not cs:
            raise vlib.ToolError("no programs for unmasked production " + p)
        s2 = run_ty(out, cs, seed, p, "unmasked:" + p)
        out.cov["evaluations"] += s2["hovers"]
    out.cov["traces_validated_against_impl"] += s["programs"]
    out.cov["evaluations"] += s["hovers"]
    out.cov["distinct_nontrivial"] += s["multi_function_programs"]
    out.cov["samples"] += s["samples"]
    out.cov["exhaustive"] = False
    out.cov["rule"] = ("BFS: one function per goal type of a representative set x every typing rule once (budget 1); simulation: modules of "
                       "three functions with signatures chosen up front (annotated and pinned-unannotated parameters, inferred D0 results), "
                       "budget 8, covering literals, operators, tuples/indexing, lists/spreads, Result via generic helpers, generic Box, "
                       "field access, labelled arguments in any order, lambdas, captures, pipelines, case with nested patterns, as/prefix "
                       "patterns, generic id/apply/map instantiation, calls between functions in seeded definition order; "
                       "distinct_nontrivial = programs with more than one generated function")
    out.assumptions += ["Typing.tla is a transcription of Gleam's typing rules for the supported core (no Gleam compiler to cross-check)",
                        "hover markup's first code block is the displayed type"]


def replay(out, path):
    d = json.load(open(path))
    run_ty(out, [d["detail"]["case"]], 1, "replay", d["features"].get("run", "main"))
