"""C19 - the semantic-token stream decodes to exactly the highlighted identifiers.
Spec: SemTokens.tla (LSP relative encoding + decoder over a Positions document).
MC: Decode(Encode(P)) = P, strictly increasing / non-overlapping / inside lines, on all documents <= n x all
sorted single-line highlight lists <= k.  GEN: every such (document, highlights) with the array a conforming encoder
must produce is replayed into glas' to_semantic_tokens through the hook and compared verbatim."""
import json, os
import vlib


def replay_cases(out, cases, seed):
    d = vlib.workdir("c19")
    path = os.path.join(d, "cases.ndjson")
    with open(path, "w") as f:
        for c in cases:
            f.write(json.dumps(c) + "\n")
    p = vlib.run_bin("semtokens", stdin_path=path, env={"VERIF_SEED": str(seed)})
    if p.returncode != 0:
        raise vlib.ToolError("semtokens replay crashed: " + p.stderr.decode()[-2000:])
    summary = None
    for r in vlib.json_lines(p.stdout):
        if r["kind"] == "mismatch":
            out.report(r["features"], r["detail"])
        elif r["kind"] == "summary":
            summary = r
    if summary is None:
        raise vlib.ToolError("no summary")
    out.cov["traces_validated_against_impl"] += summary["cases"]
    out.cov["evaluations"] += summary["checks"]
    out.cov["distinct_nontrivial"] += summary["distinct_nontrivial"]
    out.cov["samples"] += summary["samples"]


def run(out, tier, seed):
    cfg = "SemTokens_q.cfg" if tier == "quick" else "SemTokens_t.cfg"
    r = vlib.tlc("SemTokens", cfg, workers=8, timeout=3000, coverage=(tier == "quick"), heap="8g")
    vlib.require_ok(r, "SemTokens")
    out.add_tlc(r, "MC RoundTrip/WellFormed + GEN " + cfg)
    cases = list(r.cases())
    if len(cases) < 1000:
        raise vlib.ToolError("too few SemTokens cases")
    replay_cases(out, cases, seed)
    out.cov["exhaustive"] = True
    out.cov["rule"] = ("all documents over {a,nl,c2,c3,c4} within %s x all sorted non-overlapping single-line highlight lists "
                       "x 3 tags; the real encoder's array is compared with the specification's Encode(Project); "
                       "non-trivial = document has a line feed or multi-byte character" % cfg)
    out.assumptions += ["highlight ranges come from the analysis as single-line identifier ranges (checked separately on programs)"]


def replay(out, path):
    replay_cases(out, [json.load(open(path))["detail"]["case"]], 1)
