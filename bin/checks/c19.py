"""C19 - the semantic-token stream decodes to exactly the highlighted identifiers.
Spec: SemTokens.tla (LSP relative encoding + decoder over a Positions document).
MC: Decode(Encode(P)) = P, strictly increasing / non-overlapping / inside lines, on all documents <= n x all
sorted single-line highlight lists <= k.  GEN: every such (document, highlights) with the array a conforming encoder
must produce is replayed into glas' to_semantic_tokens through the hook and compared verbatim."""
import json, os, shutil
import vlib, lsp
from checks import scope_common


def replay_cases(out, cases, seed):
    d = vlib.workdir("c19")
    path = os.path.join(d, "cases.ndjson")
    with open(path, "w") as f:
        for c in cases:
            f.write(json.dumps(c) + "\n")
    p = vlib.run_bin("semtokens", stdin_path=path, env={"VERIF_SEED": str(seed)})
    if p.returncode != 0:
        raise vlib.ToolError("semtokens replay crashed: " + p.stderr.decode()[-2000:])
    summary = None
    for r in vlib.json_lines(p.stdout):
        if r["kind"] == "mismatch":
            out.report(r["features"], r["detail"])
        elif r["kind"] == "summary":
            summary = r
    if summary is None:
        raise vlib.ToolError("no summary")
    out.cov["traces_validated_against_impl"] += summary["cases"]
    out.cov["evaluations"] += summary["checks"]
    out.cov["distinct_nontrivial"] += summary["distinct_nontrivial"]
    out.cov["samples"] += summary["samples"]


LEGEND = {"Module": 0, "Function": 1, "Constructor": 2}
# the token type names of the protocol the three tags stand for, and the list a client announces in the order of the LSP
# specification (textDocument.semanticTokens.tokenTypes)
TAG_TYPE = {"Module": "namespace", "Function": "function", "Constructor": "type"}
STANDARD_TOKEN_TYPES = ["namespace", "type", "class", "enum", "interface", "struct", "typeParameter", "parameter", "variable", "property",
                        "enumMember", "event", "function", "method", "macro", "keyword", "modifier", "comment", "string", "number", "regexp", "operator"]


def legend_of(init_response):
    """token type index -> tag, as the server's announced legend says (a client decodes with nothing else)"""
    try:
        names = init_response["result"]["capabilities"]["semanticTokensProvider"]["legend"]["tokenTypes"]
    except (KeyError, TypeError):
        return None
    inv = {v: k for k, v in TAG_TYPE.items()}
    return {i: LEGEND[inv[n]] for i, n in enumerate(names) if n in inv}


def lsp_projection(text, hl, enc="utf-16"):
    """(line, col, len, type) of each highlight, as a client would number them in the encoding the session agreed on"""
    width = {"utf-16": lambda t: len(t.encode("utf-16-le")) // 2, "utf-8": lambda t: len(t.encode()), "utf-32": len}[enc]
    res = []
    b = text.encode()
    for s, e, tag in hl:
        before = b[:s].decode()
        line = before.count("\n")
        col = width(before.rsplit("\n", 1)[-1])
        ln = width(b[s:e].decode())
        res.append((line, col, ln, LEGEND[tag]))
    return res


def decode(data):
    res, line, start = [], 0, 0
    for i in range(0, len(data), 5):
        dl, ds, ln, ty, _ = data[i:i + 5]
        line += dl
        start = start + ds if dl == 0 else ds
        res.append((line, start, ln, ty))
    return res


def edge_docs(seed):
    """documents whose highlighted identifiers sit where the conversion has the least slack: at the very end of a line (and of
    the file) that holds multi-byte text of every width, directly after such text, and on a line of their own; highlight
    lists from the analysis itself (hldump)"""
    import random
    rnd = random.Random(seed)
    chars = ["ß", "é", "中", "ℝ", "💣", "𝒳", "\u00a0", "a"]
    docs = []
    for k in range(12):
        lines = ["fn f(x) { x }", "pub fn main() {"]
        for _ in range(rnd.randint(2, 5)):
            st = "".join(rnd.choice(chars) for _ in range(rnd.randint(1, 6)))
            lines.append(rnd.choice(['  "%s" |> f', '  f("%s") |> f', '  "%s"|>f', '  // %s\n  f(f)', '  #(f, "%s", f) |> f']) % st)
        lines.append('  "%s" |> f }' % "".join(rnd.choice(chars) for _ in range(3)) if k % 2 else "  f(1)\n}")
        # the last highlighted identifier may be the very end of the file
        docs.append("\n".join(lines) + ("\n" if k % 3 else "") if k % 2 == 0 else "\n".join(lines[:-1]) + "\n  1 }\nfn g() { f }\nconst k = f")
    p = vlib.run_bin("hldump", stdin_data="".join(json.dumps({"text": t}) + "\n" for t in docs))
    if p.returncode != 0:
        raise vlib.ToolError("hldump crashed: " + p.stderr.decode()[-1500:])
    recs = [json.loads(l) for l in p.stdout.decode().split("\n") if l.strip()]
    if len(recs) != len(docs) or not all(r["hl"] for r in recs):
        raise vlib.ToolError("hldump: missing highlight lists")
    return recs


def hl_of(text, lib="default"):
    rec = {"text": text}
    if lib != "default":
        rec["lib"] = lib
    p = vlib.run_bin("hldump", stdin_data=json.dumps(rec) + "\n")
    if p.returncode != 0:
        raise vlib.ToolError("hldump crashed: " + p.stderr.decode()[-1500:])
    return json.loads(p.stdout.decode().strip())["hl"]


def watched_history(out, root, lib):
    """the tokens of an open document depend on modules that are not open: after the editor reports that such a file
    changed / was deleted on disk (workspace/didChangeWatchedFiles), the stream must be the one of the workspace as it is now"""
    main = "import m2\npub fn main() {\n  m2.c()\n  m2.zz(m2.k)\n  m2.A(1)\n}\n"
    libs = [lib, lib.replace("pub fn c()", "pub fn cc()") + "pub fn zz(x) { x }\n", None, lib]
    libpath = os.path.join(root, "src", "m2.gleam")
    path = os.path.join(root, "src", "wmain.gleam")
    sess = lsp.Session(root, stderr_path=os.path.join(root, "stderr-w.log"))
    n = 0
    try:
        if sess.initialize() is None:
            raise vlib.ToolError("server did not answer initialize")
        open(path, "w").write(main)
        sess.did_open(path, main)
        for step, l in enumerate(libs):
            if step > 0:
                if l is None:
                    os.remove(libpath)
                else:
                    open(libpath, "w").write(l)
                sess.notify("workspace/didChangeWatchedFiles", {"changes": [{"uri": lsp.uri(libpath), "type": 3 if l is None else (1 if libs[step - 1] is None else 2)}]})
            # asked twice: the second answer may come from whatever the server kept of the first
            for rep in range(2):
                resp = sess.request("textDocument/semanticTokens/full", {"textDocument": {"uri": lsp.uri(path)}})
                if resp is None or "error" in resp:
                    out.report({"what": "semanticTokens/full failed", "level": "server", "history": "watched files"}, {"step": step, "response": resp})
                    continue
                got = decode((resp["result"] or {}).get("data", []))
                exp = lsp_projection(main, hl_of(main, l))
                n += 1
                if got != exp:
                    out.report({"what": "tokens are not those of the workspace as it is now", "level": "server", "history": "watched files",
                                "step": ["open", "changed", "deleted", "created"][step]}, {"text": main, "lib": l, "expected": exp, "got": got})
    finally:
        sess.close()
        open(libpath, "w").write(lib)
        if os.path.exists(path):
            os.remove(path)
    return n


def end_to_end(out, hl_path, seed, edge=True, watched=True):
    """real programs (GleamGen, seeded layouts with non-ASCII comments) through the real server: the decoded
    semanticTokens/full array must be the LSP projection of the analysis' highlight list; /range a sub-list"""
    recs = [json.loads(l) for l in open(hl_path)] + (edge_docs(seed) if edge else [])
    root = vlib.workdir("c19-e2e")
    open(os.path.join(root, "gleam.toml"), "w").write('name = "p"\nversion = "0.1.0"\n')
    os.makedirs(os.path.join(root, "src"))
    lib = scope_common_lib()
    open(os.path.join(root, "src", "m2.gleam"), "w").write(lib)
    n = 0
    # one session per announcement of general.positionEncodings a client may make; tokens are numbered in the encoding the
    # session agreed on (the server's capabilities.positionEncoding, utf-16 if it announces none)
    offers = [None, ["utf-8", "utf-16"], ["utf-32", "utf-16"], None]
    for oi, offer in enumerate(offers):
      # every other session announces the token types it understands, in the order of the LSP specification
      caps = {"textDocument": {"semanticTokens": {"tokenTypes": STANDARD_TOKEN_TYPES, "tokenModifiers": [], "formats": ["relative"],
                                                   "requests": {"full": True, "range": True}}}} if oi % 2 == 1 else None
      sess = lsp.Session(root, stderr_path=os.path.join(root, "stderr.log"), caps=caps)
      try:
        init = sess.initialize(encodings=offer)
        if init is None:
            raise vlib.ToolError("server did not answer initialize")
        legend = legend_of(init)
        if legend is None or sorted(legend.values()) != [0, 1, 2]:
            out.report({"what": "announced legend does not name the three token types", "level": "server"}, {"capabilities": (init.get("result") or {}).get("capabilities", {}).get("semanticTokensProvider")})
            continue
        if sess.enc not in (offer or ["utf-16"]):
            out.report({"what": "server announced a position encoding the client did not offer", "level": "server"}, {"offered": offer, "announced": sess.enc})
            continue
        for k, r in enumerate(recs):
            if k % len(offers) != oi:
                continue
            path = os.path.join(root, "src", f"g{k}.gleam")
            open(path, "w").write(r["text"])
            sess.did_open(path, r["text"])
            resp = sess.request("textDocument/semanticTokens/full", {"textDocument": {"uri": lsp.uri(path)}})
            if resp is None or "error" in resp:
                out.report({"what": "semanticTokens/full failed", "level": "server"}, {"text": r["text"], "response": resp})
                continue
            got = [(l, c, n, legend.get(ty, -1 - ty)) for (l, c, n, ty) in decode((resp["result"] or {}).get("data", []))]
            exp = lsp_projection(r["text"], r["hl"], sess.enc)
            n += 1
            if got != exp:
                out.report({"what": "decoded tokens differ from the highlight list", "level": "server"},
                           {"text": r["text"], "expected": exp, "got": got})
            inc = all(a[:2] < b[:2] for a, b in zip(got, got[1:]))
            if not inc:
                out.report({"what": "tokens not strictly increasing", "level": "server"}, {"text": r["text"], "got": got})
            # a range request over the second half of the lines
            lines = r["text"].count("\n")
            rr = sess.request("textDocument/semanticTokens/range", {"textDocument": {"uri": lsp.uri(path)},
                              "range": {"start": {"line": lines // 2, "character": 0}, "end": {"line": lines + 1, "character": 0}}})
            if rr is not None and "result" in rr:
                sub = [(l, c, n, legend.get(ty, -1 - ty)) for (l, c, n, ty) in decode((rr["result"] or {}).get("data", []))]
                if [t for t in sub if t not in exp]:
                    out.report({"what": "range tokens not among the full tokens", "level": "server"}, {"text": r["text"], "got": sub, "full": exp})
      finally:
        sess.close()
    if watched:
        n += watched_history(out, root, lib)
    shutil.rmtree(root, ignore_errors=True)
    return n


def scope_common_lib():
    from checks import c06
    return c06.LIB


def run(out, tier, seed):
    cfg = "SemTokens_q.cfg" if tier == "quick" else "SemTokens_t.cfg"
    r = vlib.tlc("SemTokens", cfg, workers=8, timeout=3000, coverage=(tier == "quick"), heap="8g")
    vlib.require_ok(r, "SemTokens")
    out.add_tlc(r, "MC RoundTrip/WellFormed + GEN " + cfg)
    cases = list(r.cases())
    if len(cases) < 1000:
        raise vlib.ToolError("too few SemTokens cases")
    replay_cases(out, cases, seed)
    # second half: which identifiers the analysis highlights (GleamGen / Typing programs) and the whole pipeline
    main, _ = scope_common.programs(out, tier, seed)
    # highlighting asks for the full list plus three range requests per token: the thorough tier takes every k-th of the
    # (more than a million) programs
    main = scope_common.subsample(main, 150000, "c19-programs")
    mism, summary, _, _ = scope_common.observe(main, seed, "C19-hl", hl=True)
    for r in mism:
        if r["prop"] == "C19":
            out.report(r["features"], r["detail"])
    out.cov["evaluations"] += summary["programs"]
    from checks import c09
    tyc = vlib.tlc("Typing", "Typing_sim.cfg", workers=1, simulate=(80 if tier == "quick" else 3000), depth=4000, seed=seed, timeout=3000, name="c19-typing")
    vlib.require_ok(tyc, "Typing simulation for C19")
    out.add_tlc(tyc, "GEN Typing programs (function-typed locals)")
    c09.run_ty(out, list(tyc.cases()), seed, "c19", "main", prop="C19")
    n = end_to_end(out, os.path.join(vlib.WORK, "scope-C19-hl", "hl.ndjson"), seed)
    out.cov["traces_validated_against_impl"] += n
    out.cov["exhaustive"] = True
    out.cov["rule"] = ("all documents over {a,nl,c2,c3,c4} within %s x all sorted non-overlapping single-line highlight lists "
                       "x 3 tags; the real encoder's array is compared with the specification's Encode(Project); "
                       "non-trivial = document has a line feed or multi-byte character; plus the highlight set of every GleamGen / Typing program "
                       "(function references, constructors, function-typed locals) and ~400 programs through the real server "
                       "(semanticTokens/full and /range decoded by the LSP rule)" % cfg)
    out.assumptions += ["highlight ranges come from the analysis as single-line identifier ranges (checked separately on programs)"]


def replay(out, path):
    rec = json.load(open(path))
    d, f = rec["detail"], rec.get("features", {})
    if f.get("history") == "watched files":
        root = vlib.workdir("c19-replay-w")
        open(os.path.join(root, "gleam.toml"), "w").write('name = "p"\nversion = "0.1.0"\n')
        os.makedirs(os.path.join(root, "src"))
        open(os.path.join(root, "src", "m2.gleam"), "w").write(scope_common_lib())
        watched_history(out, root, scope_common_lib())
    elif f.get("level") == "server" and "text" in d:
        # an end-to-end mismatch: the same document through the real server again (every position-encoding offer)
        hp = os.path.join(vlib.workdir("c19-replay-e2e"), "hl.ndjson")
        with open(hp, "w") as o:
            for _ in range(3):
                o.write(json.dumps({"text": d["text"], "hl": hl_of(d["text"])}) + "\n")
        end_to_end(out, hp, 1, edge=False, watched=False)
    elif "case" in d and "doc" in d["case"]:
        replay_cases(out, [d["case"]], 1)
    elif "case" in d and "out" in d["case"] and "sigs" in d["case"]:
        from checks import c09
        c09.run_ty(out, [d["case"]], 1, "c19-replay", f.get("run", "main"), prop="C19")
    elif "case" in d:
        scope_common.replay_case(out, path, "C19")
    else:
        raise vlib.ToolError("do not know how to replay this record")
