"""C02 - parsing terminates without panic or abort on every input (see parser_common)."""
import json
from checks import parser_common
import vlib


def run(out, tier, seed):
    parser_common.run_parse(out, tier, seed, "C02")
    out.cov["exhaustive"] = True
    out.cov["rule"] = ("same enumeration as C01 (ParseTotal: token-kind sequences, character strings, in 21 contexts, corpus prefixes, "
                       "soup) plus nesting towers opener^n for 15 recursive constructs and n up to 10^4 (quick) / 10^6 (thorough), each "
                       "tower parsed in a child process with a 60 s budget; observable per input: returned / panicked / aborted / "
                       "timeout, predicted: returned")
    out.assumptions += ["a parse that exceeds 20 s (in-process) or 60 s (tower child) is counted as non-termination"]


def replay(out, path):
    d = json.load(open(path))["detail"]
    p = vlib.run_bin("parsecheck", [], stdin_data=json.dumps(d["case"]) + "\n")
    for r in vlib.json_lines(p.stdout):
        if r["kind"] == "mismatch" and r["features"]["what"] in ("panicked", "aborted", "timeout"):
            out.report(r["features"], r["detail"])
