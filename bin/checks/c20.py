"""C20 - every reported range lies inside the document it refers to.
Spec: Ranges.tla - monitor RangeOK over every distinct range reported by every query (bounds, character boundaries,
named file belongs to the workspace, focus inside full range, name-like results = one whole token).
MON: the sweep harness (every query at every token boundary of every file of every Workspace.tla workspace, incl.
non-ASCII seeds) records the ranges with the facts the monitor needs; TLC evaluates RangeOK on each."""
import json, os
import vlib
from checks import ws_common


def monitor(out, rpath, cases, chunk=20000):
    lines = [l for l in open(rpath).read().split("\n") if l]
    d = os.path.dirname(rpath)
    for c0 in range(0, len(lines), chunk):
        part = lines[c0:c0 + chunk]
        pth = os.path.join(d, f"r-{c0}.ndjson")
        open(pth, "w").write("\n".join(part) + "\n")
        r = vlib.tlc("Ranges", "Ranges.cfg", workers=1, timeout=1800, env={"TRACE": pth}, name=f"ranges-{c0}", heap="6g")
        out.add_tlc(r, f"MON Ranges records {c0}..{c0+len(part)}")
        if "INCOMPLETE" in r.out or r.rc != 0:
            raise vlib.ToolError("Ranges monitor did not process every record: " + r.out[-1500:])
        for w in r.cases("FAILED"):
            rec = json.loads(part[w["line"] - 1])
            names = ["in_bounds", "char_boundary", "focus_inside_full", "whole_tokens", "lsp_inside_client_document"]
            failed = [n for n, ok in zip(names, w["bad"]) if not ok]
            out.report({"what": "range", "kind": rec["kind"], "failed": failed[0] if failed else "?"},
                       {"record": rec, "case": cases[rec["ws"]] if rec["ws"] < len(cases) else None})
    return len(lines)


def run(out, tier, seed):
    ws, multi, allseeds = ws_common.damaged_workspaces(out, tier, seed)
    cases = allseeds + multi + (ws if tier != "quick" else ws[::3])
    mism, summary, rpath = ws_common.sweep(cases, "c20", ranges=True)
    if summary is None:
        raise vlib.ToolError("sweep did not finish (a query crashed or hung: see C10)")
    n = monitor(out, rpath, cases)
    del ws_common.LEX_FAILS[:]      # a lexer failure on a seed is C10's to report
    out.cov["traces_validated_against_impl"] += n
    out.cov["evaluations"] += summary["calls"]
    out.cov["distinct_nontrivial"] += n
    out.cov["samples"] += [json.loads(l) for l in open(rpath).read().split("\n")[:3] if l]
    out.cov["exhaustive"] = False
    out.cov["rule"] = ("all distinct (kind, file, start, end) ranges reported by 15 query kinds at every token boundary of every file of the "
                       "C10 workspaces (seeds incl. non-ASCII text, single-step damages, multi-step histories); distinct_nontrivial = distinct "
                       "range records monitored")
    out.assumptions += ["token boundaries and character-boundary bits are computed by the harness with the repository's lexer"]


def replay(out, path):
    d = json.load(open(path))["detail"]
    mism, summary, rpath = ws_common.sweep([d["case"]], "c20-replay", ranges=True)
    if summary:
        monitor(out, rpath, [d["case"]])
