"""Shared by C15 and C16 (both check the module Server)."""
import re
import vlib


def coverage(r):
    """per-action counts of a `-coverage 1` run; also understands actions that are instances of a parametrised definition"""
    cov = {}
    for m in re.finditer(r"<(\w+) line \d+, col \d+ to line \d+, col \d+ of module \w+(?: \([\d ]+\))?>: (\d+):(\d+)", r.out):
        cov[m.group(1)] = cov.get(m.group(1), 0) + int(m.group(3))
    return cov


def require_actions(r, actions, what):
    cov = coverage(r)
    for a in actions:
        if not cov.get(a):
            raise vlib.ToolError(f"{what}: action {a} never taken (vacuity)")
    return cov
