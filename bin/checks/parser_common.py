"""Shared run for C01 (lossless tree) and C02 (totality): TLC enumerates the inputs (ParseTotal), checks the
tree-builder design (TreeBuilder); the harness parses every input with the real parser; recorded builder
traces are validated against TreeBuilder by TLC (Trace_TreeBuilder)."""
import json, os, re, glob
import vlib

KINDS_RE = re.compile(r'"([A-Z_]+)"')


def spec_kinds():
    txt = open(os.path.join(vlib.SPEC, "Lexis.tla")).read()
    body = txt[txt.index("Trivia   =="):txt.index("\\* One representative")]
    return sorted(set(KINDS_RE.findall(body)))


def corpus_cases(tier):
    cases = []
    files = sorted(glob.glob(os.path.join(vlib.VERIF, "corpus", "**", "*.gleam"), recursive=True))
    for f in files:
        text = open(f, encoding="utf-8").read()
        b = text.encode()
        step = 1 if len(b) < 2000 else (97 if tier == "quick" else 13)
        for i in range(0, len(b) + 1, step):
            try:
                p = b[:i].decode()
            except UnicodeDecodeError:
                continue
            cases.append({"mode": "text", "ctx": "prefix:" + os.path.basename(f), "text": p})
        cases.append({"mode": "text", "ctx": "file:" + os.path.basename(f), "text": text})
        cases.append({"mode": "text", "ctx": "crlf:" + os.path.basename(f), "text": text[:6000].replace("\n", "\r\n")})
    # keyword / delimiter soup
    import random
    rnd = random.Random(vlib.seed_from_env())
    words = ["fn", "pub", "type", "const", "import", "case", "let", "use", "if", "as", "assert", "opaque", "todo", "panic",
             "external", "{", "}", "(", ")", "[", "]", "<<", ">>", "#", "#(", "->", "<-", "..", ".", ",", ":", "=", "|", "|>",
             "@", "a", "B", "_", "1", "1.0", "\"s\"", "\"", "+", "-", "!", "<>", "==", "\n", "//", "///", "////", "é", "$"]
    for k in range(300 if tier == "quick" else 5000):
        n = rnd.choice([5, 20, 80, 300])
        cases.append({"mode": "text", "ctx": "soup", "text": " ".join(rnd.choice(words) for _ in range(n))})
    return cases


def run_parse(out, tier, seed, want):
    """want: 'C01' or 'C02' - which class of observations this check reports."""
    d = vlib.workdir("parse-" + want)
    tlc_cases = []
    cfgs = ["tok2", "rep3", "chr3"] if tier == "quick" else ["tok3", "chr4"]
    for c in cfgs:
        r = vlib.tlc("ParseTotal", f"ParseTotal_{c}.cfg", workers=8, timeout=3000, heap="8g")
        vlib.require_ok(r, "ParseTotal " + c)
        out.add_tlc(r, "GEN ParseTotal " + c)
        cs = list(r.cases())
        if len(cs) != r.distinct:
            raise vlib.ToolError("ParseTotal: cases != states")
        tlc_cases += cs
    # well-formed programs of the reference grammar (GleamSyn, budget-2 BFS), damaged at every position by the harness
    r = vlib.tlc("GleamSyn", "GleamSyn_b2.cfg", workers=8, timeout=3000, heap="8g", name="GleamSyn-b2-damage")
    vlib.require_ok(r, "GleamSyn b2")
    out.add_tlc(r, "GEN GleamSyn programs (to be damaged at every position)")
    progs = list(r.cases())
    step = 1
    tlc_cases += [{"mode": "prog", "out": [t for t in c["out"] if t["r"] == "tok"]} for c in progs[::step]]
    # nesting towers / chains: C02 observes termination, C01 that the tree still reproduces the text
    # (the parser gives up beyond a nesting limit - whatever it does then must stay lossless)
    r = vlib.tlc("ParseTotal", "ParseTotal_tower.cfg", workers=2, timeout=300)
    vlib.require_ok(r, "ParseTotal tower")
    out.add_tlc(r, "GEN towers")
    towers = list(r.cases())
    maxh = (10000 if tier == "quick" else 1000000) if want == "C02" else (1000 if tier == "quick" else 10000)
    # (towers in a constant's value go to 10^5 in the quick tier too: that is where an unguarded recursion overflows an 8 MB stack)
    tlc_cases += [t for t in towers if t["seq"][1] <= maxh or (want == "C02" and t["seq"][0].startswith("const ") and t["seq"][1] <= 100000)]
    if want == "C02":
        # the progress model: guard is safe below F/U levels and TLC must find the counterexample above
        r = vlib.tlc("ParseTotal", "ParseTotal_fuel.cfg", workers=2, timeout=300)
        vlib.require_ok(r, "ParseTotal fuel model")
        out.add_tlc(r, "MC fuel/depth progress model (SafeDepth)")
        r = vlib.tlc("ParseTotal", "ParseTotal_fuelbad.cfg", workers=2, timeout=300)
        if not r.violated:
            raise vlib.ToolError("progress model: FuelLeft was expected to be violated (vacuity check)")
    if want == "C01":
        r = vlib.tlc("TreeBuilder", "TreeBuilder.cfg", workers=8, timeout=900, coverage=True)
        vlib.require_ok(r, "TreeBuilder")
        out.add_tlc(r, "MC TreeBuilder (contract => lossless)")
        for a in ("OpenRoot", "Open", "Close", "Advance", "Finish"):
            if not r.coverage.get(a):
                raise vlib.ToolError(f"TreeBuilder action {a} never taken (vacuity)")
    cases = tlc_cases + corpus_cases(tier)
    path = os.path.join(d, "cases.ndjson")
    with open(path, "w") as f:
        for c in cases:
            f.write(json.dumps(c) + "\n")
    trace_path = os.path.join(d, "traces.ndjson")
    ntr = (1500 if tier == "quick" else 30000) if want == "C01" else 0
    args = ["--check-kinds", ",".join(spec_kinds()), "--threads", str(vlib.NCPU)]
    if ntr:
        args += ["--trace-out", trace_path, "--trace-max", str(ntr)]
    p = vlib.run_bin("parsecheck", args, stdin_path=path, env={"VERIF_SEED": str(seed)}, timeout=7200)
    if p.returncode == 4:
        raise vlib.ToolError("Lexis.tla token kinds differ from the lexer's: " + p.stderr.decode()[-500:])
    if p.returncode not in (0, 3):
        raise vlib.ToolError(f"parsecheck crashed rc={p.returncode}: " + p.stderr.decode()[-2000:])
    summary = None
    for r in vlib.json_lines(p.stdout):
        if r["kind"] == "mismatch":
            w = r["features"]["what"]
            # a panic means no tree at all for that text: C01 reports it too (aborts / timeouts are C02's alone)
            mine = (w in ("roundtrip", "panicked")) if want == "C01" else (w in ("panicked", "aborted", "timeout"))
            if mine:
                out.report(r["features"], r["detail"])
        elif r["kind"] == "summary":
            summary = r
    if summary is None and p.returncode != 3:
        raise vlib.ToolError("parsecheck printed no summary")
    if summary:
        out.cov["traces_validated_against_impl"] += summary["parses"]
        out.cov["evaluations"] += summary["parses"]
        out.cov["distinct_nontrivial"] += summary["cases"]
        out.cov["samples"] += summary["samples"] or [cases[len(cases) // 2]]
    if want == "C01" and summary and summary["traces_written"]:
        validate_traces(out, trace_path)
    return cases


def validate_traces(out, trace_path, chunk=400):
    """TLC trace validation, a few hundred recorded parses per JVM."""
    lines = [l for l in open(trace_path).read().split("\n") if l]
    d = os.path.dirname(trace_path)
    nacc = 0
    for c0 in range(0, len(lines), chunk):
        part = lines[c0:c0 + chunk]
        pth = os.path.join(d, f"tr-{c0}.ndjson")
        open(pth, "w").write("\n".join(part) + "\n")
        r = vlib.tlc("Trace_TreeBuilder", "Trace_TreeBuilder.cfg", workers=1, timeout=900, env={"TRACE": pth},
                     dfs=True, name=f"trace-tb-{c0}")
        out.add_tlc(r, f"TRACE TreeBuilder lines {c0}..{c0+len(part)}")
        m = re.search(r'<<"REJECTED", (\d+)>>', r.out)
        if m or r.violated or r.rc != 0:
            steps = int(m.group(1)) if m else -1
            # locate the trace line
            acc, bad_line = 0, None
            for i, l in enumerate(part):
                t = json.loads(l)
                n = len(t["ev"]) + 2
                if steps >= 0 and acc + n > steps:
                    bad_line = (c0 + i, steps - acc, t)
                    break
                acc += n
            inv = re.search(r"Invariant (\w+) is violated", r.out)
            out.report({"what": "trace rejected", "invariant": inv.group(1) if inv else None},
                       {"trace_line": bad_line[0] if bad_line else None, "event_index": bad_line[1] if bad_line else None,
                        "trace": bad_line[2] if bad_line else None, "tlc_tail": r.out[-1500:]})
            return
        nacc += len(part)
    out.cov["tlc_traces_accepted"] = nacc
