"""C16 - edits racing with requests never deadlock and the server converges.

Spec:  Server.tla (mode "conc").
MC:    exhaustive for 2 edits x 2 requests x 1-2 documents: NoDeadlock, one response per request, NoMixture, IssuedVersion,
       Convergence (text and last published diagnostics), LockDiscipline on the repaired design; on today's design
       everything but NoMixture / diagnostics convergence, which TLC must refute (F8a, F8b); liveness under fairness;
       the seeded design mutations (guard held across apply, snapshot inside the task, too few permits) must be refuted.
TRACE: seeded sessions against glas_verif_server with GLAS_VERIF_SCHED / GLAS_VERIF_TRACE: bursts of didChange interleaved
       with batches of <= 8 concurrent requests of every kind on 1-2 documents.  Hook events (global sequence number) and
       the client's messages are merged and validated by TLC against Trace_Server: probed lock state and probed store
       content must equal the model's at every event, no apply may complete while a snapshot is alive, every request is
       answered once, at quiescence server text = client text.  NoMixture and diagnostics provenance are reported as
       monitor lines (known findings F8a / F8b).  Diagnostics oracle: (a) in the trace - the last Publish of a document
       must stem from a diagnostics task whose snapshot held the final revision and that was not cancelled; (b) content -
       after quiescence one more edit appends a comment line, the republished diagnostics must equal the last published.
       Overtaken requests: on a document of ~100 kB every request kind is raced with an edit whose moment is swept across the
       request's latency (116 races); after quiescence the same request, asked alone, must answer like a reference server
       that never had a request in flight (Convergence for answers: nothing an overtaken task leaves behind may survive).
"""
import json, os, random, re, shutil, time
from concurrent.futures import ThreadPoolExecutor
import vlib, lsp
from checks import server_common

DEADLINE = 60.0          # a request not answered within this time is a hang (the violation), never a tool error
MAX_INFLIGHT = 8
REQ_KINDS = ["hover", "definition", "references", "highlight", "completion", "signatureHelp", "prepareRename", "rename",
             "semFull", "semRange", "syntaxTree"]
METHODS = {"hover": "textDocument/hover", "definition": "textDocument/definition", "references": "textDocument/references",
           "highlight": "textDocument/documentHighlight", "completion": "textDocument/completion",
           "signatureHelp": "textDocument/signatureHelp", "prepareRename": "textDocument/prepareRename",
           "rename": "textDocument/rename", "semFull": "textDocument/semanticTokens/full",
           "semRange": "textDocument/semanticTokens/range", "syntaxTree": "glas/syntaxTree"}
MC_ACTIONS = ["M_Dequeue", "M_SpawnTask", "M_PollTasks", "M_LockVfs", "M_ApplyEdit", "M_UnlockVfs", "M_TakeChange",
              "M_RequestCancel", "M_AcquireDbWrite", "M_SetInputs", "M_SpawnDiagT", "D_Emit", "E_Publish", "T_Start",
              "T_ReadVfs", "T_QueryStep", "T_QueryDone", "T_ConvertWithVfs", "T_Return", "D_Return", "C_EditT", "C_RequestI"]


# --------------------------------------------------------------------------------------------------------------
# client-side text model

def fnv(text):
    h = 0xcbf29ce484222325
    for b in text.replace("\r", "").encode():
        h = ((h ^ b) * 0x100000001b3) & 0xFFFFFFFFFFFFFFFF
    return h >> 11


def gen_module(rnd, nfun, other=None):
    out = []
    if other:
        out.append(f"import {other}\n")
    out.append("pub type Shape {\n  Circle(radius: Int)\n  Rect(width: Int, height: Int)\n}\n\n")
    out.append("pub const limit = 10\n\n")
    for k in range(nfun):
        out.append(f"pub fn fn{k}(alpha, beta) {{\n")
        out.append("  let total = alpha + beta\n")
        if k:
            out.append(f"  let inner = fn{rnd.randrange(k)}(total, limit)\n")
        else:
            out.append("  let inner = Rect(total, beta)\n")
        if other and k % 3 == 0:
            out.append(f"  let far = {other}.fn{rnd.randrange(nfun)}(alpha, 1)\n")
        if k % 7 == 3:
            out.append("  let = 1 +\n")                       # deliberate syntax errors: diagnostics are not empty
        if k % 5 == 0:
            out.append("  // é ß 💣 utf16\n")
        out.append("  case inner {\n    Circle(radius) -> radius\n    _ -> total\n  }\n}\n\n")
    return "".join(out)


def tree_matches(tree, text):
    """Does the debug tree of glas/syntaxTree spell `text`?  Leaf tokens are contiguous, cover the whole text and carry their
    text; rowan abbreviates tokens of 25 bytes or more to a prefix, for those the prefix is compared."""
    b = text.encode()
    at = 0
    for (lo, hi, t) in lsp.tree_text(tree):
        if lo != at or hi > len(b):
            return False
        tb = t.encode()
        if len(tb) != hi - lo:
            if not t.endswith(" ...") or hi - lo < 25:
                return False
            tb = tb[:-4]
        if b[lo:lo + len(tb)] != tb:
            return False
        at = hi
    return at == len(b)


def utf16_len(s):
    return len(s.encode("utf-16-le")) // 2


def pos_of(text, off):
    line = text.count("\n", 0, off)
    ls = text.rfind("\n", 0, off) + 1
    return {"line": line, "character": utf16_len(text[ls:off])}


def line_starts(text):
    res = [0]
    for m in re.finditer("\n", text):
        res.append(m.end())
    return res


class Doc:
    def __init__(self, name, path, text):
        self.name, self.path, self.text = name, path, text
        self.uri = lsp.uri(path)
        self.hist = [text]                   # every text the client ever had, index = text id
        self.tid = {fnv(text): 0}
        self.version = 1

    def tok(self, tid=None):
        return f"{self.name}#{len(self.hist) - 1 if tid is None else tid}"

    def tok_of_hash(self, h):
        return self.tok(self.tid[h]) if h in self.tid else f"{self.name}?{h}"

    def commit(self, text):
        if text == self.text:
            # an edit that leaves the text as it was: a new version of the document, the same text (the same text id)
            self.version += 1
            return
        self.text = text
        self.hist.append(text)
        self.tid[fnv(text)] = len(self.hist) - 1
        self.version += 1


def make_edit(rnd, doc, n):
    """one didChange notification (1-2 content changes, always containing the fresh marker n); returns (changes, newtext)"""
    text = doc.text
    marker = rnd.choice([f"  let v{n} = {n}\n", f"  let = {n}\n", f"// edit {n} é💣\n", f"// edit {n}\r\n", f"  let w{n} = fn0({n}, limit)\n"])
    changes = []
    if n > 1 and rnd.random() < 0.1:
        # an edit whose net effect on the text is nil (the same text sent again, a selection replaced by itself, an insertion
        # taken back in the same notification): for the server it is a change like any other - version, analysis inputs,
        # diagnostics
        k = rnd.randrange(3)
        ls = line_starts(text)
        if k == 0 or len(ls) < 3:
            return [{"text": text}], text
        i = rnd.randrange(len(ls) - 1)
        a, b = ls[i], ls[i + 1]
        if k == 1:
            return [{"range": {"start": pos_of(text, a), "end": pos_of(text, b)}, "text": text[a:b]}], text
        mid = text[:a] + marker + text[a:]
        return [{"range": {"start": pos_of(text, a), "end": pos_of(text, a)}, "text": marker},
                {"range": {"start": pos_of(mid, a), "end": pos_of(mid, a + len(marker))}, "text": ""}], text
    if rnd.random() < 0.12:
        new = text.replace("\r", "") + marker if rnd.random() < 0.5 else gen_module(rnd, rnd.randrange(20, 50)) + marker
        return [{"text": new}], new
    if rnd.random() < 0.4:
        ls = line_starts(text)
        if len(ls) > 3:
            i = rnd.randrange(len(ls) - 1)
            a, b = ls[i], ls[i + 1]
            if rnd.random() < 0.5:
                a = min(b, a + rnd.randrange(0, b - a + 1))
                if text[a - 1:a + 1] == "\r\n":
                    a -= 1
            changes.append({"range": {"start": pos_of(text, a), "end": pos_of(text, b)}, "text": ""})
            text = text[:a] + text[b:]
    ls = line_starts(text)
    a = ls[rnd.randrange(len(ls))]
    changes.append({"range": {"start": pos_of(text, a), "end": pos_of(text, a)}, "text": marker})
    text = text[:a] + marker + text[a:]
    return changes, text


def make_request(rnd, doc, kind):
    text = doc.text
    td = {"uri": doc.uri}
    idents = [m for m in re.finditer(r"[A-Za-z_][A-Za-z0-9_]*", text)]
    m = rnd.choice(idents) if idents else None
    off = (m.start() + rnd.randrange(0, len(m.group(0)) + 1)) if m else 0
    p = pos_of(text, off)
    if kind in ("semFull", "syntaxTree"):
        return {"textDocument": td}
    if kind == "semRange":
        ls = line_starts(text)
        a = rnd.randrange(len(ls))
        b = rnd.randrange(a, len(ls))
        return {"textDocument": td, "range": {"start": pos_of(text, ls[a]), "end": pos_of(text, ls[b])}}
    params = {"textDocument": td, "position": p}
    if kind == "rename":
        params["newName"] = "renamed_" + str(rnd.randrange(100))
    if kind == "references":
        params["context"] = {"includeDeclaration": True}
    if kind == "completion" and rnd.random() < 0.3:
        params["context"] = {"triggerKind": 2, "triggerCharacter": "."}
    return params


# --------------------------------------------------------------------------------------------------------------
# one session

def read_trace(path):
    evs = []
    try:
        with open(path) as f:
            for line in f:
                if line.endswith("\n") and line.startswith("{"):
                    evs.append(json.loads(line))
    except OSError:
        pass
    evs.sort(key=lambda e: e["seq"])
    return evs


def diag_key(params, max_line=None):
    res = []
    for d in params["diagnostics"]:
        s = d["range"]["start"]
        if max_line is not None and d["range"]["end"]["line"] >= max_line:
            continue
        res.append((s["line"], s["character"], d["range"]["end"]["line"], d["range"]["end"]["character"], d.get("message")))
    return sorted(res)


class SessionResult:
    def __init__(self, sid, seed):
        self.sid, self.seed = sid, seed
        self.problems = []       # (features, detail) found by the driver itself
        self.lines = []          # merged trace for TLC
        self.script = []
        self.nreq = self.nedit = self.batch = 0
        self.pubc0 = {}
        self.cm = {}             # request id -> "match" | "mismatch" (ok answers only)
        self.mismatch = {}       # request id -> what differed
        self.mix_possible = set()  # request ids whose own store probes differ from the workspace they were issued against
        self.task_of_id = {}
        self.model_mixed = set() # tasks the trace monitor found mixed
        self.model_ans_wrong = set()  # tasks for which the spec's AnswerContent monitor fired
        self.trace_cause = {}    # doc -> why the trace oracle says its last published diagnostics are not final
        self.hung = False


def run_session(base, sid, seed, two_docs, rounds, mutate_trace=None):
    rnd = random.Random(seed * 1000003 + sid)
    res = SessionResult(sid, seed)
    root = os.path.join(base, f"s{sid}")
    shutil.rmtree(root, ignore_errors=True)
    os.makedirs(os.path.join(root, "src"))
    open(os.path.join(root, "gleam.toml"), "w").write('name = "p"\nversion = "0.1.0"\n')
    docs = []
    names = ["d1", "d2"] if two_docs else ["d1"]
    for i, name in enumerate(names):
        text = gen_module(rnd, rnd.randrange(25, 60), other=("d1" if name == "d2" else None))
        path = os.path.join(root, "src", name + ".gleam")
        open(path, "w", newline="").write(text)
        docs.append(Doc(name, path, text))
    by_uri = {d.uri: d for d in docs}
    trace_path = os.path.join(root, "trace.ndjson")
    sess = lsp.Session(root, env={"GLAS_VERIF_TRACE": trace_path, "GLAS_VERIF_SCHED": str(seed * 7919 + sid)},
                       stderr_path=os.path.join(root, "stderr.log"))
    state = {"changes": 0}   # didOpen + didChange notifications sent so far
    quiesce_marks = []       # (server seq up to which everything happened, {doc: tok of the syntax tree text})

    def ws_state():
        """the client's workspace right now: text id of every document (what a request sent now is issued against)"""
        return tuple(len(d.hist) - 1 for d in docs)

    def fail(features, detail):
        res.problems.append((dict(features), dict(detail, sid=sid, seed=seed, two_docs=two_docs, rounds=rounds)))

    def settle(timeout=30.0):
        """Wait until the hook trace shows that nothing is pending: every change went through the store and the database,
        every spawned task returned, every diagnostics result was emitted and published.  (Silence on the wire alone
        would be a wall-clock guess: on a loaded machine a task can be late by more than any fixed pause.)"""
        end = time.time() + timeout
        while time.time() < end:
            sess.wait_quiet(quiet=0.15, timeout=5.0)
            evs = read_trace(trace_path)
            cnt = {}
            for e in evs:
                cnt[e["ev"]] = cnt.get(e["ev"], 0) + 1
            spawned = {e["task"] for e in evs if e["ev"] == "Spawn"}
            diags = {e["task"] for e in evs if e["ev"] == "Spawn" and e["label"].startswith("diag ")}
            returned = {e["task"] for e in evs if e["ev"] == "TaskReturn"}
            if (cnt.get("DocStoreUpdated", 0) == state["changes"] and cnt.get("ApplyEnd", 0) == cnt.get("ApplyBegin", 0) == state["changes"]
                    and len(diags) == state["changes"] and spawned <= returned
                    and cnt.get("DiagEmit", 0) == len(diags) and cnt.get("Publish", 0) == len(diags)) or not sess.alive():
                return True
        return False

    def quiesce(label):
        """wait until the server is quiet, read its texts back, remember where in the trace this is"""
        settle()
        toks = {}
        for d in docs:
            i = sess.new_id()
            m = {"jsonrpc": "2.0", "id": i, "method": "glas/syntaxTree", "params": {"textDocument": {"uri": d.uri}}}
            res.batch += 1
            res.script.append(("req", d.name, i, "syntaxTree", res.batch, d.tok(), m["params"], ws_state()))
            sess.send_batch([m])
            r = sess.wait(i, DEADLINE)
            if r is None:
                res.hung = True
                fail({"what": "hang" if sess.alive() else "died", "in_flight": 1, "phase": label},
                     {"waiting_for": "glas/syntaxTree", "exit_code": sess.exit_code()})
                return False
            same = "error" not in r and tree_matches(r["result"], d.text.replace("\r", ""))
            toks[d.name] = "ABSENT" if "error" in r else (d.tok() if same else d.name + "?tree")
            if not same:
                fail({"what": "text_diverged", "phase": label}, {"doc": d.name, "client_len": len(d.text),
                                                                "server": str(r.get("error", r.get("result", "")))[:300]})
        settle(10.0)
        evs = read_trace(trace_path)
        quiesce_marks.append((evs[-1]["seq"] if evs else 0, toks))
        res.script.append(("quiesce", None, None, None, -1))
        return True

    try:
        if sess.initialize() is None:
            raise vlib.ToolError("server did not answer initialize")
        for d in docs:                      # one at a time: the open phase is not part of the recorded race
            sess.did_open(d.path, d.text)
            state["changes"] += 1
            settle()
        evs0 = read_trace(trace_path)
        start_seq = evs0[-1]["seq"] if evs0 else 0
        # what the open phase left as the last published diagnostics of each document (cancelled = empty list, F8b)
        cancelled0 = {e["task"] for e in evs0 if e["ev"] == "DiagError" and e["cancelled"]}
        for e in evs0:
            if e["ev"] == "DiagEmit" and e["uri"] in by_uri:
                res.pubc0[by_uri[e["uri"]].name] = "cancelled" if e["task"] in cancelled0 else "ok"
        n_edit = 0
        ok = True
        for rd in range(rounds):
            nreq = rnd.randrange(1, MAX_INFLIGHT + 1)
            nedits = rnd.choice([0, 1, 1, 2, 2, 3])
            ops = ["r"] * nreq + ["e"] * nedits
            rnd.shuffle(ops)
            msgs, ids = [], []
            res.batch += 1
            for op in ops:
                d = rnd.choice(docs)
                if op == "e":
                    n_edit += 1
                    changes, new = make_edit(rnd, d, n_edit)
                    d.commit(new)
                    msgs.append({"jsonrpc": "2.0", "method": "textDocument/didChange",
                                 "params": {"textDocument": {"uri": d.uri, "version": d.version}, "contentChanges": changes}})
                    res.script.append(("edit", d.name, d.tok(), None, res.batch))
                    res.nedit += 1
                    state["changes"] += 1
                else:
                    kind = rnd.choice(REQ_KINDS)
                    i = sess.new_id()
                    ids.append(i)
                    msgs.append({"jsonrpc": "2.0", "id": i, "method": METHODS[kind], "params": make_request(rnd, d, kind)})
                    res.script.append(("req", d.name, i, kind, res.batch, d.tok(), msgs[-1]["params"], ws_state()))
                    res.nreq += 1
            mode = rnd.randrange(3)
            sess.send_batch(msgs, chunks=[1, 2, len(msgs)][mode], gap=[0, 0.0005, rnd.choice([0, 0.0002, 0.002])][mode])
            t_end = time.time() + DEADLINE
            missing = [i for i in ids if sess.wait(i, max(0.0, t_end - time.time())) is None]
            if missing:
                res.hung = True
                fail({"what": "hang" if sess.alive() else "died", "in_flight": len(ids), "phase": "round"},
                     {"round": rd, "unanswered": missing, "exit_code": sess.exit_code()})
                ok = False
                break
        if ok:
            ok = quiesce("final")
        if ok:
            # the server is quiet: every kind of request once more, one at a time.  Nothing races with these, so whatever an
            # earlier, overtaken request may have left behind (a cache filled by a task of an older revision) shows here: the
            # answer oracle re-asks them on the reference server like every other answer
            for kind in REQ_KINDS:
                d = rnd.choice(docs)
                i = sess.new_id()
                m = {"jsonrpc": "2.0", "id": i, "method": METHODS[kind], "params": make_request(rnd, d, kind)}
                res.batch += 1
                res.script.append(("req", d.name, i, kind, res.batch, d.tok(), m["params"], ws_state()))
                res.nreq += 1
                sess.send_batch([m])
                if sess.wait(i, DEADLINE) is None:
                    res.hung = True
                    fail({"what": "hang" if sess.alive() else "died", "in_flight": 1, "phase": "settled"},
                         {"unanswered": [i], "exit_code": sess.exit_code()})
                    ok = False
                    break
            if ok:
                ok = quiesce("settled")
        last_pub = {d.name: (sess.diagnostics_for(d.path) or [None])[-1] for d in docs}
        if ok:
            # content oracle: one more edit that cannot change any earlier diagnostic
            old_lines = {}
            for d in docs:
                n_edit += 1
                text = d.text
                tail = ("" if text.endswith("\n") or not text else "\n") + f"// probe {n_edit}\n"
                old_lines[d.name] = text.count("\n")
                a = pos_of(text, len(text))
                d.commit(text + tail)
                sess.send_batch([{"jsonrpc": "2.0", "method": "textDocument/didChange",
                                  "params": {"textDocument": {"uri": d.uri, "version": d.version},
                                             "contentChanges": [{"range": {"start": a, "end": a}, "text": tail}]}}])
                res.batch += 1
                res.script.append(("edit", d.name, d.tok(), None, res.batch))
                state["changes"] += 1
                settle()                                     # one document at a time: the probe itself must not race
            ok = quiesce("probe")
            for d in docs:
                after = (sess.diagnostics_for(d.path) or [None])[-1]
                before = last_pub[d.name]
                if before is None or after is None:
                    fail({"what": "diag_not_final", "cause": "never_published"}, {"doc": d.name})
                elif diag_key(before, old_lines[d.name]) != diag_key(after, old_lines[d.name]):
                    # the cause is filled in from the trace oracle (provenance of the last Publish) after validation;
                    # a content mismatch the trace cannot explain stays "content"
                    fail({"what": "diag_not_final", "cause": "content", "oracle": "content"},
                         {"doc": d.name, "last_published": len(before["diagnostics"]), "for_final_text": len(after["diagnostics"])})
        rc = sess.close()
        if ok and rc != 0:
            fail({"what": "exit_status"}, {"exit_code": rc})
    finally:
        sess.close()
    # ---- exactly one response per request id
    with sess.cv:
        counts = dict(sess.resp_count)
        responses = dict(sess.responses)
    for s in res.script:
        if s[0] == "req" and counts.get(s[2], 0) > 1:
            fail({"what": "duplicate_response"}, {"id": s[2], "count": counts[s[2]]})
    # ---- answer content: every ok answer against a quiet sequential reference for the workspace it was issued against
    evs = [e for e in read_trace(trace_path) if e["seq"] > start_seq]
    if not res.hung:
        answer_oracle(res, root, docs, responses, evs)
    # ---- merge
    res.lines = merge(res, docs, by_uri, evs, responses, quiesce_marks, sess)
    if mutate_trace:
        res.lines = mutate_trace(res.lines)
    if not res.problems:
        shutil.rmtree(root, ignore_errors=True)
    return res


def canon(x, key=None):
    """canonical form of an LSP result: the order of lists is not part of the answer (except the relative token stream)"""
    if isinstance(x, dict):
        return {k: canon(v, k) for k, v in sorted(x.items())}
    if isinstance(x, list):
        items = [canon(v) for v in x]
        return items if key == "data" else sorted(items, key=lambda v: json.dumps(v, sort_keys=True))
    return x


def got_class(result):
    return "null" if result is None else ("empty" if result in ([], {}) else "other")


def answer_oracle(res, root, docs, responses, evs):
    """Reference answers from a quiet server (no delays, one request in flight) that is moved from workspace state to
    workspace state by full-text didChange.  Fills res.cm / res.mismatch / res.mix_possible."""
    reqs = [s for s in res.script if s[0] == "req" and resp_class(responses.get(s[2])) == "ok"]
    if not reqs:
        return
    by_state = {}
    for s in reqs:
        by_state.setdefault(s[7], []).append(s)
    ref = lsp.Session(root, stderr_path=os.path.join(root, "ref-stderr.log"))
    try:
        if ref.initialize() is None:
            raise vlib.ToolError("reference server did not answer initialize")
        cur = None

        def barrier():
            r = ref.request("glas/syntaxTree", {"textDocument": {"uri": docs[0].uri}}, DEADLINE)
            if r is None:
                raise vlib.ToolError("reference server does not answer")
        for state in sorted(by_state):
            for k, d in enumerate(docs):
                if cur is None:
                    ref.did_open(d.path, d.hist[state[k]])
                elif cur[k] != state[k]:
                    ref.did_change(d.path, [{"text": d.hist[state[k]]}], version=1000 + state[k])
            cur = state
            barrier()
            for s in by_state[state]:
                r = ref.request(METHODS[s[3]], s[6], DEADLINE)
                got = responses[s[2]]
                if r is None or "error" in r:
                    # the quiet reference itself fails on this request: no verdict
                    continue
                if canon(r.get("result")) == canon(got.get("result")):
                    res.cm[s[2]] = "match"
                else:
                    res.cm[s[2]] = "mismatch"
                    res.mismatch[s[2]] = {"kind": s[3], "doc": s[1], "state": list(state), "got_class": got_class(got.get("result")),
                                          "want_class": got_class(r.get("result")), "params": s[6],
                                          "got": json.dumps(got.get("result"))[:300], "want": json.dumps(r.get("result"))[:300]}
    finally:
        ref.close()
    # which of these tasks looked at a store that was not the workspace they were issued against?  ReadVfs/ReadVfs2 bracket
    # the handler's first read, ConvertVfs/TaskReturn its second one: all four probes must show the issue-time texts.
    req_spawns = [e["task"] for e in evs if e["ev"] == "Spawn" and not e["label"].startswith("diag ")]
    all_reqs = [s for s in res.script if s[0] == "req"]
    task_of_id = {s[2]: t for s, t in zip(all_reqs, req_spawns)}
    probes = {}
    second_read = {e["task"] for e in evs if e["ev"] == "ConvertVfs"}
    for e in evs:
        if e["ev"] in ("ReadVfs", "ReadVfs2", "ConvertVfs") or (e["ev"] == "TaskReturn" and e["task"] in second_read):
            # the end-of-task probe only closes the bracket around a SECOND read; a task without one (every kind but
            # goto-definition/references/rename, and those when they return early) never looks at the store again
            probes.setdefault(e["task"], []).append(e.get("files") or {})
    for s in reqs:
        t = task_of_id.get(s[2])
        want = {d.uri: fnv(d.hist[s[7][k]]) for k, d in enumerate(docs)}
        ps = probes.get(t, [])
        if len(ps) < 2 or any(p.get(u) != h for p in ps for u, h in want.items()):
            res.mix_possible.add(s[2])


def resp_class(r):
    if r is None:
        return "none"
    if "error" in r:
        return "cancelled" if r["error"].get("code") == -32800 else "err"
    return "ok"


def merge(res, docs, by_uri, evs, responses, quiesce_marks, sess):
    """hook events (by global sequence number) + the client's messages -> lines for Trace_Server"""
    sid = res.sid
    names = {d.name for d in docs}
    first = {d.name: d.tok(0) for d in docs}
    lines = [{"ev": "Reset", "sess": sid, "docs": {n: first.get(n, "ABSENT") for n in ("d1", "d2")},
              "pubc": {n: res.pubc0.get(n, "ok") for n in ("d1", "d2")}}]
    client = list(res.script)                   # what the client sent, in order; element [4] = batch number
    task_doc, task_kind, task_req, diag_res, has_qd = {}, {}, {}, {}, set()
    for e in evs:
        if e["ev"] == "DiagError":
            diag_res[e["task"]] = "cancelled" if e["cancelled"] else "err"
        if e["ev"] == "QueryDone":
            has_qd.add(e["task"])
    # request k of the client <-> k-th Spawn of a request task (the main loop takes messages in arrival order)
    req_spawns = [e["task"] for e in evs if e["ev"] == "Spawn" and not e["label"].startswith("diag ")]
    reqs = [s for s in client if s[0] == "req"]
    res.script = [s for s in res.script if s[0] != "quiesce"]
    task_of_id = {s[2]: t for s, t in zip(reqs, req_spawns)}
    res.task_of_id = task_of_id
    id_of_task = {t: i for i, t in task_of_id.items()}

    def cm_of(t):
        return res.cm.get(id_of_task.get(t), "na")
    state = {"next": 0, "open": set()}          # next message to announce; request ids of the announced batches not yet returned

    def announce(out):
        """Send lines of the next batch(es): a batch is sent once every request of the previous ones has returned"""
        while state["next"] < len(client) and not state["open"] and client[state["next"]][0] != "quiesce":
            b = client[state["next"]][4]
            while state["next"] < len(client) and client[state["next"]][4] == b:
                s = client[state["next"]]
                state["next"] += 1
                if s[0] == "edit":
                    out.append({"ev": "Send", "k": "change", "d": s[1], "tok": s[2]})
                else:
                    t = task_of_id.get(s[2], 0)
                    if not t:
                        continue         # never reached spawn_with_snapshot (session ended or hung before)
                    state["open"].add(t)
                    out.append({"ev": "Send", "k": "req", "d": s[1], "t": t, "rk": "conv" if t in has_qd else "plain",
                                "method": METHODS[s[3]]})

    def tok_for(doc, files):
        if files is None:            # the probe could not read the store: its lock was held by a writer
            return "LOCKED"
        h = files.get(doc.uri)
        return "ABSENT" if h is None else doc.tok_of_hash(h)

    def final_res(t):
        if task_kind.get(t) == "diag":
            return diag_res.get(t, "ok")
        return resp_class(responses.get(task_req.get(t)))

    out = []
    marks = list(quiesce_marks)

    def quiesce_line(out):
        out.append({"ev": "Quiesce", "docs": {n: marks[0][1].get(n, "ABSENT") for n in ("d1", "d2")}})
        marks.pop(0)
        if state["next"] < len(client) and client[state["next"]][0] == "quiesce":
            state["next"] += 1
        announce(out)
    announce(out)
    for e in evs:
        ev = e["ev"]
        while marks and e["seq"] > marks[0][0]:
            quiesce_line(out)
        if ev == "DocStoreUpdated":
            d = by_uri.get(e["uri"])
            if d is None:
                continue
            out.append({"ev": "DocStoreUpdated", "d": d.name, "free": e["vfs_free"], "tok": tok_for(d, e["files"])})
        elif ev == "Spawn":
            t = e["task"]
            if e["label"].startswith("diag "):
                d = by_uri.get(e["label"][5:])
                task_kind[t], task_doc[t] = "diag", d
                out.append({"ev": "Spawn", "kind": "diag", "t": t, "d": d.name if d else "?"})
            else:
                k = req_spawns.index(t)
                if k < len(reqs):
                    s = reqs[k]
                    task_req[t] = s[2]
                    task_kind[t], task_doc[t] = "req", next(x for x in docs if x.name == s[1])
                out.append({"ev": "Spawn", "kind": "req", "t": t, "d": "", "label": e["label"],
                            "tok": reqs[k][5] if k < len(reqs) else ""})
        elif ev == "TaskStart":
            out.append({"ev": "TaskStart", "t": e["task"]})
        elif ev == "ReadVfs":
            t = e["task"]
            d = task_doc.get(t)
            out.append({"ev": "ReadVfs", "t": t, "tok": tok_for(d, e["files"]) if d else "?"})
            if t not in has_qd and final_res(t) != "cancelled":
                out.append({"ev": "QueryEnd", "t": t, "res": "err" if final_res(t) in ("err", "none") else "ok", "cm": cm_of(t)})
        elif ev == "QueryDone":
            t = e["task"]
            out.append({"ev": "QueryEnd", "t": t, "res": "ok" if final_res(t) == "ok" else "err", "cm": cm_of(t)})
        elif ev == "ConvertVfs":
            t = e["task"]
            if final_res(t) == "ok":
                d = task_doc.get(t)
                out.append({"ev": "ConvertVfs", "t": t, "tok": tok_for(d, e["files"]) if d else "?"})
        elif ev == "TaskReturn":
            t = e["task"]
            r = final_res(t)
            out.append({"ev": "TaskReturn", "t": t, "res": "err" if r == "none" else r})
            state["open"].discard(t)
            announce(out)
        elif ev == "ApplyBegin":
            out.append({"ev": "ApplyBegin", "free": e["vfs_free"]})
        elif ev == "ApplyEnd":
            out.append({"ev": "ApplyEnd"})
        elif ev in ("DiagEmit", "Publish"):
            d = by_uri.get(e["uri"])
            out.append({"ev": ev, "d": d.name if d else "?", "n": e["n"], "t": e.get("task", 0)})
    while marks:
        quiesce_line(out)
    # a cancelled query noticed the flag between ApplyBegin and ApplyEnd of the change that waited for its snapshot:
    # place its QueryEnd right before the first ApplyEnd / its own TaskReturn after its ReadVfs
    fixed = []
    waiting = []
    for ln in out:
        if ln["ev"] == "ReadVfs" and ln["t"] not in has_qd and final_res(ln["t"]) == "cancelled":
            fixed.append(ln)
            waiting.append(ln["t"])
            continue
        if ln["ev"] == "ApplyEnd":
            for t in waiting:
                fixed.append({"ev": "QueryEnd", "t": t, "res": "cancelled"})
            waiting = []
        elif ln["ev"] == "TaskReturn" and ln["t"] in waiting:
            fixed.append({"ev": "QueryEnd", "t": ln["t"], "res": "cancelled"})
            waiting.remove(ln["t"])
        fixed.append(ln)
    # client-side publishDiagnostics must be the hook's Publish stream, per document
    for d in docs:
        hook = [ln["n"] for ln in fixed if ln["ev"] == "Publish" and ln["d"] == d.name]
        cl = [len(p["diagnostics"]) for p in sess.diagnostics_for(d.path)]
        if cl[-len(hook):] != hook and hook:
            res.problems.append(({"what": "publish_stream"}, {"doc": d.name, "hook": hook[-10:], "client": cl[-10:], "sid": sid,
                                                               "seed": res.seed}))
    for ln in fixed:
        ln["sess"] = sid
        ln.pop("_id", None)
    return lines + fixed


# --------------------------------------------------------------------------------------------------------------
# TLC trace validation

def validate(out, results, name, report=True):
    """Several sessions per JVM.  Returns {sid: verdict}; reports rejections and monitor lines."""
    d = vlib.workdir("c16-" + name)
    path = os.path.join(d, "trace.ndjson")
    index = []               # line number (1-based) -> sid
    with open(path, "w") as f:
        for r in results:
            for ln in r.lines:
                f.write(json.dumps(ln) + "\n")
                index.append(r.sid)
    t = vlib.tlc("Trace_Server", "Trace_Server.cfg", workers=1, timeout=3000, env={"TRACE": path}, name="trace-" + name,
                 heap="6g")
    out.add_tlc(t, f"TRACE Trace_Server {len(results)} sessions, {len(index)} lines")
    by_sid = {r.sid: r for r in results}
    verdict = {r.sid: "accepted" for r in results}
    for r in results:
        r.validated = False
    mons = set()
    for line in t.out.splitlines():
        if line.startswith('<<"MON", '):
            mons.add(line)
    rej = re.search(r'<<\s*"REJECTED",\s*(\d+),', t.out)
    inv = re.search(r"Invariant (\w+) is violated", t.out)
    bad_line = None
    if rej:
        bad_line = int(rej.group(1))
    elif inv or t.error or t.rc != 0:
        m = None
        for m in re.finditer(r"^/\\ l = (\d+)", t.out, re.M):
            pass
        bad_line = int(m.group(1)) if m else len(index)
        if not inv and not m:
            import sys
            sys.stderr.write(t.out[-3000:])
            raise vlib.ToolError("Trace_Server run failed")
    if bad_line is not None:
        bad_line = min(bad_line, len(index))
        sid = index[bad_line - 1]
        r = by_sid[sid]
        k = bad_line - 1 - index.index(sid)
        verdict[sid] = "rejected"
        for s2 in index[bad_line:]:
            if s2 != sid:
                verdict[s2] = "unchecked"
        ev = r.lines[k] if k < len(r.lines) else {}
        feats = {"what": "trace_rejected", "event": ev.get("ev"), "invariant": inv.group(1) if inv else None}
        if ev.get("ev") in ("DocStoreUpdated", "ApplyBegin"):
            feats["vfs_free"] = ev.get("free")
        if report:
            out.report(feats, {"sid": sid, "seed": r.seed, "line": k + 1, "event": ev, "context": r.lines[max(0, k - 12):k + 3],
                               "two_docs": getattr(r, "two_docs", None), "rounds": getattr(r, "rounds", None)})
    for r in results:
        r.validated = verdict[r.sid] == "accepted"
    for m in sorted(mons):
        v = json.loads(json.loads(m[len('<<"MON", '):-2]))
        r = by_sid.get(v["sess"])
        if r is None or verdict.get(v["sess"]) == "unchecked":
            continue
        base = {"sid": v["sess"], "seed": r.seed, "two_docs": getattr(r, "two_docs", None), "rounds": getattr(r, "rounds", None)}
        if v["k"] == "mix":
            r.model_mixed.add(v["t"])
        if v["k"] == "ans":                      # the spec's AnswerContent monitor fired for this task
            r.model_ans_wrong.add(v["t"])
            if v["mixed"]:
                r.model_mixed.add(v["t"])
        if v["k"] == "mix" and report:
            phase = "read" if v["snap"] != v["read"] else "convert"
            out.report({"what": "mixture", "phase": phase, "rk": v["rk"]}, dict(base, task=v["t"], versions=[v["snap"], v["read"], v["conv"]]))
        if v["k"] == "diag" and report:
            for dn, st in v["docs"].items():
                if st["open"] and (st["c"] != "ok" or st["pubver"] != st["dbver"]):
                    cause = "cancelled_empty" if st["c"] == "cancelled" else "stale"
                    r.trace_cause[dn] = cause
                    out.report({"what": "diag_not_final", "cause": cause, "oracle": "trace"}, dict(base, doc=dn, state=st))
    return verdict, bad_line


def report_answers(out, r):
    """an ok answer that differs from the reference answer for the workspace it was issued against: explained by a
    mixture (trace monitor, or the task's own probes of the store) = F8a; otherwise a plain violation"""
    for i, info in sorted(r.mismatch.items()):
        t = r.task_of_id.get(i)
        if getattr(r, "validated", False) and t not in r.model_ans_wrong:
            raise vlib.ToolError(f"session {r.sid}: the driver saw a content mismatch for task {t} that Trace_Server's monitor did not print")
        detail = dict(info, sid=r.sid, seed=r.seed, two_docs=getattr(r, "two_docs", None), rounds=getattr(r, "rounds", None), task=t)
        if t in r.model_mixed or i in r.mix_possible:
            out.report({"what": "answer_content", "explained_by": "mixture", "kind": info["kind"]}, detail)
        else:
            out.report({"what": "answer_content", "kind": info["kind"], "got_class": info["got_class"]}, detail)


def run_sessions(out, seed, sids, tier, name, jobs=8, mutate_trace=None, report=True):
    base = vlib.workdir("c16-sess-" + name)
    results = []

    hung = []

    def one(sid):
        if len(hung) >= 3:           # the hang is established and reported; do not wait out the deadline 50 more times
            r = SessionResult(sid, seed)
            r.hung = r.skipped = True
            return r
        rnd = random.Random(seed * 31 + sid)
        two = rnd.random() < (0.5 if tier == "quick" else 0.7)
        rounds = rnd.randrange(6, 11)
        r = run_session(base, sid, seed, two, rounds, mutate_trace)
        r.two_docs, r.rounds = two, rounds
        if r.hung:
            hung.append(sid)
        return r
    with ThreadPoolExecutor(jobs) as ex:
        results = list(ex.map(one, sids))
    for r in results:
        if report:
            for f, dt in r.problems:
                out.report(f, dt)
    return results


# --------------------------------------------------------------------------------------------------------------
# F18: more simultaneous requests than the concurrency layer admits

def f18_probe(out, seed, n=24):
    base = vlib.workdir("c16-f18")
    root = os.path.join(base, "p")
    os.makedirs(os.path.join(root, "src"))
    open(os.path.join(root, "gleam.toml"), "w").write('name = "p"\nversion = "0.1.0"\n')
    text = gen_module(random.Random(seed), 40)
    path = os.path.join(root, "src", "d1.gleam")
    open(path, "w").write(text)
    sess = lsp.Session(root, stderr_path=os.path.join(root, "stderr.log"))
    try:
        if sess.initialize() is None:
            raise vlib.ToolError("server did not answer initialize")
        sess.did_open(path, text)
        sess.wait_quiet(0.3, 20)
        doc = Doc("d1", path, text)
        rnd = random.Random(seed)
        ids, msgs = [], []
        for _ in range(n):
            i = sess.new_id()
            ids.append(i)
            msgs.append({"jsonrpc": "2.0", "id": i, "method": METHODS["references"], "params": make_request(rnd, doc, "references")})
        sess.send_batch(msgs)
        t_end = time.time() + 15.0
        missing = [i for i in ids if sess.wait(i, max(0.0, t_end - time.time())) is None]
        out.cov["evaluations"] += n
        if missing:
            out.report({"what": "hang", "probe": "f18", "in_flight": n, "limit": os.cpu_count()},
                       {"requests": n, "unanswered": len(missing), "alive": sess.alive(),
                        "note": "n simultaneous references requests in one write; none of the unanswered ones arrives within 15 s"})
        return len(missing)
    finally:
        sess.p.kill()
        sess.close()
        shutil.rmtree(base, ignore_errors=True)


# --------------------------------------------------------------------------------------------------------------

# --------------------------------------------------------------------------------------------------------------
# overtaken requests on a large document

def overtaken_sweep(out, seed, tier):
    """Server.tla's Convergence says that what the server answers once it is quiet depends on the final text alone - in
    particular not on requests that were overtaken by an edit.  On documents of a few kB the time between a task's query
    and its return is microseconds; here the document is some hundred kB, the request takes tens of milliseconds, and the
    moment at which the edit is sent is swept across that time (the C_EditT / T_QueryDone / T_Return interleavings of the
    model, driven from outside).  After each race and quiescence the same request is asked again, one at a time, and
    compared with a reference server that got the same final text with nothing in flight."""
    rnd = random.Random(seed * 7 + 16)
    nvar = int(os.environ.get("OVT_NVAR", 12000 if tier == "quick" else 30000))
    # the token requests return the largest answers (the longest stretch between the end of the query and the task's return):
    # their sweep is the finest
    scale = int(os.environ.get("OVT_SCALE", 1 if tier == "quick" else 5))
    steps_of = {"semFull": 80 * scale, "semRange": 16 * scale}
    root = vlib.workdir("c16-overtaken")
    shutil.rmtree(root, ignore_errors=True)
    os.makedirs(os.path.join(root, "src"))
    open(os.path.join(root, "gleam.toml"), "w").write('name = "p"\nversion = "0.1.0"\n')
    path = os.path.join(root, "src", "big.gleam")
    text = "pub type T {\n" + "".join(f"  V{i}\n" for i in range(nvar)) + "}\npub fn f(t: T) { t }\n"
    open(path, "w").write(text)
    u = lsp.uri(path)
    raced = lsp.Session(root, stderr_path=os.path.join(root, "raced-stderr.log"))
    ref = lsp.Session(root, stderr_path=os.path.join(root, "ref-stderr.log"))
    state = {"text": text, "ver": 1, "edits": 1}
    races = compared = 0

    def params(kind):
        nl = state["text"].count("\n")
        if kind == "semRange":
            return {"textDocument": {"uri": u}, "range": {"start": {"line": 0, "character": 0}, "end": {"line": nl, "character": 0}}}
        if kind in ("hover", "highlight", "references"):
            # the parameter `t` of f, on the last line but one
            line = state["text"].split("\n")[nl - 1]
            p = {"textDocument": {"uri": u}, "position": {"line": nl - 1, "character": line.index("(t") + 1}}
            if kind == "references":
                p["context"] = {"includeDeclaration": True}
            return p
        return {"textDocument": {"uri": u}}

    def edit_msg():
        state["text"] = "\n" + state["text"]
        state["ver"] += 1
        state["edits"] += 1
        z = {"line": 0, "character": 0}
        return {"jsonrpc": "2.0", "method": "textDocument/didChange",
                "params": {"textDocument": {"uri": u, "version": state["ver"]}, "contentChanges": [{"range": {"start": z, "end": z}, "text": "\n"}]}}

    def settle(sess):
        end = time.time() + 120
        while len(sess.diagnostics_for(path) or []) < state["edits"]:
            if time.time() > end or not sess.alive():
                return False
            time.sleep(0.02)
        sess.wait_quiet(quiet=0.1, timeout=10.0)
        return True

    def ask(sess, kind):
        return sess.request(METHODS[kind], params(kind), 120.0)

    try:
        if raced.initialize() is None or ref.initialize() is None:
            raise vlib.ToolError("server did not answer initialize")
        raced.did_open(path, text)
        ref.did_open(path, text)
        if not (settle(raced) and settle(ref)):
            raise vlib.ToolError("no diagnostics for the large document within 120 s")
        for kind in os.environ.get("OVT_KINDS", "semFull semRange syntaxTree hover highlight references").split():
            t0 = time.time()
            if ask(raced, kind) is None:
                out.report({"what": "hang" if raced.alive() else "died", "phase": "overtaken", "kind": kind}, {"nvar": nvar})
                return
            latency = time.time() - t0
            vlib.log(f"C16 overtaken sweep: {kind} takes {latency:.4f}s undisturbed")
            steps = steps_of.get(kind, 5 * scale)
            for step in range(steps):
                delay = latency * (step + rnd.random()) / steps
                m = edit_msg()
                raced.send_batch([m]); ref.send_batch([m])
                settle(raced); settle(ref)
                # the race: the request, `delay` later the edit
                i = raced.new_id()
                raced.send_batch([{"jsonrpc": "2.0", "id": i, "method": METHODS[kind], "params": params(kind)}])
                time.sleep(delay)
                m = edit_msg()
                raced.send_batch([m])
                if raced.wait(i, 120.0) is None:
                    out.report({"what": "hang" if raced.alive() else "died", "phase": "overtaken", "kind": kind}, {"nvar": nvar, "delay": delay})
                    return
                ref.send_batch([m])
                if not (settle(raced) and settle(ref)):
                    out.report({"what": "hang" if raced.alive() and ref.alive() else "died", "phase": "overtaken-settle", "kind": kind}, {"nvar": nvar, "delay": delay})
                    return
                races += 1
                for k2 in ([kind] if kind == "semFull" else [kind, "semFull"]):
                    got, want = ask(raced, k2), ask(ref, k2)
                    if got is None or want is None:
                        out.report({"what": "hang", "phase": "overtaken-settled", "kind": k2}, {"nvar": nvar})
                        return
                    compared += 1
                    if ("error" in got) != ("error" in want) or canon(got.get("result")) != canon(want.get("result")):
                        out.report({"what": "stale_after_overtaken_request", "kind": k2, "raced_kind": kind},
                                   {"nvar": nvar, "seed": seed, "delay_s": round(delay, 4), "latency_s": round(latency, 4), "edits": state["edits"],
                                    "got": json.dumps(got.get("result", got.get("error")))[:200], "want": json.dumps(want.get("result", want.get("error")))[:200]})
                        return
    finally:
        raced.close()
        ref.close()
        shutil.rmtree(root, ignore_errors=True)
    out.cov["overtaken_races"] = races
    out.cov["evaluations"] += compared
    vlib.log(f"C16 overtaken sweep: {races} races on a document of {len(text)} bytes, {compared} settled answers compared with the reference")


def mc(out, tier):
    ok_cfgs = ["c1", "a1", "live2"] + (["c2", "a2", "live", "f18fix"] if tier == "thorough" else [])
    bad_cfgs = {"x_mix": "NoMixture", "x_diag": "Convergence", "x_stale": "Convergence", "x_hold": "NoDeadlock",
                "x_snap": "IssuedVersion", "x_null": "AnswerContent", "x_f18": "NoDeadlock"}
    if tier == "thorough":
        bad_cfgs.update({"x_mix1": "NoMixture", "x_diag2": "Convergence", "x_diag3": "Convergence"})
    for c in ok_cfgs:
        r = vlib.tlc("Server", f"Server_{c}.cfg", workers=8, timeout=3000, coverage=(c == "c1"), heap="8g")
        vlib.require_ok(r, "Server " + c)
        out.add_tlc(r, "MC " + open(os.path.join(vlib.SPEC, f"Server_{c}.cfg")).readline().strip("\\* \n"))
        if c == "c1":
            out.cov["action_coverage"].update(server_common.require_actions(r, MC_ACTIONS, "Server (conc)"))
    for c, inv in bad_cfgs.items():
        r = vlib.tlc("Server", f"Server_{c}.cfg", workers=8, timeout=900)
        if not r.violated or f"Invariant {inv} is violated" not in r.out:
            raise vlib.ToolError(f"Server_{c}.cfg: {inv} was expected to be violated (vacuity / design finding)")
        out.add_tlc(r, f"MC expected violation of {inv}: " + open(os.path.join(vlib.SPEC, f"Server_{c}.cfg")).readline().strip("\\* \n"))


def selftest(out, seed):
    """Binding demonstration: a recorded session is accepted; the same lines with one field corrupted or one hook event
    dropped are rejected at exactly that line."""
    import copy
    base = vlib.workdir("c16-selftest")
    r = run_session(base, 0, seed, True, 8)
    r.two_docs, r.rounds = True, 8
    if r.hung or r.problems and any(f["what"] not in ("diag_not_final",) for f, _ in r.problems):
        raise vlib.ToolError("selftest session did not run cleanly: " + json.dumps(r.problems)[:500])
    verdict, bad = validate(out, [r], "self0", report=False)
    if verdict[0] != "accepted":
        raise vlib.ToolError("selftest: unmodified trace rejected at line %s" % bad)
    lines = r.lines

    def first(pred, start=5):
        return next(i for i in range(start, len(lines)) if pred(lines[i]))
    cases = []
    i = first(lambda l: l["ev"] == "DocStoreUpdated")
    cases.append(("corrupt DocStoreUpdated.tok (stored text of an older version)", i, "set", ("tok", lines[0]["docs"][lines[i]["d"]]), i))
    i = first(lambda l: l["ev"] == "ApplyBegin", len(lines) // 3)
    cases.append(("corrupt ApplyBegin.free (guard still held)", i, "set", ("free", False), i))
    i = first(lambda l: l["ev"] == "ReadVfs", len(lines) // 2)
    cases.append(("corrupt ReadVfs.tok", i, "set", ("tok", "d1#0"), i))
    i = first(lambda l: l["ev"] == "ApplyEnd", len(lines) // 3)
    main = ("Spawn", "DocStoreUpdated", "ApplyBegin", "ApplyEnd", "DiagEmit", "Publish", "Quiesce")
    nxt = next(j for j in range(i + 1, len(lines)) if lines[j]["ev"] in main)
    cases.append(("drop one ApplyEnd event (rejected at the main loop's next event)", i, "drop", None, nxt - 1))
    i = first(lambda l: l["ev"] == "TaskStart", len(lines) // 2)
    nxt = next(j for j in range(i + 1, len(lines)) if lines[j].get("t") == lines[i]["t"])
    cases.append(("drop one TaskStart event (rejected at the task's next event)", i, "drop", None, nxt - 1))
    i = first(lambda l: l["ev"] == "Publish", len(lines) // 2)
    cases.append(("drop one Publish event", i, "drop", None, None))
    report = []
    for (what, i, op, arg, expect) in cases:
        r2 = copy.copy(r)
        r2.lines = copy.deepcopy(lines)
        if op == "set":
            r2.lines[i][arg[0]] = arg[1]
        else:
            del r2.lines[i]
        verdict, bad = validate(out, [r2], "self1", report=False)
        ok = verdict[0] == "rejected" and (expect is None or bad == expect + 1)
        report.append({"mutation": what, "line": i + 1, "verdict": verdict[0], "rejected_at": bad, "as_expected": ok})
        vlib.log("selftest:", json.dumps(report[-1]))
        if not ok:
            raise vlib.ToolError("selftest: trace mutation not rejected where expected: " + json.dumps(report[-1]))
    out.cov["selftest"] = report


def run(out, tier, seed):
    if os.environ.get("VERIF_SELFTEST"):
        selftest(out, seed)
        return
    mc(out, tier)
    nsess = 60 if tier == "quick" else 2000
    chunk = 60 if tier == "quick" else 100
    tot = {"acc": 0, "lines": 0, "req": 0, "edit": 0}

    def check_chunk(c0, results):
        todo = [r for r in results if len(r.lines) > 1]
        k = 0
        # a rejected session stops the validation of the file: validate the rest again without it
        while todo:
            verdict, bad = validate(out, todo, f"{c0}-{k}")
            tot["acc"] += sum(1 for v in verdict.values() if v == "accepted")
            todo = [r for r in todo if verdict[r.sid] == "unchecked"]
            k += 1
        for r in results:                      # what the driver saw itself (hangs, divergence, diagnostics content)
            for f, dt in r.problems:
                if f.get("oracle") == "content" and dt.get("doc") in r.trace_cause:
                    f = dict(f, cause=r.trace_cause[dt["doc"]])
                out.report(f, dt)
            report_answers(out, r)
        tot["answers"] = tot.get("answers", 0) + sum(len(r.cm) for r in results)
        tot["lines"] += sum(len(r.lines) for r in results)
        tot["req"] += sum(r.nreq for r in results)
        tot["edit"] += sum(r.nedit for r in results)

    # TLC (one worker) validates chunk k while the sessions of chunk k+1 run
    with ThreadPoolExecutor(2) as pool:
        futs = []
        for c0 in range(0, nsess, chunk):
            sids = list(range(c0, min(nsess, c0 + chunk)))
            results = run_sessions(out, seed, sids, tier, f"{c0}", jobs=8, report=False)
            if c0 == 0:
                out.cov["samples"] += results[0].lines[1:7]
            futs.append(pool.submit(check_chunk, c0, results))
            if sum(1 for r in results if r.hung) >= 3:
                break                          # the server hangs: established, reported by check_chunk
        for f in futs:
            f.result()
    n_acc, n_lines, n_req, n_edit = tot["acc"], tot["lines"], tot["req"], tot["edit"]
    f18_probe(out, seed)
    overtaken_sweep(out, seed, tier)
    out.cov["traces_validated_against_impl"] += n_acc
    out.cov["evaluations"] += n_req + n_edit
    out.cov["distinct_nontrivial"] += n_acc
    out.cov["trace_lines"] = n_lines
    out.cov["ok_answers_compared_with_reference"] = tot.get("answers", 0)
    out.cov["exhaustive"] = False
    out.cov["rule"] = ("%d seeded sessions of the real server (GLAS_VERIF_SCHED delays, GLAS_VERIF_TRACE events): 6-10 rounds, each a shuffled "
                       "burst of 0-3 didChange and 1-8 requests (11 kinds) written in 1, 2 or n chunks on 1-2 documents of 2-5 kB; %d requests, "
                       "%d edits, %d merged trace lines validated by TLC against Trace_Server (probed lock state / store content at every "
                       "event, no apply completes while a snapshot lives, one response per request, text convergence at quiescence; "
                       "NoMixture and diagnostics provenance reported by monitors); plus the driver's own checks (deadline %ds per request, "
                       "publishDiagnostics stream = hook stream, diagnostics content oracle, every ok answer compared with a quiet sequential "
                       "reference server for the workspace it was issued against, exit status), one F18 probe (24 simultaneous "
                       "requests) and the overtaken-request sweep on a ~100 kB document (edit moment swept across the latency of each request "
                       "kind, settled answers compared with a sequential reference). non-trivial = accepted sessions" % (nsess, n_req, n_edit, n_lines, int(DEADLINE)))
    out.assumptions += ["hook events carry probed state; their global sequence number orders them; TaskReturn is logged after the snapshot "
                        "was dropped, so the trace spec lets T_Return happen earlier than its line",
                        "the final text is read back through glas/syntaxTree (rowan abbreviates tokens >= 25 bytes: prefix compared) and "
                        "through the fingerprints of the stored text", "TLC/SANY, Json/IOUtils modules"]


def replay(out, path):
    d = json.load(open(path))["detail"]
    if "nvar" in d:
        # an overtaken request on the large document: a race - the sweep is run again, finer
        os.environ.setdefault("OVT_SCALE", "3")
        overtaken_sweep(out, int(d.get("seed") or 1), "quick")
        return
    if "sid" not in d:
        f18_probe(out, 1)
        return
    base = vlib.workdir("c16-replay")
    r = run_session(base, d["sid"], d["seed"], bool(d.get("two_docs")), int(d.get("rounds") or 8))
    r.two_docs, r.rounds = d.get("two_docs"), d.get("rounds")
    if len(r.lines) > 1:
        validate(out, [r], "replay")
    for f, dt in r.problems:
        if f.get("oracle") == "content" and dt.get("doc") in r.trace_cause:
            f = dict(f, cause=r.trace_cause[dt["doc"]])
        out.report(f, dt)
    report_answers(out, r)
    out.cov["traces_validated_against_impl"] += 1
