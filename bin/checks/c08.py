"""C08 - rename refuses invalid names, foreign symbols and ambiguous spellings.
Spec: RenameGate.tla - the decision table Accept(kind, name, locality, throughAlias) with names defined character by
character, PrepareAccept <=> exists valid name: RenameAccept, no edit outside local packages.
MC: TLC enumerates every (occurrence, locality, candidate name) of the table and checks the theorems in every state.
GEN: every row is replayed into ide::Analysis::{prepare_rename, rename} on a three-package workspace (app, a path
dependency, a build/packages dependency) built like server.rs::assemble_graph builds it; a handful of locality rows
are replayed end to end through the real server (textDocument/prepareRename, textDocument/rename) on three workspace
shapes: the dependency named by version or by a path entry x living under build/packages or next to app (locality is
decided by the directory alone: `dep = { path = "build/packages/dep" }` names a non-local package).  The same gate is
swept over every generated project layout by C17 (c17.py)."""
import json, os, random
import vlib

KEYWORDS = ["as", "assert", "case", "const", "external", "fn", "if", "import", "let", "opaque", "panic", "pub", "todo",
            "type", "use"]
SYM = {" ": "SP", "\t": "TAB", "\n": "NL", '"': "QUOTE", "\\": "BACKSLASH"}
LOWER = "abcdefghijklmnopqrstuvwxyz"
UPPER = LOWER.upper()
DIGIT = "0123456789"
CURSORS = ["start", "mid", "end"]
NONASCII = "\u00e9\u00df\u00f1\u00fc\u540d\u5b57\u03bb\u0436\u03a9\u00a0\u2003\uff41\uff21\U0001f642"


def chars(s):
    out = []
    for ch in s:
        if ch in SYM:
            out.append(SYM[ch])
        elif ord(ch) > 126 or ord(ch) < 32:
            out.append("U+%04X" % ord(ch))
        else:
            out.append(ch)
    return out


def unchars(cs):
    inv = {v: k for k, v in SYM.items()}
    return "".join(inv[c] if c in inv else (chr(int(c[2:], 16)) if c.startswith("U+") else c) for c in cs)


def extra_candidates(seed, per_class):
    """Further spellings per name class.  The labels are claims: RenameGate's ASSUME re-derives lower/upper/keyword/empty
    from the characters and TLC stops (tool error) on a wrong label."""
    rnd = random.Random(seed * 7919 + 17)
    pick = lambda alphabet, lo, hi: "".join(rnd.choice(alphabet) for _ in range(rnd.randint(lo, hi)))

    def lower():
        while True:
            s = rnd.choice(LOWER) + pick(LOWER + DIGIT + "_", 0, 9)
            if s not in KEYWORDS:
                return s

    upper = lambda: rnd.choice(UPPER) + pick(LOWER + UPPER + DIGIT, 0, 9)
    ws = lambda: pick(" \t\n", 1, 3)
    ops = ["+", "-", "*", "/", "%", "+.", "-.", "*.", "/.", "<", ">", "<=", ">=", "==", "!=", "<.", ">.", "<=.", ">=.", "&&", "||",
           "!", "|>", "<>", "|", "->", "<-", "=", "..", "<<", ">>"]
    gens = {
        "lower": lower,
        "upper": upper,
        "bad_ident": lambda: lower() + rnd.choice(UPPER) + pick(LOWER + UPPER + DIGIT + "_", 0, 4),
        "bad_upper": lambda: upper() + "_" + pick(LOWER + UPPER + DIGIT + "_", 0, 4),
        "discard": lambda: "_" + pick(LOWER + DIGIT + "_", 0, 6),
        "int": lambda: rnd.choice(DIGIT) + pick(DIGIT + "_", 0, 6),
        "float": lambda: rnd.choice(DIGIT) + pick(DIGIT, 0, 3) + "." + pick(DIGIT, 1, 4) + rnd.choice(["", "e3", "e-2"]),
        "string": lambda: '"' + pick(LOWER + UPPER + " _", 0, 6) + '"',
        "two_tokens": lambda: rnd.choice([lower, upper])() + rnd.choice([" ", "\t", "\n", ".", ",", "(", "-", "  "]) + rnd.choice([lower, upper])(),
        "lead_space": lambda: ws() + rnd.choice([lower, upper])(),
        "trail_space": lambda: rnd.choice([lower, upper])() + ws(),
        "comment": lambda: rnd.choice(["", lower(), upper()]) + rnd.choice(["//", "///", "////"]) + pick(LOWER + " ", 0, 5),
        "nonascii": lambda: rnd.choice(["", lower(), upper()]) + rnd.choice(NONASCII) + rnd.choice(["", lower(), pick(LOWER + DIGIT, 0, 3)]),
        "other": lambda: rnd.choice(["", lower(), upper()]) + rnd.choice("$?'~^`;&") + rnd.choice(["", lower()]),
        "whitespace": ws,
        # an operator glued to an identifier is not one token either
        "op_arith": lambda: rnd.choice([lower(), upper(), ""]) + rnd.choice(ops) + rnd.choice([lower(), upper()]),
        "punct": lambda: rnd.choice([lower(), upper(), ""]) + rnd.choice("(){}[],:.#@") + rnd.choice([lower(), upper()]),
    }
    out, seen = [], set()
    for cls in sorted(gens):
        n = 0
        for _ in range(per_class * 20):
            if n >= per_class:
                break
            s = gens[cls]()
            if s in seen or s in KEYWORDS or s == "":
                continue
            # keep the labels honest for the two classes the specification derives from the characters
            is_lower = s[0] in LOWER and all(c in LOWER + DIGIT + "_" for c in s[1:])
            is_upper = s[0] in UPPER and all(c in LOWER + UPPER + DIGIT for c in s[1:])
            if (cls == "lower") != is_lower or (cls == "upper") != is_upper:
                continue
            seen.add(s)
            out.append({"class": cls, "chars": chars(s)})
            n += 1
    return out


def harness_rows(out, rows, seed):
    d = vlib.workdir("c08")
    path = os.path.join(d, "rows.ndjson")
    with open(path, "w") as f:
        for c in rows:
            f.write(json.dumps(c) + "\n")
    p = vlib.run_bin("renamegate", stdin_path=path, env={"VERIF_SEED": str(seed)})
    if p.returncode != 0:
        raise vlib.ToolError("renamegate replay failed: " + p.stderr.decode()[-2000:])
    summary = None
    for r in vlib.json_lines(p.stdout):
        if r["kind"] == "mismatch":
            out.report(r["features"], r["detail"])
        elif r["kind"] == "summary":
            summary = r
    if summary is None:
        raise vlib.ToolError("renamegate printed no summary")
    out.cov["traces_validated_against_impl"] += summary["cases"]
    out.cov["evaluations"] += summary["checks"]
    out.cov["distinct_nontrivial"] += summary["distinct_nontrivial"]
    out.cov["samples"] += summary["samples"]
    return summary


# ------------------------------------------------------------------------------------------------------------------
# end to end: the locality rows through the real server

APP = """import dep
import util

pub fn main() -> Int {
  dep.f() + util.helper()
}
"""
UTIL = """pub fn helper() -> Int {
  1
}
"""
DEP = """pub fn f() -> Int {
  g()
}

fn g() -> Int {
  2
}
"""


def position(text, needle, off):
    i = text.index(needle)
    assert text.count(needle) == 1
    i += off
    line = text.count("\n", 0, i)
    col = i - (text.rfind("\n", 0, i) + 1)
    return {"line": line, "character": col}


def edited_uris(result):
    uris = set()
    if not result:
        return uris
    for u, edits in (result.get("changes") or {}).items():
        if edits:
            uris.add(u)
    for dc in result.get("documentChanges") or []:
        if "textDocument" in dc and dc.get("edits"):
            uris.add(dc["textDocument"]["uri"])
    return uris


# How app's gleam.toml names the dependency (entry) x where the dependency's directory is (place).  Locality is decided by
# the place alone (RenameGate: "registry" = lives under build/packages, non-local; anything else is local), whatever the
# entry says: a `path` entry pointing into build/packages names a non-local package.  (A version entry means
# <root>/build/packages/<name> by definition, so version x sibling does not denote a project.)
E2E_SHAPES = [("version", "packages"), ("path", "packages"), ("path", "sibling")]


def end_to_end(out, seed):
    n = 0
    for entry, place in E2E_SHAPES:
        n += end_to_end_shape(out, seed, entry, place)
    return n


def end_to_end_shape(out, seed, entry, place):
    """app (local) depends on dep, which lives in app/build/packages/dep (non-local) or next to app (local) and is named by
    a version requirement or by a path entry.  Rows: the dependency's function queried at its use in app and at its
    definition / a private function inside the dependency's own file: error and no edits when dep is non-local, accepted
    otherwise.  A function of app queried the same way: accepted, edits only below app/src.  No edit below build/packages,
    ever.  One request at a time."""
    import lsp
    base = vlib.workdir("c08-e2e-%s-%s" % (entry, place))
    root = os.path.join(base, "app")
    depdir = os.path.join(root, "build", "packages", "dep") if place == "packages" else os.path.join(base, "dep")
    os.makedirs(os.path.join(root, "src"))
    os.makedirs(os.path.join(depdir, "src"))
    spec = '"1.0.0"' if entry == "version" else '{ path = "%s" }' % os.path.relpath(depdir, root)
    dep_locality = "registry" if place == "packages" else "path"
    dep_ok = dep_locality != "registry"
    files = {
        os.path.join(root, "gleam.toml"): 'name = "app"\nversion = "0.1.0"\n\n[dependencies]\ndep = %s\n' % spec,
        os.path.join(root, "src", "app.gleam"): APP,
        os.path.join(root, "src", "util.gleam"): UTIL,
        os.path.join(depdir, "gleam.toml"): 'name = "dep"\nversion = "1.0.0"\n',
        os.path.join(depdir, "src", "dep.gleam"): DEP,
    }
    for p, t in files.items():
        open(p, "w").write(t)
    app, util, dep = (os.path.join(root, "src", "app.gleam"), os.path.join(root, "src", "util.gleam"),
                      os.path.join(depdir, "src", "dep.gleam"))
    rnd = random.Random(seed)
    good = rnd.choice(["renamed", "zz", "new_name1", "h2"])
    # (row id, file, text, needle, offset, locality, site, new name, class, expect accept)
    rows = [
        ("dep_fn_at_use", app, APP, "dep.f()", 4, dep_locality, "use", good, "lower", dep_ok),
        ("dep_fn_at_def", dep, DEP, "fn f()", 3, dep_locality, "def", good, "lower", dep_ok),
        ("dep_private_fn_at_use", dep, DEP, "  g()", 2, dep_locality, "use", good, "lower", dep_ok),
        ("local_fn_at_use", app, APP, "util.helper()", 5, "same", "use", good, "lower", True),
        ("local_fn_at_def", util, UTIL, "fn helper()", 3, "same", "def", good, "lower", True),
        ("local_fn_keyword", app, APP, "util.helper()", 5, "same", "use", rnd.choice(KEYWORDS), "keyword", False),
        ("local_fn_upper", app, APP, "util.helper()", 5, "same", "use", "Helper", "upper", False),
        ("local_fn_two_tokens", app, APP, "util.helper()", 5, "same", "use", "a b", "two_tokens", False),
        ("local_fn_empty", app, APP, "util.helper()", 5, "same", "use", "", "empty", False),
        ("module_qualifier", app, APP, "dep.f()", 0, dep_locality, "use", good, "lower", False),
    ]
    # a second project of the same session (its files are opened too) that depends on a package of the SAME name, with its own
    # copy below its own build/packages: that copy is a downloaded package like the first one
    beta_files = {}
    if place == "packages":
        broot = os.path.join(base, "beta")
        bdep = os.path.join(broot, "build", "packages", "dep")
        os.makedirs(os.path.join(broot, "src"))
        os.makedirs(os.path.join(bdep, "src"))
        BETA = "import dep\n\npub fn b() {\n  dep.f()\n}\n"
        beta, dep2 = os.path.join(broot, "src", "beta.gleam"), os.path.join(bdep, "src", "dep.gleam")
        beta_files = {os.path.join(broot, "gleam.toml"): 'name = "beta"\nversion = "0.1.0"\n\n[dependencies]\ndep = "1.0.0"\n',
                      beta: BETA, os.path.join(bdep, "gleam.toml"): 'name = "dep"\nversion = "1.0.0"\n', dep2: DEP}
        for p, t in beta_files.items():
            open(p, "w").write(t)
        rows += [
            ("dep2_fn_at_use", beta, BETA, "dep.f()", 4, dep_locality, "use", good, "lower", False),
            ("dep2_fn_at_def", dep2, DEP, "fn f()", 3, dep_locality, "def", good, "lower", False),
            ("dep2_private_fn_at_use", dep2, DEP, "  g()", 2, dep_locality, "use", good, "lower", False),
        ]
    sess = lsp.Session(root, stderr_path=os.path.join(base, "stderr.log"))
    n = 0
    try:
        if sess.initialize() is None:
            raise vlib.ToolError("server did not answer initialize")
        sess.did_open(app, APP)
        sess.wait_quiet(0.5, 10)
        sess.did_open(dep, DEP)
        sess.did_open(util, UTIL)
        sess.wait_quiet(0.5, 10)
        if beta_files:
            sess.did_open(beta, BETA)
            sess.wait_quiet(0.5, 10)
            sess.did_open(dep2, DEP)
            sess.wait_quiet(0.5, 10)
        # the workspace must be loaded, otherwise every refusal below would be vacuous: the dependency's function resolves
        r = sess.request("textDocument/definition", {"textDocument": {"uri": lsp.uri(app)}, "position": position(APP, "dep.f()", 4)})
        res = (r or {}).get("result")
        loc = res[0] if isinstance(res, list) and res else res
        target = (loc or {}).get("uri") or (loc or {}).get("targetUri") if isinstance(loc, dict) else None
        # (compared after lexical normalisation: a path dependency next to app is reported as app/../dep/..., finding C17-F2)
        if not target or os.path.normpath(target[len("file://"):]) != dep:
            raise vlib.ToolError("end-to-end workspace (%s, %s) not resolved (goto-definition of dep.f gave %r)" % (entry, place, r))
        # the table is asked twice: once the workspace is loaded, and again after the project's gleam.toml was opened in the
        # editor - the server then assembles its package graph a second time, from all the roots it knows by now (the
        # decision table does not depend on how often that happened)
        toml = os.path.join(root, "gleam.toml")
        for phase, (rid, path, text, needle, off, locality, site, new, cls, accept) in [(ph, r) for ph in ("loaded", "after_toml_open") for r in rows]:
            if phase == "after_toml_open" and rid == rows[0][0]:
                sess.did_open(toml, files[toml])
                sess.wait_quiet(0.5, 10)
            tdp = {"textDocument": {"uri": lsp.uri(path)}, "position": position(text, needle, off)}
            kind = "module" if rid == "module_qualifier" else "function"
            feats = lambda what, api: {"what": what, "kind": kind, "name_class": cls, "locality": locality, "site": site, "api": api,
                                       "via": "qualified" if site == "use" and path == app else "direct", "occ": "e2e." + rid, "level": "server",
                                       "dep_entry": entry, "dep_place": place, "phase": phase}
            detail = lambda got: {"e2e": True, "row": rid, "dep_entry": entry, "dep_place": place, "new_name": new, "got": got, "seed": seed}
            pr = sess.request("textDocument/prepareRename", tdp)
            rr = sess.request("textDocument/rename", dict(tdp, newName=new))
            n += 2
            if pr is None or rr is None or not sess.alive():
                out.report(feats("no_answer", "rename"), detail({"prepare": pr, "rename": rr, "exit": sess.exit_code()}))
                break
            p_ok = "error" not in pr and pr.get("result") is not None
            r_ok = "error" not in rr and rr.get("result") is not None
            uris = edited_uris(rr.get("result"))
            valid = cls == "lower"
            if valid and p_ok != accept:
                out.report(feats("accepted" if p_ok else "rejected", "prepare"), detail(pr))
            if r_ok != accept:
                out.report(feats("accepted" if r_ok else "rejected", "rename"), detail(rr))
            if "error" in rr and rr.get("result"):
                out.report(feats("error_with_edits", "rename"), detail(rr))
            for u in sorted(uris):
                if "/build/packages/" in os.path.normpath(u[len("file://"):]):
                    out.report(feats("edit_in_dependency", "rename"), detail(rr))
                    break
            if r_ok and accept and not uris:
                out.report(feats("accepted_without_edits", "rename"), detail(rr))
            if valid and p_ok != r_ok:
                out.report(feats("prepare_rename_disagree", "prepare" if r_ok else "rename"), detail({"prepare": pr, "rename": rr}))
    finally:
        sess.close()
    out.cov["traces_validated_against_impl"] += 2 * len(rows)
    out.cov["evaluations"] += n
    return 2 * len(rows)


# ------------------------------------------------------------------------------------------------------------------

def gate_rows(out, seed, per_class, coverage=True):
    d = vlib.workdir("c08-extra")
    extra = extra_candidates(seed, per_class)
    xp = os.path.join(d, "extra.ndjson")
    with open(xp, "w") as f:
        for e in extra:
            f.write(json.dumps(e) + "\n")
    r = vlib.tlc("RenameGate", "RenameGate.cfg", workers=8, timeout=1500, coverage=coverage, heap="4g", env={"C08_EXTRA": xp})
    vlib.require_ok(r, "RenameGate")
    out.add_tlc(r, "MC PrepareIffRename/NoForeignEdit/EachReasonSuffices + GEN rows (%d seeded extra names)" % len(extra))
    rows = list(r.cases())
    dom = list(r.cases("DOMAIN"))
    if len(dom) != 1:
        raise vlib.ToolError("RenameGate printed no DOMAIN line")
    dom = dom[0]
    # vacuity: every action fired, every kind / class / locality / via / occurrence of the specification occurs in a row
    if coverage:
        acts = {k: v for k, v in r.coverage.items() if k.startswith("Place") or k.startswith("Ask")}
        if len(acts) < 30:
            raise vlib.ToolError("coverage of RenameGate lists only %d Place/Ask actions" % len(acts))
        dead = sorted(k for k, v in acts.items() if v == 0)
        if dead:
            raise vlib.ToolError("RenameGate actions never fired: %s" % dead)
    for key, col in [("kinds", "kind"), ("classes", "class"), ("localities", "locality"), ("vias", "via"), ("occurrences", "occ")]:
        missing = set(dom[key]) - {row[col] for row in rows}
        if missing:
            raise vlib.ToolError("RenameGate rows never visit %s %s" % (key, sorted(missing)))
    if len(rows) != len(dom["occurrences"]) * len(dom["localities"]) * dom["candidates"]:
        raise vlib.ToolError("RenameGate emitted %d rows, expected the full product" % len(rows))
    # the occurrence table of the specification is the one of the harness
    p = vlib.run_bin("renamegate", ["--list"])
    have = json.loads(p.stdout.decode())
    if sorted(o["id"] for o in have["occurrences"]) != sorted(dom["occurrences"]) or sorted(have["localities"]) != sorted(dom["localities"]):
        raise vlib.ToolError("occurrence tables of RenameGate.tla and renamegate.rs differ")
    spec_occ = {(row["occ"], row["kind"], row["via"], row["site"]) for row in rows}
    if spec_occ != {(o["id"], o["kind"], o["via"], o["site"]) for o in have["occurrences"]}:
        raise vlib.ToolError("occurrence attributes of RenameGate.tla and renamegate.rs differ")
    return rows, dom, extra


def run(out, tier, seed):
    if os.environ.get("C08_PART") == "e2e":      # machinery tests only: the end-to-end rows alone
        end_to_end(out, seed)
        return
    per_class = 2 if tier == "quick" else 40
    rows, dom, extra = gate_rows(out, seed, per_class)
    # where inside the identifier the cursor is does not enter the decision (assumption of the specification): quick draws one
    # of start / middle / end per (occurrence, locality) from the seed, thorough replays every row at all three
    rnd = random.Random(seed)
    if tier == "quick":
        pick = {}
        for row in rows:
            k = (row["occ"], row["locality"])
            if k not in pick:
                pick[k] = rnd.choice(CURSORS)
            row["cursor"] = pick[k]
    else:
        rows = [dict(row, cursor=c) for c in CURSORS for row in rows]
    s = harness_rows(out, rows, seed)
    if s["accepted_renames"] < 100 or s["agreement_groups"] < len(dom["occurrences"]) * len(dom["localities"]):
        raise vlib.ToolError("replay is vacuous: %r" % {k: s[k] for k in ("accepted_renames", "agreement_groups")})
    e2e = end_to_end(out, seed)
    out.cov["exhaustive"] = True
    out.cov["table"] = {"occurrences": len(dom["occurrences"]), "kinds": len(dom["kinds"]), "name_classes": len(dom["classes"]),
                        "candidate_names": dom["candidates"], "seeded_extra_names": len(extra), "localities": len(dom["localities"]),
                        "rows": len(rows), "cursor_positions": 1 if tier == "quick" else 3, "accepted_renames": s["accepted_renames"], "end_to_end_rows": e2e}
    out.cov["rule"] = ("TLC enumerates every (symbol occurrence, locality, candidate name) of RenameGate: %d occurrences of %d kinds "
                       "(definition and use sites; direct, qualified, unqualified, alias and module-alias spellings) x 3 localities "
                       "(same package, path dependency, build/packages dependency) x %d candidate names of %d classes (%d of them "
                       "drawn from VERIF_SEED), cursor at the start, middle or end of the identifier = %d rows; every row is replayed into ide::Analysis::prepare_rename / rename and "
                       "compared with the predicted accept/reject, accepted edits must be whole identifier tokens in files of "
                       "local packages carrying exactly the new name, prepare must agree with rename-with-a-valid-name per "
                       "(occurrence, locality); %d rows through the real server.  distinct_nontrivial = rows whose predicted "
                       "answer is a refusal and whose name is not the empty string"
                       % (len(dom["occurrences"]), len(dom["kinds"]), dom["candidates"], len(dom["classes"]), len(extra), len(rows), e2e))
    out.assumptions += [
        "names are sequences of characters; 'identifier token' is defined in RenameGate (IsLowerName/IsUpperName/Keywords), the 15 keywords are those of glas' lexer",
        "local = not under build/packages, exactly as server.rs::assemble_graph computes is_local; the harness passes that flag to PackageGraph::add_package",
        "the property never obliges rename to accept: for occurrences outside Supported (list-spread binder, type variables, function labels, m.constant, non-symbols) only prepare/rename agreement, refusal of invalid requests and edit locality are checked",
        "the decision does not depend on where inside the identifier the cursor is (replayed at start / middle / end; quick: one of them per occurrence by seed)",
        "TLC/SANY, Json and IOUtils modules",
    ]


def replay(out, path):
    d = json.load(open(path))["detail"]
    if d.get("e2e"):
        if d.get("dep_entry"):
            end_to_end_shape(out, d.get("seed", 1), d["dep_entry"], d["dep_place"])
        else:
            end_to_end(out, d.get("seed", 1))
        return
    row = d["row"]
    if d.get("agreement"):
        # prepare/rename disagreement of one (occurrence, locality): re-run that group with a valid name of each class
        rows = []
        for cls, cs in [("lower", ["z", "z"]), ("upper", ["Z", "z"])]:
            r = dict(row, **{"class": cls, "chars": cs})
            r["valid"] = row["req"] in ("none", cls)
            r["ren"] = row["prep"] if r["valid"] else "reject"
            rows.append(r)
        harness_rows(out, rows, 1)
    else:
        harness_rows(out, [row], 1)
