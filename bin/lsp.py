"""Minimal black-box LSP client for driving the real glas server binary over stdio."""
import json, os, subprocess, threading, time, queue
import vlib

SERVER = os.path.join(vlib.BIN, "glas_verif_server")


def uri(path):
    from urllib.parse import quote
    return "file://" + quote(path)


class Session:
    def __init__(self, root, env=None, stderr_path=None, caps=None):
        e = dict(os.environ)
        e["PATH"] = "/nonexistent-bin:" + e.get("PATH", "")
        e["GLEAM_PATH"] = "/nonexistent/gleam"
        e.update(env or {})
        self.stderr_path = stderr_path
        self.errf = open(stderr_path, "wb") if stderr_path else subprocess.DEVNULL
        self.p = subprocess.Popen([SERVER], stdin=subprocess.PIPE, stdout=subprocess.PIPE, stderr=self.errf,
                                  cwd=root, env=e)
        self.root = root
        self.next_id = 1
        self.responses = {}
        self.resp_count = {}
        self.notifications = []
        self.cv = threading.Condition()
        self.eof = False
        self.log = []          # (seq, direction, message) in arrival/sending order
        self.seq = 0
        self.t = threading.Thread(target=self._reader, daemon=True)
        self.t.start()
        self.caps = caps or {}

    # ---- wire
    def _send(self, msg):
        data = json.dumps(msg).encode()
        with self.cv:
            self.seq += 1
            self.log.append((self.seq, "c2s", msg))
        try:
            self.p.stdin.write(b"Content-Length: %d\r\n\r\n" % len(data) + data)
            self.p.stdin.flush()
            return True
        except (BrokenPipeError, OSError):
            return False

    def send_batch(self, msgs, chunks=1, gap=0.0):
        """Write several messages back to back (one write per chunk), so that they queue up in the server's stdin.
        `msgs` are complete JSON-RPC objects; requests must carry their own ids (see new_id)."""
        bufs = []
        with self.cv:
            for m in msgs:
                self.seq += 1
                self.log.append((self.seq, "c2s", m))
                data = json.dumps(m).encode()
                bufs.append(b"Content-Length: %d\r\n\r\n" % len(data) + data)
        chunks = max(1, min(chunks, len(bufs)))
        per = -(-len(bufs) // chunks)
        try:
            for i in range(0, len(bufs), per):
                self.p.stdin.write(b"".join(bufs[i:i + per]))
                self.p.stdin.flush()
                if gap:
                    time.sleep(gap)
            return True
        except (BrokenPipeError, OSError):
            return False

    def new_id(self):
        i = self.next_id
        self.next_id += 1
        return i

    def _reader(self):
        f = self.p.stdout
        while True:
            n = None
            while True:
                line = f.readline()
                if not line:
                    with self.cv:
                        self.eof = True
                        self.cv.notify_all()
                    return
                line = line.strip()
                if not line:
                    break
                if line.lower().startswith(b"content-length:"):
                    n = int(line.split(b":")[1])
            body = f.read(n)
            try:
                msg = json.loads(body)
            except Exception:
                continue
            with self.cv:
                self.seq += 1
                self.log.append((self.seq, "s2c", msg))
                if "id" in msg and "method" not in msg:
                    self.responses[msg["id"]] = msg
                    self.resp_count[msg["id"]] = self.resp_count.get(msg["id"], 0) + 1
                elif "id" in msg and "method" in msg:
                    # server -> client request: answer generically
                    res = None
                    if msg["method"] == "workspace/configuration":
                        res = [None for _ in msg.get("params", {}).get("items", [])]
                    threading.Thread(target=self._send, args=({"jsonrpc": "2.0", "id": msg["id"], "result": res},),
                                     daemon=True).start()
                else:
                    self.notifications.append(msg)
                self.cv.notify_all()

    # ---- protocol
    def notify(self, method, params):
        return self._send({"jsonrpc": "2.0", "method": method, "params": params})

    def send_request(self, method, params):
        i = self.next_id
        self.next_id += 1
        self._send({"jsonrpc": "2.0", "id": i, "method": method, "params": params})
        return i

    def wait(self, i, timeout=20.0):
        """response for id i, or None on timeout / EOF"""
        end = time.time() + timeout
        with self.cv:
            while i not in self.responses:
                if self.eof:
                    return None
                left = end - time.time()
                if left <= 0:
                    return None
                self.cv.wait(left)
            return self.responses[i]

    def request(self, method, params, timeout=20.0):
        return self.wait(self.send_request(method, params), timeout)

    def initialize(self, timeout=20.0, encodings=None):
        """`encodings`: the client's general.positionEncodings (LSP 3.17), in order of preference; None = not sent.
        Afterwards self.enc is the encoding both sides have to use: the server's capabilities.positionEncoding if it is one the
        client offered, otherwise the protocol's default utf-16."""
        caps = json.loads(json.dumps(self.caps))
        if encodings:
            caps.setdefault("general", {})["positionEncodings"] = list(encodings)
        r = self.request("initialize", {"processId": None, "rootUri": uri(self.root), "capabilities": caps}, timeout)
        self.enc = "utf-16"
        self.enc_announced = None
        if r and isinstance(r.get("result"), dict):
            self.enc_announced = (r["result"].get("capabilities") or {}).get("positionEncoding")
            if self.enc_announced is not None:
                self.enc = self.enc_announced
        self.notify("initialized", {})
        return r

    def alive(self):
        return self.p.poll() is None and not self.eof

    def exit_code(self):
        return self.p.poll()

    def did_open(self, path, text, version=1):
        self.notify("textDocument/didOpen", {"textDocument": {"uri": uri(path), "languageId": "gleam",
                                                               "version": version, "text": text}})

    def did_change(self, path, changes, version=2):
        self.notify("textDocument/didChange", {"textDocument": {"uri": uri(path), "version": version},
                                                "contentChanges": changes})

    def syntax_tree(self, path, timeout=20.0):
        return self.request("glas/syntaxTree", {"textDocument": {"uri": uri(path)}}, timeout)

    def diagnostics_for(self, path):
        u = uri(path)
        with self.cv:
            return [n["params"] for n in self.notifications
                    if n.get("method") == "textDocument/publishDiagnostics" and n["params"]["uri"] == u]

    def wait_quiet(self, quiet=0.3, timeout=10.0):
        """wait until no message has arrived for `quiet` seconds"""
        end = time.time() + timeout
        with self.cv:
            last = self.seq
        t_last = time.time()
        while time.time() < end:
            time.sleep(0.05)
            with self.cv:
                if self.seq != last:
                    last, t_last = self.seq, time.time()
            if time.time() - t_last >= quiet:
                return True
        return False

    def close(self, timeout=5.0):
        rc = None
        try:
            if self.alive():
                self.request("shutdown", None, timeout)
                self.notify("exit", None)
                try:
                    rc = self.p.wait(timeout)
                except subprocess.TimeoutExpired:
                    pass
        finally:
            if self.p.poll() is None:
                self.p.kill()
                self.p.wait()
            if self.errf not in (None, subprocess.DEVNULL):
                self.errf.close()
        return rc if rc is not None else self.p.returncode


def tree_text(tree_str):
    """Server text reconstructed from the debug tree of glas/syntaxTree: concatenation of leaf token texts.
    Lines look like `  KIND@a..b "text"` for tokens (rust debug string escaping)."""
    import re, ast
    out = []
    for line in tree_str.split("\n"):
        m = re.match(r'^\s*[A-Z_0-9]+@(\d+)\.\.(\d+) (".*")\s*$', line)
        if m:
            out.append((int(m.group(1)), int(m.group(2)), rust_unescape(m.group(3))))
    return out


def rust_unescape(lit):
    """Inverse of Rust's `{:?}` for str."""
    assert lit[0] == '"' and lit[-1] == '"'
    s = lit[1:-1]
    res = []
    i = 0
    while i < len(s):
        c = s[i]
        if c != "\\":
            res.append(c)
            i += 1
            continue
        n = s[i + 1]
        if n == "n":
            res.append("\n"); i += 2
        elif n == "r":
            res.append("\r"); i += 2
        elif n == "t":
            res.append("\t"); i += 2
        elif n == "0":
            res.append("\0"); i += 2
        elif n in "\\\"'":
            res.append(n); i += 2
        elif n == "u":
            j = s.index("}", i)
            res.append(chr(int(s[i + 3:j], 16))); i = j + 1
        else:
            res.append(n); i += 2
    return "".join(res)
