#!/usr/bin/env python3
"""Regenerates /verif/seeded/README.md from seeded/*/meta.json"""
import glob, json, os
V = os.path.dirname(os.path.dirname(os.path.abspath(__file__)))
rows = []
for f in sorted(glob.glob(os.path.join(V, "seeded", "*", "meta.json"))):
    m = json.load(open(f))
    rows.append((m["id"], m.get("property", m["id"].split("-")[0]), m.get("summary", "").replace("|", "/").replace("\n", " ")[:260],
                 m.get("needs", "").replace("|", "/").replace("\n", " ")[:200], ", ".join(m.get("caught_by_quick_checks", [])), m.get("note", "")))
with open(os.path.join(V, "seeded", "README.md"), "w") as o:
    o.write("# Seeded changes (written by independent sub-agents from the property text only)\n\n"
            "Each directory holds patch.diff, the demonstration (demo.rs / demo.py + RUN.md) and meta.json. Every change compiles, leaves the\n"
            "repository's test suite exactly as on the pristine tree, and its demonstration passes without and fails with the patch\n"
            "(re-confirmed with bin/seedconfirm). `caught by` = quick checks that exit 1 with a VIOLATION line on the patched tree\n"
            "(bin/seedtest = bin/with_repo <worktree> bin/check <id> --tier quick).\n\n"
            "| id | change | needs | caught by | note |\n|---|---|---|---|---|\n")
    for r in rows:
        o.write(f"| {r[0]} | {r[2]} | {r[3]} | {r[4]} | {r[5]} |\n")
    missed_first = sum(1 for r in rows if "missed at first" in r[5])
    o.write(f"\n{len(rows)} changes kept; {len(rows) - missed_first} were caught by the checks as they stood, {missed_first} were missed at first and are caught "
            "after the strengthening described in the note (each strengthening extended the TLA+ generator / seeds, never special-cased the change).\n")
print(len(rows), "rows")
