-------------------------------- MODULE Refs --------------------------------
(***************************************************************************)
(* Monitor for property C06: go-to-definition, find-references and         *)
(* document-highlight are views of one relation.                           *)
(*                                                                         *)
(* Each line of the trace file is the table recorded from the real         *)
(* analysis for one workspace: for every identifier occurrence o           *)
(*   k      its key "file:offset"        f     its file                    *)
(*   name   its spelling                                                   *)
(*   goto   key of the declaration go-to-definition leads to, or "none"    *)
(*   gname  the spelling of that declaration's own name                    *)
(*   hasrefs / refs   whether references answered, and the keys listed     *)
(*   dup    whether the raw answer listed a location twice                 *)
(*   hl     keys listed by document highlight                              *)
(* The monitor steps through the tables and evaluates TableOK on each.     *)
(***************************************************************************)
EXTENDS Naturals, Sequences, FiniteSets, TLC, Json, IOUtils

Rec == ndJsonDeserialize(IOEnv.TRACE)

VARIABLE tr
Init == tr = 1
Next == tr <= Len(Rec) /\ tr' = tr + 1
Spec == Init /\ [][Next]_tr

Occ(t)  == 1..Len(t.occ)
Set(s)  == {s[i] : i \in 1..Len(s)}

\* (i) an occurrence spelled with a declaration's own name is among that declaration's references
\*     exactly when go-to-definition from it leads to that declaration
Inverse(t) ==
    \A i, j \in Occ(t) :
       LET a == t.occ[i]  b == t.occ[j] IN
       (a.hasrefs /\ a.goto # "none" /\ a.name = a.gname /\ b.name = a.gname) =>
          ((b.k \in Set(a.refs)) <=> (b.goto = a.goto))

\* (ii) the declaration's own name is included
SelfIncluded(t) ==
    \A i \in Occ(t) : LET a == t.occ[i] IN
       (a.hasrefs /\ a.goto = a.k) => a.k \in Set(a.refs)

\* (iii) nothing is listed twice
NoDuplicates(t) == \A i \in Occ(t) : ~t.occ[i].dup

\* (iv) asking from any listed occurrence gives the same set
SameFromAnywhere(t) ==
    \A i, j \in Occ(t) :
       LET a == t.occ[i]  b == t.occ[j] IN
       (a.hasrefs /\ b.k \in Set(a.refs) /\ b.name = a.name) => (b.hasrefs /\ Set(b.refs) = Set(a.refs))

\* (v) highlight = the part of the reference set lying in the current file
FileOf(key) == key   \* keys start with "<file>:", compared through the occurrence table below
InFile(t, key, f) == \E i \in Occ(t) : t.occ[i].k = key /\ t.occ[i].f = f
HighlightIsLocalPart(t) ==
    \A i \in Occ(t) : LET a == t.occ[i] IN
       a.hasrefs => Set(a.hl) = {k \in Set(a.refs) : InFile(t, k, a.f)}

TableOK(t) == Inverse(t) /\ SelfIncluded(t) /\ NoDuplicates(t) /\ SameFromAnywhere(t) /\ HighlightIsLocalPart(t)

Checked == tr > 1 => TableOK(Rec[tr - 1])

\* witnesses of a failing conjunct (printed for the driver, which attaches them to the violation)
BadInverse(t) == {<<i, j>> \in Occ(t) \X Occ(t) :
       LET a == t.occ[i]  b == t.occ[j] IN
       /\ a.hasrefs /\ a.goto # "none" /\ a.name = a.gname /\ b.name = a.gname
       /\ ~((b.k \in Set(a.refs)) <=> (b.goto = a.goto))}
BadSelf(t) == {i \in Occ(t) : LET a == t.occ[i] IN a.hasrefs /\ a.goto = a.k /\ a.k \notin Set(a.refs)}
BadDup(t)  == {i \in Occ(t) : t.occ[i].dup}
BadSame(t) == {<<i, j>> \in Occ(t) \X Occ(t) :
       LET a == t.occ[i]  b == t.occ[j] IN
       /\ a.hasrefs /\ b.k \in Set(a.refs) /\ b.name = a.name
       /\ ~(b.hasrefs /\ Set(b.refs) = Set(a.refs))}
BadHl(t)   == {i \in Occ(t) : LET a == t.occ[i] IN a.hasrefs /\ Set(a.hl) # {k \in Set(a.refs) : InFile(t, k, a.f)}}
Witness(t) == [inverse |-> BadInverse(t), self |-> BadSelf(t), dup |-> BadDup(t), same |-> BadSame(t), hl |-> BadHl(t)]
Explain == (tr > 1 /\ ~TableOK(Rec[tr - 1])) => PrintT(<<"FAILED", ToJson([table |-> tr - 1, w |-> Witness(Rec[tr - 1])])>>)

Done == IF TLCGet("stats").diameter = Len(Rec) + 1 THEN TRUE ELSE Print(<<"INCOMPLETE", TLCGet("stats").diameter>>, FALSE)
=============================================================================
