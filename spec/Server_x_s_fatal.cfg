\* EXPECTED VIOLATION: messages outside the grammar (async-lsp terminates the loop)
CONSTANTS
 Docs = {"d1", "d2", "d3", "e", "n", "p", "q", "o", "h", "u", "g"}
 Mode = "seq"
 MaxEdits = 0
 MaxReqs = 2
 MaxInFlight = 1
 ReqKinds = {}
 QueryOutcomes = {"ok", "err"}
 ReadWithLiveVfs = TRUE
 ConvertWithLiveVfs = TRUE
 CancelledDiagPublishesEmpty = TRUE
 RespawnAllDiags = FALSE
 PublishOnlyLatest = FALSE
 HoldVfsAcrossApply = FALSE
 SnapshotInTask = FALSE
 CancelledAnsweredOk = FALSE
 AnsFree = FALSE
 PollWhileWaiting = FALSE
 PreFixF9 = FALSE
 PreFixWDel = FALSE
 ThirdPartyFatal = TRUE
 Gen = "bfs"
 ScriptLen = 2
SPECIFICATION Spec
INVARIANTS Alive
CHECK_DEADLOCK FALSE
