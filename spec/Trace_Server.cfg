\* today's design; Docs/limits large enough for recorded sessions
CONSTANTS
 Docs = {"d1", "d2"}
 Mode = "conc"
 MaxEdits = 1000
 MaxReqs = 2000
 MaxInFlight = 16
 ReqKinds = {"plain", "conv"}
 QueryOutcomes = {"ok", "err"}
 ReadWithLiveVfs = TRUE
 ConvertWithLiveVfs = TRUE
 CancelledDiagPublishesEmpty = TRUE
 RespawnAllDiags = FALSE
 PublishOnlyLatest = FALSE
 HoldVfsAcrossApply = FALSE
 SnapshotInTask = FALSE
 CancelledAnsweredOk = FALSE
 AnsFree = TRUE
 PollWhileWaiting = FALSE
 PreFixF9 = FALSE
 PreFixWDel = FALSE
 ThirdPartyFatal = FALSE
 Gen = "none"
 ScriptLen = 0
SPECIFICATION TSpec
INVARIANTS TypeOK AtMostOneResponse LockDiscipline Alive
POSTCONDITION Accepted
CHECK_DEADLOCK FALSE
