\* vacuity: if snapshot() were possible during apply_change a torn workspace is observable - TLC must find it
CONSTANTS
  Readers = {1, 2}
  Files = {1, 2}
  K = 2
  MaxQ = 2
  ExclusiveHost = FALSE
  ChecksFlag = TRUE
  SyntheticWrite = TRUE
  LastWins = TRUE
  MaxDup = 1
  MaxMeta = 0
SPECIFICATION Spec
INVARIANTS TypeOK Isolation NoTornRead Frozen CancelledOnlyIfPending VersionsDistinct NoIntermediate
CHECK_DEADLOCK TRUE
