CONSTANTS Budget = 1 MaxItems = 1 Sim = FALSE Headers = "base"
  Masked = {}
SPECIFICATION Spec
INVARIANTS PendingInvisible TargetsAreBinders Balanced ScopeDeclarative RenameComplete EmitCase
CHECK_DEADLOCK FALSE
