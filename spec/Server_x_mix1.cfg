\* EXPECTED VIOLATION (F8a, first read): live first read, snapshotted convert
CONSTANTS
 Docs = {"d1"}
 Mode = "conc"
 MaxEdits = 2
 MaxReqs = 2
 MaxInFlight = 2
 ReqKinds = {"plain", "conv"}
 QueryOutcomes = {"ok"}
 ReadWithLiveVfs = TRUE
 ConvertWithLiveVfs = FALSE
 CancelledDiagPublishesEmpty = FALSE
 RespawnAllDiags = TRUE
 PublishOnlyLatest = TRUE
 HoldVfsAcrossApply = FALSE
 SnapshotInTask = FALSE
 CancelledAnsweredOk = FALSE
 AnsFree = FALSE
 PollWhileWaiting = FALSE
 PreFixF9 = FALSE
 PreFixWDel = FALSE
 ThirdPartyFatal = FALSE
 Gen = "none"
 ScriptLen = 0
SPECIFICATION Spec
INVARIANTS NoMixture
CHECK_DEADLOCK FALSE
