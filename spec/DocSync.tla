------------------------------ MODULE DocSync ------------------------------
(***************************************************************************)
(* Text synchronisation between an LSP client (the editor) and glas.       *)
(*                                                                         *)
(* The client owns `client`, a sequence of units over                      *)
(* {ASCII, LF, CRLF, 2-, 3-, 4-byte character}.  It sends didOpen with the *)
(* full text and didChange notifications carrying 1..MaxChanges content    *)
(* changes; each change is either a full replacement or (range, text)      *)
(* where the range is a pair of LSP positions (line, UTF-16 column) valid  *)
(* in the client's text *at the time this change is applied* (changes of   *)
(* one notification are applied in order).                                 *)
(*                                                                         *)
(* The server side is glas' design (server.rs::on_did_change, vfs.rs):     *)
(* the stored text has carriage returns stripped; each change is           *)
(*   position -> boundary of the *stored* text -> splice -> strip CR ->    *)
(*   rebuild the line table.                                               *)
(* If a position does not name a boundary of the stored text the document  *)
(* is forgotten.  Property C13 is the invariant InSync.                    *)
(* The server interprets positions with the table OF its current text      *)
(* (SrvIdx is a function of `server`): the implementation's stored line    *)
(* map must be the line map of its stored text after every change - a      *)
(* refinement obligation the replay checks together with the text.         *)
(*                                                                         *)
(* Every transition prints one CASE line (pre-state, the changes as the    *)
(* client encodes them, the server text expected after every change); in   *)
(* history mode (TrackHist) a whole behaviour is printed when it reaches   *)
(* HistLen notifications.                                                  *)
(***************************************************************************)
EXTENDS Naturals, Sequences, FiniteSets, TLC, Json, IOUtils

CONSTANTS MaxLen,      \* bound on the client's document length (units)
          MaxIns,      \* bound on the inserted text of one change
          MaxChanges,  \* 1 or 2 content changes per notification
          TrackHist,   \* FALSE: per-transition cases (BFS); TRUE: whole histories (simulation)
          HistLen

Units     == {"a", "nl", "crlf", "c2", "c3", "c4"}
IsBreak(u) == u \in {"nl", "crlf"}
Utf16(u)  == IF u = "c4" THEN 2 ELSE 1
Utf8(u)   == CASE u = "c2" -> 2 [] u = "c3" -> 3 [] u = "c4" -> 4 [] u = "crlf" -> 2 [] OTHER -> 1
\* The unit columns are counted in: LSP 3.17 lets client and server negotiate it (general.positionEncodings /
\* capabilities.positionEncoding); without negotiation it is UTF-16.  Environment DOCSYNC_ENC selects the encoding the
\* histories are written for (the driver plays the histories of the encoding the real server agreed to).
Enc       == IF "DOCSYNC_ENC" \in DOMAIN IOEnv THEN IOEnv.DOCSYNC_ENC ELSE "utf-16"
ColLen(u) == CASE Enc = "utf-8" -> Utf8(u) [] Enc = "utf-32" -> 1 [] OTHER -> Utf16(u)

Texts(n)  == UNION {[1..k -> Units] : k \in 0..n}
Forgotten == <<"FORGOTTEN">>            \* not a text: "FORGOTTEN" is not a unit

VARIABLES open, client, server, hist
vars == <<open, client, server, hist>>

-----------------------------------------------------------------------------
(* positions as an LSP client computes them (line break = LF or CRLF)      *)
RECURSIVE Sum16(_, _, _)
Sum16(d, lo, hi) == IF lo > hi THEN 0 ELSE ColLen(d[lo]) + Sum16(d, lo + 1, hi)

LastBreak(d, i) == LET S == {k \in 1..i : IsBreak(d[k])}
                   IN IF S = {} THEN 0 ELSE CHOOSE k \in S : \A j \in S : j <= k
PosOf(d, i) == [l |-> Cardinality({k \in 1..i : IsBreak(d[k])}),
                c |-> Sum16(d, LastBreak(d, i) + 1, i)]

StripCR(d) == [k \in 1..Len(d) |-> IF d[k] = "crlf" THEN "nl" ELSE d[k]]

Splice(d, i, j, t) == SubSeq(d, 1, i) \o t \o SubSeq(d, j + 1, Len(d))

\* the boundaries of the stored text named by a position (none or exactly one)
SrvIdx(s, p) == {i \in 0..Len(s) : PosOf(s, i) = p}

-----------------------------------------------------------------------------
(* one content change; ch = [full, i, j, t] in terms of client boundaries  *)
ClientApply(cl, ch) == IF ch.full THEN ch.t ELSE Splice(cl, ch.i, ch.j, ch.t)

ServerApply(sv, cl, ch) ==
    IF sv = Forgotten THEN Forgotten
    ELSE IF ch.full THEN StripCR(ch.t)
    ELSE LET A == SrvIdx(sv, PosOf(cl, ch.i))
             B == SrvIdx(sv, PosOf(cl, ch.j))
         IN IF A = {} \/ B = {} THEN Forgotten
            ELSE LET a == CHOOSE x \in A : TRUE
                     b == CHOOSE x \in B : TRUE
                 IN IF a > b THEN Forgotten ELSE StripCR(Splice(sv, a, b, ch.t))

Changes(cl) == {[full |-> TRUE, i |-> 0, j |-> 0, t |-> t] : t \in Texts(MaxIns)}
          \cup {[full |-> FALSE, i |-> i, j |-> j, t |-> t] :
                   i \in 0..Len(cl), j \in 0..Len(cl), t \in Texts(MaxIns)}

Valid(cl, ch) == ch.full \/ ch.i <= ch.j

\* the changes a client may send for text cl (keeping the document within the bound);
\* in history mode one of them is drawn at random instead of enumerating all
Sendable(cl) == {ch \in Changes(cl) : Valid(cl, ch) /\ Len(ClientApply(cl, ch)) <= MaxLen}
Pick(S) == IF TrackHist THEN {RandomElement(S)} ELSE S

\* what goes on the wire for one change.  `len` is the deprecated `rangeLength` some clients still send: the length of the
\* replaced text as the CLIENT counts it - in the client's text a CRLF break is two units (the server's copy has no CR,
\* so a server that wants to use this field has to count on the client's side of the wire)
ClientLen(u) == IF u = "crlf" THEN 2 ELSE ColLen(u)
RECURSIVE SumLen(_, _, _)
SumLen(d, lo, hi) == IF lo > hi THEN 0 ELSE ClientLen(d[lo]) + SumLen(d, lo + 1, hi)
Wire(cl, ch) == IF ch.full THEN [full |-> TRUE, t |-> ch.t]
                ELSE [full |-> FALSE, s |-> PosOf(cl, ch.i), e |-> PosOf(cl, ch.j), t |-> ch.t, len |-> SumLen(cl, ch.i + 1, ch.j)]

Note(rec) == IF TrackHist THEN TRUE ELSE PrintT(<<"CASE", ToJson(rec)>>)

Init == /\ open = FALSE /\ client = <<>> /\ server = <<>> /\ hist = <<>>

DidOpen == /\ ~open
           /\ \E t \in Pick(Texts(MaxLen)) :
                /\ open' = TRUE
                /\ client' = t
                /\ server' = StripCR(t)
                /\ hist' = IF TrackHist THEN <<[open |-> t, server |-> StripCR(t)]>> ELSE hist

DidChange1 ==
    /\ open
    /\ \E c1 \in Pick(Sendable(client)) :
         /\ LET cl1 == ClientApply(client, c1)
                sv1 == ServerApply(server, client, c1)
                rec == [pre |-> client, changes |-> <<Wire(client, c1)>>, posts |-> <<sv1>>]
            IN /\ client' = cl1
               /\ server' = sv1
               /\ Note(rec)
               /\ hist' = IF TrackHist THEN Append(hist, rec) ELSE hist
    /\ UNCHANGED open

DidChange2 ==
    /\ open /\ MaxChanges >= 2
    /\ \E c1 \in Pick(Sendable(client)) :
         /\ LET cl1 == ClientApply(client, c1)
                sv1 == ServerApply(server, client, c1)
            IN /\ \E c2 \in Pick(Sendable(cl1)) :
                    /\ LET cl2 == ClientApply(cl1, c2)
                           sv2 == ServerApply(sv1, cl1, c2)
                           rec == [pre |-> client, changes |-> <<Wire(client, c1), Wire(cl1, c2)>>,
                                   posts |-> <<sv1, sv2>>]
                       IN /\ client' = cl2
                          /\ server' = sv2
                          /\ Note(rec)
                          /\ hist' = IF TrackHist THEN Append(hist, rec) ELSE hist
    /\ UNCHANGED open

\* Something happens to ANOTHER document of the package (its gleam.toml or a sibling module is opened, or reported changed
\* on disk), or the editor reports that it SAVED this document (whatever reached the disk - an older state, while the user
\* kept typing - is not the editor's text): neither side's text of THIS document changes.  (The driver renders `other` as such a notification.)
OtherDoc == /\ open /\ TrackHist
            /\ \E k \in Pick({"open_toml", "watched_toml", "open_sibling", "save_self"}) :
                  hist' = Append(hist, [pre |-> client, changes |-> <<>>, posts |-> <<server>>, other |-> k])
            /\ UNCHANGED <<open, client, server>>

\* history mode only: print the finished behaviour and start over (one simulation run = many histories)
Finish == /\ TrackHist /\ Len(hist) = HistLen
          /\ PrintT(<<"CASE", ToJson([hist |-> hist])>>)
          /\ open' = FALSE /\ client' = <<>> /\ server' = <<>> /\ hist' = <<>>

Next == \/ (~TrackHist \/ Len(hist) < HistLen) /\ (DidOpen \/ DidChange1 \/ DidChange2 \/ OtherDoc)
        \/ Finish

Spec == Init /\ [][Next]_vars

-----------------------------------------------------------------------------
(* C13 *)
InSync == open => server = StripCR(client)

\* the lemma behind it: stripping CR preserves the position of every boundary
PositionsPreserved ==
    \A i \in 0..Len(client) : PosOf(StripCR(client), i) = PosOf(client, i)

\* a position names at most one boundary of the stored text
AtMostOneBoundary ==
    open /\ server # Forgotten =>
       \A i, j \in 0..Len(server) : PosOf(server, i) = PosOf(server, j) => i = j

=============================================================================
