CONSTANTS Budget = 6 NFuns = 3 Sim = TRUE Mode = "sim" MaxParams = 4 Rounds = 6 Focus = {}
  Masked = {"none_lambda_annot", "call_gen_rec", "call_rec_labels", "late_use"}
SPECIFICATION Spec
INVARIANTS Closed BindersTyped BindersScoped SigsWellFormed Derivable GenericsAcyclic
CHECK_DEADLOCK FALSE
