\* EXPECTED VIOLATION (F44): before the repair a watched-file deletion was never applied to the analysis
CONSTANTS
 Docs = {"d1", "d2", "d3", "e", "n", "p", "q", "o", "h", "u", "g"}
 Mode = "seq"
 MaxEdits = 0
 MaxReqs = 2
 MaxInFlight = 1
 ReqKinds = {}
 QueryOutcomes = {"ok", "err"}
 ReadWithLiveVfs = TRUE
 ConvertWithLiveVfs = TRUE
 CancelledDiagPublishesEmpty = TRUE
 RespawnAllDiags = FALSE
 PublishOnlyLatest = FALSE
 HoldVfsAcrossApply = FALSE
 SnapshotInTask = FALSE
 CancelledAnsweredOk = FALSE
 AnsFree = FALSE
 PollWhileWaiting = FALSE
 PreFixF9 = FALSE
 PreFixWDel = TRUE
 ThirdPartyFatal = FALSE
 Gen = "bfs"
 ScriptLen = 2
SPECIFICATION Spec
INVARIANTS StoreApplied
CHECK_DEADLOCK FALSE
