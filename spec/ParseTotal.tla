----------------------------- MODULE ParseTotal -----------------------------
(***************************************************************************)
(* Adversarial inputs for the parser (C01 round trip, C02 totality) and    *)
(* the abstract progress model behind the parser's "fuel" guard.           *)
(*                                                                         *)
(* Part 1 - enumerator.  A case is a context (where in a file the tokens   *)
(* are placed) and a sequence of token kinds (mode "tok"), a sequence of   *)
(* characters (mode "chr"), or a tower opener^n (mode "tower").  For every *)
(* case the specification predicts the same observable: parsing returns a  *)
(* tree whose leaves concatenate to the input, plus a list of errors - it  *)
(* does not panic, abort or hang.  A fourth family of cases comes from the *)
(* reference grammar: every program GleamSyn.tla generates within its      *)
(* budget, damaged at every token position (cut off after the token, the   *)
(* token deleted, the token replaced by a token that ends or continues a   *)
(* construct) - the error paths of every production, with the same         *)
(* predicted observable.                                                   *)
(*                                                                         *)
(* Part 2 - progress model.  Look-ahead burns fuel, consuming a token      *)
(* refills it, running out panics.  With D nested constructs left open at  *)
(* end of input, unwinding performs U look-aheads per level and consumes   *)
(* nothing, so the guard trips iff D * U >= F.  TLC finds exactly that     *)
(* (see ParseTotal_fuel.cfg, invariant FuelLeft, expected to be violated); *)
(* it is the design-level explanation of finding F1.                       *)
(***************************************************************************)
EXTENDS Naturals, Sequences, FiniteSets, TLC, Json, Lexis

CONSTANTS Mode,       \* "tok" | "chr" | "tower" | "fuel"
          Alphabet,   \* kinds (mode tok) or characters (mode chr)
          MaxLen,
          F, U, MaxDepth   \* progress model: fuel, look-aheads per unwinding level, nesting bound

\* where the tokens are placed: the harness runs every tok/chr case in each of its contexts
\* (top level, function body, case clause, type body, parameter list, import, call arguments,
\* unterminated function at end of input); the enumerator does not multiply by them.
\* right-nested towers: every level is a recursive call of the parser
TowerOpeners == {"[", "{", "(", "#(", "<<", "fn(){", "case x {", "!", "-", "List(", "fn(", "a(", "[ ..", "x ->",
                 "#(a, ", "A(", "fn(a) -> ", "let a = {", "[a, ", "A(a: ",
                 \* the same collections as the value of a module constant (constant expressions may have a parser of their own)
                 "const [", "const #(", "const A("}
TowerHeights == {8, 60, 64, 65, 150, 200, 1000, 10000, 100000, 1000000}
\* left-nested chains: the parser loops, the tree nests (tree building is quadratic in the chain
\* length today, so the heights stop at 10^5 to stay clear of the time budget)
ChainOpeners == {"a.", "1 +", "a(1)", "x |>", "a.0", "1 <>", "a ||"}
ChainHeights == {8, 150, 1000, 10000, 100000}
\* flat runs: a long stretch of tokens without any nesting and without a token that starts a statement or a definition,
\* behind an unfinished construct (whatever look-ahead or recovery scan the construct does has nothing to stop at)
RunLeads   == {"fn a() { use a", "fn a() { use", "fn a() { let x =", "fn a() { case x { a ->", "const c =", "fn a() { x(",
               "fn a() { [", "type T { A(", "import a.{", "fn a(", "fn a() { x |>", "fn a() { #("}
RunUnits   == {"1 ,", "b |>", "+ 1", ", c", "a", "b . c", "1"}
RunLengths == {40, 600, 1100, 3000}

VARIABLES seq,                \* enumerator
          depth, top, fuel, pc   \* progress model (top = nesting depth when end of input was hit)
vars == <<seq, depth, top, fuel, pc>>

Init == seq = <<>> /\ depth = 0 /\ top = 0 /\ fuel = F /\ pc = "descend"

Extend == /\ Mode \in {"tok", "chr"} /\ Len(seq) < MaxLen
          /\ \E a \in Alphabet : seq' = Append(seq, a)
          /\ UNCHANGED <<depth, top, fuel, pc>>

Tower == /\ Mode = "tower" /\ seq = <<>>
         /\ \/ \E o \in TowerOpeners, h \in TowerHeights : seq' = <<o, h>>
            \/ \E o \in ChainOpeners, h \in ChainHeights : seq' = <<o, h>>
            \/ \E l \in RunLeads, u \in RunUnits, h \in RunLengths : seq' = <<"run|" \o l \o "|" \o u, h>>
         /\ UNCHANGED <<depth, top, fuel, pc>>

\* progress model: descend consumes the opener (refill), at end of input every level unwinds with U look-aheads
Descend == /\ Mode = "fuel" /\ pc = "descend" /\ depth < MaxDepth
           /\ depth' = depth + 1 /\ fuel' = F
           /\ UNCHANGED <<seq, top, pc>>
Eof     == /\ Mode = "fuel" /\ pc = "descend"
           /\ pc' = "unwind" /\ top' = depth /\ UNCHANGED <<seq, depth, fuel>>
Unwind  == /\ Mode = "fuel" /\ pc = "unwind" /\ depth > 0 /\ fuel > 0
           /\ depth' = depth - 1
           /\ fuel' = IF fuel >= U THEN fuel - U ELSE 0
           /\ UNCHANGED <<seq, top, pc>>

Next == Extend \/ Tower \/ Descend \/ Eof \/ Unwind
Spec == Init /\ [][Next]_vars

FuelLeft == fuel > 0
\* the guard is safe exactly below this nesting depth
SafeDepth == (pc = "unwind" /\ top * U < F) => fuel > 0

Emit == (Mode \in {"tok", "chr"} \/ seq # <<>>) =>
          PrintT(<<"CASE", ToJson([mode |-> Mode, seq |-> seq])>>)
=============================================================================
