CONSTANTS MaxEdits = 2 FileLen = 3 Sim = TRUE
SPECIFICATION Spec
INVARIANTS Admissible
CHECK_DEADLOCK FALSE
