CONSTANTS MaxPkgs = 3 NameIdx = {1, 3} Palette = 2 MaxMods = 2 TestDirs = FALSE NBases = 2 NSchemes = 2
          Entries = {"version", "path", "none"} Places = {"packages", "sibling", "nested"} Sim = FALSE
SPECIFICATION Spec
INVARIANTS TypeOK RootsDistinct ExternalIsPlace RootOfIsInnermost ModuleNameInjective ResolveIsFunction ResolveIsVisible DropIsLocal ImportsAcyclic DepsShape
CHECK_DEADLOCK FALSE
