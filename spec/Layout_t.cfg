CONSTANTS MaxPkgs = 3 NNames = 2 MaxMods = 2 TestDirs = FALSE NBases = 2 NSchemes = 2 Sim = FALSE
SPECIFICATION Spec
INVARIANTS TypeOK RootsDistinct RootOfIsInnermost ModuleNameInjective ResolveIsFunction ResolveIsVisible ImportsAcyclic DepsShape
CHECK_DEADLOCK FALSE
