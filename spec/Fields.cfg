INIT Init
NEXT Next
