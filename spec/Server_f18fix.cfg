\* F18 repaired: finished futures are polled while waiting for a permit
CONSTANTS
 Docs = {"d1"}
 Mode = "conc"
 MaxEdits = 2
 MaxReqs = 2
 MaxInFlight = 1
 ReqKinds = {"plain", "conv"}
 QueryOutcomes = {"ok"}
 ReadWithLiveVfs = FALSE
 ConvertWithLiveVfs = FALSE
 CancelledDiagPublishesEmpty = FALSE
 RespawnAllDiags = TRUE
 PublishOnlyLatest = TRUE
 HoldVfsAcrossApply = FALSE
 SnapshotInTask = FALSE
 CancelledAnsweredOk = FALSE
 AnsFree = FALSE
 PollWhileWaiting = TRUE
 PreFixF9 = FALSE
 PreFixWDel = FALSE
 ThirdPartyFatal = FALSE
 Gen = "none"
 ScriptLen = 0
SPECIFICATION Spec
INVARIANTS TypeOK NoDeadlock AtMostOneResponse AllAnswered NoMixture IssuedVersion AnswerContent Convergence LockDiscipline Alive
CHECK_DEADLOCK FALSE
