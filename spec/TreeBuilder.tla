---------------------------- MODULE TreeBuilder ----------------------------
(***************************************************************************)
(* The event-stream -> lossless-tree machine of glas' parser               *)
(* (crates/syntax/src/parser.rs::Parser::build_tree).                      *)
(*                                                                         *)
(* The lexer produces `raw`, all tokens including trivia.  The parser      *)
(* proper never sees trivia; it emits events Open(kind) / Close / Advance. *)
(* The tree builder re-interleaves the trivia: it walks the events with a  *)
(* cursor into `raw`, and the tree's leaves, in document order, are the    *)
(* raw tokens it emitted (`out`).                                          *)
(*                                                                         *)
(* Contract of the parser (what module()/statement() must guarantee):      *)
(*   the first event opens the root, opens and closes are balanced and     *)
(*   there is exactly one Advance per non-trivia token.                    *)
(* Rule of the builder, stated for the mechanism rather than today's       *)
(* attachment policy: an Open or Close may first emit any prefix of the    *)
(* trivia pending at the cursor (which node trivia hangs off is free);     *)
(* Advance emits ALL pending trivia and then exactly one non-trivia token; *)
(* after the last event everything left is flushed.                        *)
(*                                                                         *)
(* Theorem (C01 at the level of the mechanism): contract + rule imply that *)
(* the emitted leaves are exactly raw[1..Len(raw)] in order, each once,    *)
(* and the builder never reads past the end.                               *)
(***************************************************************************)
EXTENDS Naturals, Sequences, FiniteSets, TLC

CONSTANTS MaxRaw

Classes == {"tok", "ws", "cmt", "doc", "mdoc"}      \* tok: any non-trivia token
IsTrivia(c) == c # "tok"

VARIABLES raw,      \* the lexer's output
          phase,    \* "lex" | "build" | "done"
          depth,    \* open nodes
          advLeft,  \* non-trivia tokens the parser has not advanced over yet
          cursor,   \* raw tokens consumed by the builder
          out,      \* indices of raw emitted as leaves, in order
          oob       \* the builder tried to read raw[Len(raw)+1]
vars == <<raw, phase, depth, advLeft, cursor, out, oob>>

NonTrivia(r) == Cardinality({i \in 1..Len(r) : ~IsTrivia(r[i])})

\* number of trivia tokens pending at the cursor
Pending(r, c) == LET S == {n \in 0..(Len(r) - c) : \A k \in (c + 1)..(c + n) : IsTrivia(r[k])}
                 IN CHOOSE n \in S : \A m \in S : m <= n

Emit(n) == /\ out' = out \o [k \in 1..n |-> cursor + k]
           /\ cursor' = cursor + n

Init == /\ raw = <<>> /\ phase = "lex" /\ depth = 0 /\ advLeft = 0
        /\ cursor = 0 /\ out = <<>> /\ oob = FALSE

Lex(c) == /\ phase = "lex" /\ Len(raw) < MaxRaw
          /\ raw' = Append(raw, c)
          /\ UNCHANGED <<phase, depth, advLeft, cursor, out, oob>>

\* the parser starts: first event opens the root
OpenRoot == /\ phase = "lex"
            /\ phase' = "build" /\ depth' = 1 /\ advLeft' = NonTrivia(raw)
            /\ \E n \in 0..Pending(raw, cursor) : Emit(n)
            /\ UNCHANGED <<raw, oob>>

Open == /\ phase = "build"
        /\ depth' = depth + 1
        /\ \E n \in 0..Pending(raw, cursor) : Emit(n)
        /\ UNCHANGED <<raw, phase, advLeft, oob>>

Close == /\ phase = "build" /\ depth > 1
         /\ depth' = depth - 1
         /\ \E n \in 0..Pending(raw, cursor) : Emit(n)
         /\ UNCHANGED <<raw, phase, advLeft, oob>>

Advance == /\ phase = "build" /\ advLeft > 0
           /\ advLeft' = advLeft - 1
           /\ LET n == Pending(raw, cursor) IN
                IF cursor + n + 1 > Len(raw)
                THEN oob' = TRUE /\ UNCHANGED <<cursor, out>>
                ELSE Emit(n + 1) /\ UNCHANGED oob
           /\ UNCHANGED <<raw, phase, depth>>

\* the parser is done (root's Close is the last event); trailing trivia is flushed
Finish == /\ phase = "build" /\ depth = 1 /\ advLeft = 0
          /\ phase' = "done" /\ depth' = 0
          /\ Emit(Len(raw) - cursor)
          /\ UNCHANGED <<raw, advLeft, oob>>

Next == (\E c \in Classes : Lex(c)) \/ OpenRoot \/ Open \/ Close \/ Advance \/ Finish
Spec == Init /\ [][Next]_vars

-----------------------------------------------------------------------------
Contiguous == out = [k \in 1..cursor |-> k]
InRange    == cursor <= Len(raw) /\ ~oob
\* every pending token at the cursor while advances remain is followed by a non-trivia token
AdvanceSafe == phase = "build" /\ advLeft > 0 => cursor + Pending(raw, cursor) < Len(raw)
Lossless   == phase = "done" => /\ cursor = Len(raw)
                                /\ out = [k \in 1..Len(raw) |-> k]
DepthBound == depth <= MaxRaw + 2
=============================================================================
