\* C15 MC + GEN: today's design, sequential view; fixed prefix + every single message of the grammar
CONSTANTS
 Docs = {"d1", "d2", "d3", "e", "n", "p", "q", "o", "h", "u", "g"}
 Mode = "seq"
 MaxEdits = 0
 MaxReqs = 2
 MaxInFlight = 1
 ReqKinds = {}
 QueryOutcomes = {"ok", "err"}
 ReadWithLiveVfs = TRUE
 ConvertWithLiveVfs = TRUE
 CancelledDiagPublishesEmpty = TRUE
 RespawnAllDiags = FALSE
 PublishOnlyLatest = FALSE
 HoldVfsAcrossApply = FALSE
 SnapshotInTask = FALSE
 CancelledAnsweredOk = FALSE
 AnsFree = FALSE
 PollWhileWaiting = FALSE
 PreFixF9 = FALSE
 PreFixWDel = FALSE
 ThirdPartyFatal = FALSE
 Gen = "bfs"
 ScriptLen = 2
SPECIFICATION Spec
INVARIANTS TypeOK Alive AtMostOneResponse AllAnswered NoDeadlock LockDiscipline StoreApplied
PROPERTIES EditSafety
CHECK_DEADLOCK FALSE
