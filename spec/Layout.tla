------------------------------- MODULE Layout -------------------------------
(***************************************************************************)
(* C17 - modules and packages resolve according to the project layout.     *)
(*                                                                         *)
(* A configuration is a project tree:                                      *)
(*   - 1..4 packages.  Package 1 is the root project "app"; every other    *)
(*     package is a registry dependency living at                          *)
(*     <root>/build/packages/<name>  or a path dependency living next to   *)
(*     the root (<base>/<name>, referenced as  path = "../<name>").        *)
(*     <base> is where the local packages live: the case directory itself, *)
(*     a monorepo directory "packages", or "build/libs" (directories whose *)
(*     names look like, but are not, build/packages).                      *)
(*   - dependency edges (a DAG, edges go from lower to higher index; every *)
(*     non-root package is a dependency of somebody; a registry package    *)
(*     depends on registry packages only).  Chains a -> b -> c without     *)
(*     a -> c exercise "directly depends on ... and nothing else".         *)
(*   - modules at <pkg>/(src|test)/<dir>*/<name>.gleam; the same module    *)
(*     name may occur in several packages, also in an importer and one of  *)
(*     its dependencies (then the importer's own module wins); two direct  *)
(*     dependencies of one package never offer the same name (Gleam        *)
(*     rejects such projects) so that resolution is a function.            *)
(*   - a free-standing file outside every package.                         *)
(*   - an open order: the sequence in which the editor opens the files.    *)
(*                                                                         *)
(* Imports are derived, not chosen: every module imports every module name *)
(* in use anywhere in the configuration, unless the reference resolution   *)
(* of that import would create an import cycle (Gleam forbids cycles; the  *)
(* target must come later in the canonical file order).  Resolution of one *)
(* import is independent of the others, so this is the strongest set.      *)
(*                                                                         *)
(* The reference operators ModuleName, RootOf, Visible, Resolve, External  *)
(* are the specification of C17; Finish prints the configuration together  *)
(* with their values (one CASE line), the harness materialises the tree,   *)
(* drives the real server and compares.                                    *)
(*                                                                         *)
(* Sim = FALSE: BFS enumerates every configuration within the bounds once  *)
(* (the builder is canonical: one behaviour per configuration); the open   *)
(* order is "any first file of a package or the free file first, the rest  *)
(* in canonical order".  Sim = TRUE (-simulate): every choice is drawn     *)
(* with RandomElement, open orders are arbitrary permutations, and the     *)
(* behaviour starts over after Finish (many configurations per trace).     *)
(***************************************************************************)
EXTENDS Naturals, Sequences, FiniteSets, TLC, Json

CONSTANTS MaxPkgs,    \* 1..4
          NNames,     \* how many entries of NameTable are in use
          MaxMods,    \* modules per package
          TestDirs,   \* BOOLEAN: modules may live under test/ as well as src/
          NBases,     \* how many entries of BaseTable are in use
          NSchemes,   \* how many entries of NameSchemes are in use
          Sim         \* see above

NameTable == << <<"top">>, <<"dir", "mid">>, <<"dir", "sub", "leaf">>, <<"mid">>, <<"util">>, <<"sub", "leaf">> >>
BaseTable == << <<>>, <<"packages">>, <<"build", "libs">> >>
\* package names: dependency tables are processed in alphabetical order, so both "a package is listed
\* before its own dependencies" and the opposite must occur
NameSchemes == << <<"app", "lib_b", "lib_c", "lib_d">>, <<"app", "lib_z", "lib_y", "lib_x">> >>
DepKinds  == {"registry", "path"}

ASSUME /\ MaxPkgs \in 1..4 /\ NNames \in 1..Len(NameTable) /\ MaxMods \in 1..3
       /\ NBases \in 1..Len(BaseTable) /\ NSchemes \in 1..Len(NameSchemes)

VARIABLES phase,   \* "start" | "pkgs" | "deps" | "mods" | "open" | "done"
          npk,     \* number of packages of the configuration being built
          base,    \* directory of the local packages (sequence of path components)
          scheme,  \* which naming scheme the packages use
          kinds,   \* sequence: kind of package i ("root" | "registry" | "path")
          deps,    \* set of <<i, j>>: package i lists package j in its gleam.toml
          cur,     \* cursor of the builder (package index)
          mods,    \* set of modules [pkg, c]; c indexes Choice (directory x name)
          opened   \* sequence of files in the order the editor opened them
vars == <<phase, npk, base, scheme, kinds, deps, cur, mods, opened>>

-----------------------------------------------------------------------------
(* the tree                                                                *)

Choice(c)  == [dir  |-> IF c % 2 = 1 THEN "src" ELSE "test", name |-> NameTable[(c + 1) \div 2]]
Choices    == {c \in 1..(2 * NNames) : TestDirs \/ c % 2 = 1}
NameOf(m)  == Choice(m.c).name

FreeFile   == [pkg |-> 0, c |-> 1]     \* the free-standing file (not a module of any package)
Unresolved == [pkg |-> 0, c |-> 0]     \* "no file"

Pkgs       == 1..Len(kinds)
PkgNames   == NameSchemes[scheme]
RootLoc    == base \o <<"app">>
Loc(p)     == IF kinds[p] = "registry" THEN RootLoc \o <<"build", "packages", PkgNames[p]>>
              ELSE base \o <<PkgNames[p]>>

\* path of a file, as a sequence of components; the last one is the file stem (".gleam" is implied)
Path(f)    == IF f.pkg = 0 THEN <<"free", "lone">>
              ELSE Loc(f.pkg) \o <<Choice(f.c).dir>> \o Choice(f.c).name

Files      == mods \cup {FreeFile}

IsPrefix(s, t) == Len(s) <= Len(t) /\ SubSeq(t, 1, Len(s)) = s

-----------------------------------------------------------------------------
(* the reference operators of C17                                          *)

\* every package root containing the path
RootsOf(path) == {p \in Pkgs : IsPrefix(Loc(p), path)}

\* each file belongs to the innermost package root containing it (0: none, a free-standing file)
RootOf(path) == LET R == RootsOf(path)
                IN IF R = {} THEN 0 ELSE CHOOSE p \in R : \A q \in R : Len(Loc(q)) <= Len(Loc(p))

\* <pkg>/src/a/b.gleam and <pkg>/test/a/b.gleam are the module a/b: the path below the first
\* component after the package root
ModuleName(path) == LET r == RootOf(path)
                    IN IF r = 0 THEN <<>> ELSE SubSeq(path, Len(Loc(r)) + 2, Len(path))

\* own package + direct dependencies, nothing else
Visible(p) == IF p = 0 THEN {} ELSE {p} \cup {q \in Pkgs : <<p, q>> \in deps}

\* packages under build/packages are external: navigable, not editable
External(p) == kinds[p] = "registry"

\* (LET: TLC evaluates a LET definition at most once per use of the enclosing operator)
Candidates(f, name) == LET vis == Visible(RootOf(Path(f)))
                       IN {m \in mods : m.pkg \in vis /\ ModuleName(Path(m)) = name}
\* the importer's own module of that name wins over a dependency's
Preferred(f, name)  == LET C   == Candidates(f, name)
                           r   == RootOf(Path(f))
                           own == {m \in C : m.pkg = r}
                       IN IF own # {} THEN own ELSE C

\* the file an `import name` written in file f refers to
Resolve(f, name) == LET P == Preferred(f, name) IN IF P = {} THEN Unresolved ELSE CHOOSE m \in P : TRUE

-----------------------------------------------------------------------------
(* derived imports: one use site per (module, name in use) that cannot create an import cycle *)

NamesInUse  == {NameOf(m) : m \in mods}
Later(m, t) == t.pkg > m.pkg \/ (t.pkg = m.pkg /\ t.c > m.c)
UseSites    == {u \in [from : Files, name : NamesInUse] :
                   \/ u.from = FreeFile
                   \/ LET t == Resolve(u.from, u.name) IN t = Unresolved \/ Later(u.from, t)}

-----------------------------------------------------------------------------
(* builder                                                                 *)

Pick(S) == IF Sim THEN (IF S = {} THEN {} ELSE {RandomElement(S)}) ELSE S

Bases   == {BaseTable[i] : i \in 1..NBases}
\* simulation: larger projects are drawn more often
SizeLots == {<<n, k>> \in (1..MaxPkgs) \X (1..6) : k <= (IF n = 1 THEN 1 ELSE 2 * n - 2)}

Init == /\ kinds = <<>> /\ deps = {} /\ mods = {} /\ opened = <<>> /\ cur = 1
        /\ IF Sim THEN phase = "start" /\ npk = 0 /\ base = <<>> /\ scheme = 1
                  ELSE phase = "pkgs" /\ npk \in 1..MaxPkgs /\ base \in Bases
                       /\ scheme \in (IF npk = 1 THEN {1} ELSE 1..NSchemes)   \* one package: its name is "app" anyway

\* simulation only: draw the size and the location of the local packages
Start == /\ phase = "start"
         /\ npk' = RandomElement(SizeLots)[1]
         /\ base' = RandomElement(Bases)
         /\ scheme' = RandomElement(1..NSchemes)
         /\ phase' = "pkgs"
         /\ UNCHANGED <<kinds, deps, cur, mods, opened>>

AddPackage ==
    /\ phase = "pkgs"
    /\ \E k \in Pick(IF kinds = <<>> THEN {"root"} ELSE DepKinds) :
          kinds' = Append(kinds, k)
    /\ phase' = IF Len(kinds) + 1 < npk THEN "pkgs" ELSE IF npk = 1 THEN "mods" ELSE "deps"
    /\ cur' = IF Len(kinds) + 1 < npk THEN cur ELSE IF npk = 1 THEN 1 ELSE 2
    /\ UNCHANGED <<npk, base, scheme, deps, mods, opened>>

\* who may list package j: a package of lower index; a registry package lists registry packages only
Sources(j) == {i \in 1..(j - 1) : kinds[i] = "registry" => kinds[j] = "registry"}

AddDep ==
    /\ phase = "deps"
    /\ \E S \in Pick(SUBSET Sources(cur) \ {{}}) :
          deps' = deps \cup {<<i, cur>> : i \in S}
    /\ phase' = IF cur < npk THEN "deps" ELSE "mods"
    /\ cur' = IF cur < npk THEN cur + 1 ELSE 1
    /\ UNCHANGED <<npk, base, scheme, kinds, mods, opened>>

\* module sets package p may get, given the packages filled before it: names distinct inside the package
\* (src/a.gleam and test/a.gleam would both be module a) and distinct from those of every package that
\* is a direct dependency of a common importer
Siblings(p)  == {q \in Pkgs : q # p /\ \E r \in Pkgs : <<r, p>> \in deps /\ <<r, q>> \in deps}
TakenBy(Q)   == {NameOf(m) : m \in {x \in mods : x.pkg \in Q}}
ModSets(p)   == {S \in SUBSET Choices :
                    /\ Cardinality(S) \in 1..MaxMods
                    /\ \A c1, c2 \in S : Choice(c1).name = Choice(c2).name => c1 = c2
                    /\ \A c \in S : Choice(c).name \notin TakenBy(Siblings(p))}
ModSetsOrNone(p) == IF ModSets(p) = {} THEN {{}} ELSE ModSets(p)

AddModules ==
    /\ phase = "mods"
    /\ \E S \in Pick(ModSetsOrNone(cur)) :
          mods' = mods \cup {[pkg |-> cur, c |-> c] : c \in S}
    /\ phase' = IF cur < npk THEN "mods" ELSE "open"
    /\ cur' = IF cur < npk THEN cur + 1 ELSE 1
    /\ UNCHANGED <<npk, base, scheme, kinds, deps, opened>>

-----------------------------------------------------------------------------
(* the editor opens the files                                              *)

Key(f)      == IF f.pkg = 0 THEN 1000 ELSE 100 * f.pkg + f.c
Least(S)    == CHOOSE f \in S : \A g \in S : Key(f) <= Key(g)
Unopened    == {f \in Files : \A i \in 1..Len(opened) : opened[i] # f}
\* BFS: the first file of any package, or the free file, goes first; the rest follows in canonical order
Firsts      == {FreeFile} \cup {Least({m \in mods : m.pkg = p}) : p \in {q \in Pkgs : \E m \in mods : m.pkg = q}}
Openable    == IF Sim THEN Unopened ELSE IF opened = <<>> THEN Firsts ELSE {Least(Unopened)}

Open ==
    /\ phase = "open" /\ Unopened # {}
    /\ \E f \in Pick(Openable) : opened' = Append(opened, f)
    /\ UNCHANGED <<phase, npk, base, scheme, kinds, deps, cur, mods>>

-----------------------------------------------------------------------------
(* the finished configuration with the specification's predictions        *)

PkgRec(p) == [name     |-> PkgNames[p],
              kind     |-> kinds[p],
              loc      |-> Loc(p),
              external |-> External(p),
              deps     |-> {[name |-> PkgNames[q], kind |-> kinds[q]] : q \in {x \in Pkgs : <<p, x>> \in deps}}]

FileRec(f) == [path |-> Path(f),
               role |-> IF f.pkg = 0 THEN "free" ELSE "module",
               pkg  |-> IF RootOf(Path(f)) = 0 THEN "" ELSE PkgNames[RootOf(Path(f))],
               modname |-> ModuleName(Path(f))]

UseRec(u) == LET t == Resolve(u.from, u.name)
             IN [from    |-> Path(u.from),
                 name    |-> u.name,
                 target  |-> IF t = Unresolved THEN <<>> ELSE Path(t),
                 targetpkg |-> IF t = Unresolved THEN "" ELSE PkgNames[t.pkg],
                 \* same-named modules the import must NOT resolve to (not visible from the importer)
                 decoys  |-> {Path(m) : m \in {x \in mods : NameOf(x) = u.name /\ x # t /\ x # u.from}}]

Config == [base  |-> base,
           pkgs  |-> [p \in Pkgs |-> PkgRec(p)],
           files |-> {FileRec(f) : f \in Files},
           order |-> [i \in 1..Len(opened) |-> Path(opened[i])],
           uses  |-> {UseRec(u) : u \in UseSites}]

Finish ==
    /\ phase = "open" /\ Unopened = {}
    /\ PrintT(<<"CASE", ToJson(Config)>>)
    /\ IF Sim
       THEN /\ phase' = "start" /\ npk' = 0 /\ base' = <<>> /\ scheme' = 1 /\ kinds' = <<>> /\ deps' = {}
            /\ mods' = {} /\ opened' = <<>> /\ cur' = 1
       ELSE /\ phase' = "done" /\ UNCHANGED <<npk, base, scheme, kinds, deps, cur, mods, opened>>

Next == Start \/ AddPackage \/ AddDep \/ AddModules \/ Open \/ Finish

Spec == Init /\ [][Next]_vars

-----------------------------------------------------------------------------
(* invariants of the model.  TypeOK, RootsDistinct and DepsShape are       *)
(* checked in every state; the ones about the reference operators in the   *)
(* state in which the configuration is complete (Built: before the first   *)
(* Open; the Open steps do not change the configuration).                  *)

Built == phase = "open" /\ opened = <<>>

TypeOK ==
    /\ phase \in {"start", "pkgs", "deps", "mods", "open", "done"}
    /\ npk \in 0..MaxPkgs /\ Len(kinds) <= MaxPkgs /\ scheme \in 1..NSchemes
    /\ \A i \in Pkgs : kinds[i] \in (IF i = 1 THEN {"root"} ELSE DepKinds)
    /\ deps \subseteq {<<i, j>> \in Pkgs \X Pkgs : i < j}
    /\ \A m \in mods : m.pkg \in Pkgs /\ m.c \in Choices
    /\ \A i \in 1..Len(opened) : opened[i] \in Files

\* package roots are pairwise different directories
RootsDistinct == \A p, q \in Pkgs : Loc(p) = Loc(q) => p = q

\* RootOf is the longest-prefix root, it is unique, and it is the package the module was put into
\* (non-trivial: the root package's directory is a prefix of every registry dependency's files)
RootOfIsInnermost == Built =>
    /\ \A m \in mods :
         LET path == Path(m) IN
         /\ m.pkg \in RootsOf(path)
         /\ RootOf(path) = m.pkg
         /\ \A q \in RootsOf(path) : q # m.pkg => Len(Loc(q)) < Len(Loc(m.pkg))
         /\ External(m.pkg) => 1 \in RootsOf(path) /\ RootOf(path) # 1
    /\ RootOf(Path(FreeFile)) = 0

\* ModuleName is what was put there, and it is injective per package
ModuleNameInjective == Built =>
    /\ \A m \in mods : ModuleName(Path(m)) = NameOf(m)
    /\ \A m1, m2 \in mods : m1.pkg = m2.pkg /\ ModuleName(Path(m1)) = ModuleName(Path(m2)) => m1 = m2

\* Resolve is a function: at most one preferred target for every (file, name)
ResolveIsFunction == Built =>
    \A f \in Files : \A n \in NamesInUse : Cardinality(Preferred(f, n)) <= 1

\* ... whose value is a module of that name in a visible package, the importer's own if there is one,
\* and unresolved exactly if no visible package has such a module
ResolveIsVisible == Built =>
    \A f \in Files : \A n \in NamesInUse :
        LET t == Resolve(f, n)
            r == RootOf(Path(f))
        IN /\ t # Unresolved => /\ t \in mods /\ NameOf(t) = n
                                /\ t.pkg = r \/ <<r, t.pkg>> \in deps
                                /\ (\E m \in mods : m.pkg = r /\ NameOf(m) = n) => t.pkg = r
           /\ t = Unresolved => \A m \in mods : NameOf(m) = n => m.pkg # r /\ <<r, m.pkg>> \notin deps

\* derived imports never form a cycle: every resolved use site points to a later file
ImportsAcyclic == Built =>
    \A u \in UseSites : LET t == Resolve(u.from, u.name)
                       IN u.from # FreeFile /\ t # Unresolved => Later(u.from, t)

\* dependencies: registry packages list registry packages only; everybody but the root is listed
DepsShape ==
    /\ \A e \in deps : kinds[e[1]] = "registry" => kinds[e[2]] = "registry"
    /\ phase \in {"mods", "open", "done"} => \A j \in Pkgs : j > 1 => \E i \in Pkgs : <<i, j>> \in deps

=============================================================================
