------------------------------- MODULE Layout -------------------------------
(***************************************************************************)
(* C17 - modules and packages resolve according to the project layout.     *)
(*                                                                         *)
(* A configuration is a project tree:                                      *)
(*   - 1..4 packages.  Package 1 is the root project "app".  Every other   *)
(*     package has two INDEPENDENT attributes:                             *)
(*       entry: how the packages that depend on it name it in their        *)
(*              gleam.toml: "version" (x = "~> 1.0"), "path"               *)
(*              (x = { path = "<relative path to its directory>" }) or     *)
(*              "none" (nobody depends on it: see twin below);             *)
(*       place: where its directory is: "packages"                         *)
(*              (<root>/build/packages/<name>), "sibling" (<base>/<name>,  *)
(*              next to the root) or "nested" (<root>/packages/<name>, a   *)
(*              monorepo member inside the root project).                  *)
(*     All combinations that denote a project are generated (ValidShape):  *)
(*     a version entry means <root>/build/packages/<name> by definition,   *)
(*     a path entry may point anywhere, in particular INTO build/packages  *)
(*     (a pinned download), and a "twin" is a sibling or nested directory  *)
(*     that carries the NAME of a build/packages package (a checkout of    *)
(*     the same library lying around in the workspace): nobody depends on  *)
(*     it, it is a project of its own, and no import may ever land in it.  *)
(*     <base> (where root and siblings live) is the case directory itself, *)
(*     a monorepo directory "packages", or "build/libs" (names that look   *)
(*     like, but are not, build/packages).                                 *)
(*   - dependency edges (a DAG, edges go from lower to higher index; every *)
(*     non-root package except a twin is a dependency of somebody; a       *)
(*     package living in build/packages lists only packages that live      *)
(*     there).  Chains a -> b -> c without a -> c exercise "directly       *)
(*     depends on ... and nothing else".                                   *)
(*   - modules at <pkg>/(src|test)/<dir>*/<stem>.gleam.  Directory names   *)
(*     are drawn from {dir, sub, src, test, build, packages}: the special  *)
(*     segments are ordinary directory names below src/ or test/           *)
(*     (src/test/helpers.gleam is the module test/helpers).  The same      *)
(*     module name may occur in several packages, also in an importer and  *)
(*     one of its dependencies (then the importer's own module wins); two  *)
(*     direct dependencies of one package never offer the same name (Gleam *)
(*     rejects such projects) so that resolution is a function.            *)
(*   - a free-standing file outside every package.                         *)
(*   - an open order: the sequence in which the editor opens the files.    *)
(*                                                                         *)
(* Imports are derived, not chosen: every module imports every module name *)
(* in use anywhere in the configuration AND every proper suffix of such a  *)
(* name (`import helpers` next to the module test/helpers: must not        *)
(* resolve unless some visible package really has a module helpers),       *)
(* unless the reference resolution of that import would create an import   *)
(* cycle (Gleam forbids cycles; the target must come later in the          *)
(* canonical file order).  Resolution of one import is independent of the  *)
(* others, so this is the strongest set.                                   *)
(*                                                                         *)
(* The reference operators ModuleName, RootOf, Visible, Resolve, External  *)
(* are the specification of C17; Finish prints the configuration together  *)
(* with their values (one CASE line), the harness materialises the tree,   *)
(* drives the real server and compares.  External is the rule of the       *)
(* property ("packages under build/packages"): a function of the package   *)
(* DIRECTORY, not of the way the package is referred to.                   *)
(*                                                                         *)
(* Sim = FALSE: BFS enumerates every configuration within the bounds once  *)
(* (the builder is canonical: one behaviour per configuration); the open   *)
(* order is "any first file of a package or the free file first, the rest  *)
(* in canonical order".  Sim = TRUE (-simulate): every choice is drawn     *)
(* with RandomElement, open orders are arbitrary permutations, and the     *)
(* behaviour starts over after Finish (many configurations per trace).     *)
(***************************************************************************)
EXTENDS Naturals, Sequences, FiniteSets, TLC, Json

CONSTANTS MaxPkgs,    \* 1..4
          NameIdx,    \* which entries of NameTable are in use
          Palette,    \* simulation: how many of them one configuration draws its module names from
          MaxMods,    \* modules per package
          TestDirs,   \* BOOLEAN: modules may live under test/ as well as src/
          NBases,     \* how many entries of BaseTable are in use
          NSchemes,   \* how many entries of NameSchemes are in use
          Entries,    \* subset of {"version", "path", "none"}
          Places,     \* subset of {"packages", "sibling", "nested"}
          Sim         \* see above

\* module names: <directory segment>* <stem>; segments from {dir, sub, src, test, build, packages}
NameTable == << <<"top">>, <<"dir", "mid">>, <<"test", "helpers">>, <<"dir", "sub", "leaf">>, <<"mid">>,
                <<"src", "gen">>, <<"helpers">>, <<"build", "packages", "zed">>, <<"sub", "leaf">>, <<"util">>,
                <<"test", "src", "mid">>, <<"packages", "top">> >>
SourceDirs == {"src", "test"}
BaseTable == << <<>>, <<"packages">>, <<"build", "libs">> >>
\* package names: dependency tables are processed in alphabetical order, so both "a package is listed
\* before its own dependencies" and the opposite must occur
NameSchemes == << <<"app", "lib_b", "lib_c", "lib_d">>, <<"app", "lib_z", "lib_y", "lib_x">> >>

ASSUME /\ MaxPkgs \in 1..4 /\ NameIdx \subseteq 1..Len(NameTable) /\ NameIdx # {} /\ MaxMods \in 1..3
       /\ Palette \in 1..Cardinality(NameIdx)
       /\ NBases \in 1..Len(BaseTable) /\ NSchemes \in 1..Len(NameSchemes)
       /\ Entries \subseteq {"version", "path", "none"} /\ Places \subseteq {"packages", "sibling", "nested"}

VARIABLES phase,   \* "start" | "pkgs" | "deps" | "mods" | "open" | "done"
          npk,     \* number of packages of the configuration being built
          base,    \* directory of the root and its siblings (sequence of path components)
          scheme,  \* which naming scheme the packages use
          pal,     \* the name indices this configuration draws from (BFS: NameIdx)
          kinds,   \* sequence: [entry, place, of] of package i; of # 0: twin carrying the name of package `of`
          deps,    \* set of <<i, j>>: package i lists package j in its gleam.toml
          cur,     \* cursor of the builder (package index)
          mods,    \* set of modules [pkg, c]; c indexes Choice (directory x name)
          opened   \* sequence of files in the order the editor opened them
vars == <<phase, npk, base, scheme, pal, kinds, deps, cur, mods, opened>>

-----------------------------------------------------------------------------
(* the tree                                                                *)

Choice(c)  == [dir  |-> IF c % 2 = 1 THEN "src" ELSE "test", name |-> NameTable[(c + 1) \div 2]]
Choices    == {c \in 1..(2 * Len(NameTable)) : (c + 1) \div 2 \in pal /\ (TestDirs \/ c % 2 = 1)}
NameOf(m)  == Choice(m.c).name

FreeFile   == [pkg |-> 0, c |-> 1]     \* the free-standing file (not a module of any package)
Unresolved == [pkg |-> 0, c |-> 0]     \* "no file"

RootKind   == [entry |-> "root", place |-> "top", of |-> 0]
Pkgs       == 1..Len(kinds)
PkgNames   == NameSchemes[scheme]
IsTwin(p)  == kinds[p].of # 0
\* the name in gleam.toml and of the directory (a twin carries the name of its original) / a unique label
PkgName(p) == IF IsTwin(p) THEN PkgNames[kinds[p].of] ELSE PkgNames[p]
PkgId(p)   == IF IsTwin(p) THEN PkgNames[kinds[p].of] \o "_twin" ELSE PkgNames[p]
RootLoc    == base \o <<"app">>
Loc(p)     == CASE kinds[p].place = "top"      -> RootLoc
                [] kinds[p].place = "packages" -> RootLoc \o <<"build", "packages", PkgName(p)>>
                [] kinds[p].place = "sibling"  -> base \o <<PkgName(p)>>
                [] kinds[p].place = "nested"   -> RootLoc \o <<"packages", PkgName(p)>>

\* path of a file, as a sequence of components; the last one is the file stem (".gleam" is implied)
Path(f)    == IF f.pkg = 0 THEN <<"free", "lone">>
              ELSE Loc(f.pkg) \o <<Choice(f.c).dir>> \o Choice(f.c).name

Files      == mods \cup {FreeFile}

IsPrefix(s, t) == Len(s) <= Len(t) /\ SubSeq(t, 1, Len(s)) = s
Suffixes(s)    == {SubSeq(s, i, Len(s)) : i \in 1..Len(s)}

-----------------------------------------------------------------------------
(* the reference operators of C17                                          *)

\* every package root containing the path
RootsOf(path) == {p \in Pkgs : IsPrefix(Loc(p), path)}

\* each file belongs to the innermost package root containing it (0: none, a free-standing file)
RootOf(path) == LET R == RootsOf(path)
                IN IF R = {} THEN 0 ELSE CHOOSE p \in R : \A q \in R : Len(Loc(q)) <= Len(Loc(p))

\* <pkg>/src/a/b.gleam and <pkg>/test/a/b.gleam are the module a/b: the path relative to the package's src/ or
\* test/ directory.  Only the ONE component naming that directory is dropped: below it src, test, build and
\* packages are directory names like any other (src/test/helpers.gleam is test/helpers, not helpers).
ModuleName(path) == LET r   == RootOf(path)
                        rel == SubSeq(path, Len(Loc(r)) + 1, Len(path))
                    IN IF r = 0 \/ Len(rel) < 2 \/ rel[1] \notin SourceDirs THEN <<>> ELSE Tail(rel)

\* own package + direct dependencies, nothing else
Visible(p) == IF p = 0 THEN {} ELSE {p} \cup {q \in Pkgs : <<p, q>> \in deps}

\* packages under build/packages are external (navigable, not editable): the package DIRECTORY is
\* .../build/packages/<name>, however the package was referred to
UnderBuildPackages(loc) == Len(loc) >= 3 /\ loc[Len(loc) - 1] = "packages" /\ loc[Len(loc) - 2] = "build"
External(p) == UnderBuildPackages(Loc(p))

\* (LET: TLC evaluates a LET definition at most once per use of the enclosing operator)
Candidates(f, name) == LET vis == Visible(RootOf(Path(f)))
                       IN {m \in mods : m.pkg \in vis /\ ModuleName(Path(m)) = name}
\* the importer's own module of that name wins over a dependency's
Preferred(f, name)  == LET C   == Candidates(f, name)
                           r   == RootOf(Path(f))
                           own == {m \in C : m.pkg = r}
                       IN IF own # {} THEN own ELSE C

\* the file an `import name` written in file f refers to
Resolve(f, name) == LET P == Preferred(f, name) IN IF P = {} THEN Unresolved ELSE CHOOSE m \in P : TRUE

-----------------------------------------------------------------------------
(* derived imports: one use site per (module, import name) that cannot create an import cycle *)

NamesInUse  == {NameOf(m) : m \in mods}
\* what gets imported: every module name in use and every proper suffix of one (`helpers`, `packages/zed`, `zed`)
ImportNames == UNION {Suffixes(n) : n \in NamesInUse}
Later(m, t) == t.pkg > m.pkg \/ (t.pkg = m.pkg /\ t.c > m.c)
UseSites    == {u \in [from : Files, name : ImportNames] :
                   \/ u.from = FreeFile
                   \/ LET t == Resolve(u.from, u.name) IN t = Unresolved \/ Later(u.from, t)}
\* modules an import of `name` must NOT land in although their path ends in it (t: where it must land)
Decoys(from, name, t) == {x \in mods : name \in Suffixes(NameOf(x)) /\ x # t /\ x # from}

-----------------------------------------------------------------------------
(* builder                                                                 *)

Pick(S) == IF Sim THEN (IF S = {} THEN {} ELSE {RandomElement(S)}) ELSE S

Bases   == {BaseTable[i] : i \in 1..NBases}
\* simulation: larger projects are drawn more often
SizeLots == {<<n, k>> \in (1..MaxPkgs) \X (1..6) : k <= (IF n = 1 THEN 1 ELSE 2 * n - 2)}
Palettes == {S \in SUBSET NameIdx : Cardinality(S) = Palette}

Init == /\ kinds = <<>> /\ deps = {} /\ mods = {} /\ opened = <<>> /\ cur = 1
        /\ IF Sim THEN phase = "start" /\ npk = 0 /\ base = <<>> /\ scheme = 1 /\ pal = {}
                  ELSE phase = "pkgs" /\ npk \in 1..MaxPkgs /\ base \in Bases /\ pal = NameIdx
                       /\ scheme \in (IF npk = 1 THEN {1} ELSE 1..NSchemes)   \* one package: its name is "app" anyway

\* simulation only: draw the size, the location of the local packages and the names
Start == /\ phase = "start"
         /\ npk' = RandomElement(SizeLots)[1]
         /\ base' = RandomElement(Bases)
         /\ scheme' = RandomElement(1..NSchemes)
         /\ pal' = RandomElement(Palettes)
         /\ phase' = "pkgs"
         /\ UNCHANGED <<kinds, deps, cur, mods, opened>>

\* entry and place are independent; what is excluded does not denote a project:
\*   a version entry MEANS <root>/build/packages/<name> (a same-named directory elsewhere is a twin);
\*   a package nobody lists and that lives in build/packages is not part of any project.
ValidShape(e, pl) == /\ e = "version" => pl = "packages"
                     /\ e = "none"    => pl # "packages"
\* packages a twin can be made of: they live in build/packages and have no twin yet
Twinnable == {q \in Pkgs : kinds[q].place = "packages" /\ \A r \in Pkgs : kinds[r].of # q}
DepKinds  == {k \in [entry : Entries, place : Places, of : {0} \cup Twinnable] :
                 /\ ValidShape(k.entry, k.place)
                 /\ (k.of # 0) <=> (k.entry = "none")}

AddPackage ==
    /\ phase = "pkgs"
    /\ \E k \in Pick(IF kinds = <<>> THEN {RootKind} ELSE DepKinds) :
          kinds' = Append(kinds, k)
    /\ phase' = IF Len(kinds) + 1 < npk THEN "pkgs" ELSE IF npk = 1 THEN "mods" ELSE "deps"
    /\ cur' = IF Len(kinds) + 1 < npk THEN cur ELSE IF npk = 1 THEN 1 ELSE 2
    /\ UNCHANGED <<npk, base, scheme, pal, deps, mods, opened>>

\* who may list package j: a package of lower index that is not a twin; a package living in build/packages lists
\* only packages living there; nobody lists a twin
Sources(j) == {i \in 1..(j - 1) : ~IsTwin(i) /\ (kinds[i].place = "packages" => kinds[j].place = "packages")}
ImporterSets(j) == IF IsTwin(j) THEN {{}} ELSE SUBSET Sources(j) \ {{}}

AddDep ==
    /\ phase = "deps"
    /\ \E S \in Pick(ImporterSets(cur)) :
          deps' = deps \cup {<<i, cur>> : i \in S}
    /\ phase' = IF cur < npk THEN "deps" ELSE "mods"
    /\ cur' = IF cur < npk THEN cur + 1 ELSE 1
    /\ UNCHANGED <<npk, base, scheme, pal, kinds, mods, opened>>

\* module sets package p may get, given the packages filled before it: names distinct inside the package
\* (src/a.gleam and test/a.gleam would both be module a) and distinct from those of every package that
\* is a direct dependency of a common importer
Siblings(p)  == {q \in Pkgs : q # p /\ \E r \in Pkgs : <<r, p>> \in deps /\ <<r, q>> \in deps}
TakenBy(Q)   == {NameOf(m) : m \in {x \in mods : x.pkg \in Q}}
ModSets(p)   == {S \in SUBSET Choices :
                    /\ Cardinality(S) \in 1..MaxMods
                    /\ \A c1, c2 \in S : Choice(c1).name = Choice(c2).name => c1 = c2
                    /\ \A c \in S : Choice(c).name \notin TakenBy(Siblings(p))}
ModSetsOrNone(p) == IF ModSets(p) = {} THEN {{}} ELSE ModSets(p)
\* simulation: every other twin is an exact copy of its original (BFS reaches the copies anyway)
CopyOf(p)    == {m.c : m \in {x \in mods : x.pkg = kinds[p].of}}
ModSetsFor(p) == IF Sim /\ IsTwin(p) /\ CopyOf(p) \subseteq Choices /\ RandomElement({TRUE, FALSE})
                 THEN {CopyOf(p)} ELSE ModSetsOrNone(p)

AddModules ==
    /\ phase = "mods"
    /\ \E S \in Pick(ModSetsFor(cur)) :
          mods' = mods \cup {[pkg |-> cur, c |-> c] : c \in S}
    /\ phase' = IF cur < npk THEN "mods" ELSE "open"
    /\ cur' = IF cur < npk THEN cur + 1 ELSE 1
    /\ UNCHANGED <<npk, base, scheme, pal, kinds, deps, opened>>

-----------------------------------------------------------------------------
(* the editor opens the files                                              *)

Key(f)      == IF f.pkg = 0 THEN 1000 ELSE 100 * f.pkg + f.c
Least(S)    == CHOOSE f \in S : \A g \in S : Key(f) <= Key(g)
Unopened    == {f \in Files : \A i \in 1..Len(opened) : opened[i] # f}
\* BFS: the first file of any package, or the free file, goes first; the rest follows in canonical order
Firsts      == {FreeFile} \cup {Least({m \in mods : m.pkg = p}) : p \in {q \in Pkgs : \E m \in mods : m.pkg = q}}
Openable    == IF Sim THEN Unopened ELSE IF opened = <<>> THEN Firsts ELSE {Least(Unopened)}

Open ==
    /\ phase = "open" /\ Unopened # {}
    /\ \E f \in Pick(Openable) : opened' = Append(opened, f)
    /\ UNCHANGED <<phase, npk, base, scheme, pal, kinds, deps, cur, mods>>

-----------------------------------------------------------------------------
(* the finished configuration with the specification's predictions        *)

PkgRec(p) == [id       |-> PkgId(p),
              name     |-> PkgName(p),
              entry    |-> kinds[p].entry,
              place    |-> kinds[p].place,
              twin_of  |-> IF IsTwin(p) THEN PkgId(kinds[p].of) ELSE "",
              loc      |-> Loc(p),
              external |-> External(p),
              \* how this package's gleam.toml names its dependencies: by version, or by the relative path to q's directory
              deps     |-> {[id |-> PkgId(q), name |-> PkgName(q), entry |-> kinds[q].entry, loc |-> Loc(q)] :
                               q \in {x \in Pkgs : <<p, x>> \in deps}}]

FileRec(f) == [path |-> Path(f),
               role |-> IF f.pkg = 0 THEN "free" ELSE "module",
               pkg  |-> IF RootOf(Path(f)) = 0 THEN "" ELSE PkgId(RootOf(Path(f))),
               modname |-> ModuleName(Path(f))]

UseRec(u) == LET t == Resolve(u.from, u.name)
             IN [from    |-> Path(u.from),
                 name    |-> u.name,
                 target  |-> IF t = Unresolved THEN <<>> ELSE Path(t),
                 targetpkg |-> IF t = Unresolved THEN "" ELSE PkgId(t.pkg),
                 \* modules whose path ends in the imported name but which the import must NOT resolve to (not
                 \* visible from the importer, or the name is only the tail of their module name)
                 decoys  |-> {Path(m) : m \in Decoys(u.from, u.name, t)}]

\* A history step at the project level: the root project's gleam.toml loses one of its dependency entries (the editor reports
\* the file changed on disk) and gets it back later.  While the entry is gone the package is still on disk and may still be
\* loaded, but it is no direct dependency of the root project any more: the imports of the root project's files resolve as
\* under `deps` without that edge (everything else is unchanged).
VisibleD(p, D) == IF p = 0 THEN {} ELSE {p} \cup {q \in Pkgs : <<p, q>> \in D}
ResolveD(f, name, D) ==
    LET r   == RootOf(Path(f))
        C   == {m \in mods : m.pkg \in VisibleD(r, D) /\ ModuleName(Path(m)) = name}
        own == {m \in C : m.pkg = r}
        P   == IF own # {} THEN own ELSE C
    IN IF P = {} THEN Unresolved ELSE CHOOSE m \in P : TRUE
DropCands == {q \in Pkgs : <<1, q>> \in deps}
Dropped   == CHOOSE q \in DropCands : \A x \in DropCands : q <= x
Alt == IF DropCands = {} THEN [drop |-> "", dropname |-> "", uses |-> {}]
       ELSE [drop |-> PkgId(Dropped), dropname |-> PkgName(Dropped),
             uses |-> {LET t == ResolveD(u.from, u.name, deps \ {<<1, Dropped>>})
                       IN [from |-> Path(u.from), name |-> u.name,
                           target |-> IF t = Unresolved THEN <<>> ELSE Path(t),
                           targetpkg |-> IF t = Unresolved THEN "" ELSE PkgId(t.pkg)] :
                       u \in {v \in UseSites : v.from.pkg = 1}}]

Config == [base  |-> base,
           pkgs  |-> [p \in Pkgs |-> PkgRec(p)],
           files |-> {FileRec(f) : f \in Files},
           order |-> [i \in 1..Len(opened) |-> Path(opened[i])],
           uses  |-> {UseRec(u) : u \in UseSites},
           alt   |-> Alt]

Finish ==
    /\ phase = "open" /\ Unopened = {}
    /\ PrintT(<<"CASE", ToJson(Config)>>)
    /\ IF Sim
       THEN /\ phase' = "start" /\ npk' = 0 /\ base' = <<>> /\ scheme' = 1 /\ pal' = {} /\ kinds' = <<>> /\ deps' = {}
            /\ mods' = {} /\ opened' = <<>> /\ cur' = 1
       ELSE /\ phase' = "done" /\ UNCHANGED <<npk, base, scheme, pal, kinds, deps, cur, mods, opened>>

Next == Start \/ AddPackage \/ AddDep \/ AddModules \/ Open \/ Finish

Spec == Init /\ [][Next]_vars

-----------------------------------------------------------------------------
(* invariants of the model.  TypeOK, RootsDistinct, DepsShape and          *)
(* ExternalIsPlace are checked in every state; the ones about the          *)
(* reference operators in the state in which the configuration is complete *)
(* (Built: before the first Open; the Open steps do not change the         *)
(* configuration).                                                         *)

Built == phase = "open" /\ opened = <<>>

TypeOK ==
    /\ phase \in {"start", "pkgs", "deps", "mods", "open", "done"}
    /\ npk \in 0..MaxPkgs /\ Len(kinds) <= MaxPkgs /\ scheme \in 1..NSchemes /\ pal \subseteq NameIdx
    /\ \A i \in Pkgs : IF i = 1 THEN kinds[i] = RootKind
                       ELSE /\ kinds[i].entry \in Entries /\ kinds[i].place \in Places
                            /\ ValidShape(kinds[i].entry, kinds[i].place)
                            /\ kinds[i].of \in 0..(i - 1)
    /\ deps \subseteq {<<i, j>> \in Pkgs \X Pkgs : i < j}
    /\ \A m \in mods : m.pkg \in Pkgs /\ m.c \in Choices
    /\ \A i \in 1..Len(opened) : opened[i] \in Files

\* package roots are pairwise different directories (also a twin and its original); package labels are unique,
\* package NAMES are not: exactly a twin and its original share one
RootsDistinct == \A p, q \in Pkgs : /\ Loc(p) = Loc(q) => p = q
                                    /\ PkgId(p) = PkgId(q) => p = q
                                    /\ (p # q /\ PkgName(p) = PkgName(q)) => (kinds[p].of = q \/ kinds[q].of = p)

\* External is decided by the directory and by nothing else: it coincides with place = "packages" for every base
\* (packages/..., build/libs/... look similar and are not build/packages), whatever the entry is; root, siblings,
\* nested members and twins are local
ExternalIsPlace == \A p \in Pkgs : /\ External(p) <=> (kinds[p].place = "packages")
                                   /\ kinds[p].entry \in {"root", "none"} => ~External(p)

\* RootOf is the longest-prefix root, it is unique, and it is the package the module was put into
\* (non-trivial: the root package's directory is a prefix of every build/packages and nested package's files)
RootOfIsInnermost == Built =>
    /\ \A m \in mods :
         LET path == Path(m) IN
         /\ m.pkg \in RootsOf(path)
         /\ RootOf(path) = m.pkg
         /\ \A q \in RootsOf(path) : q # m.pkg => Len(Loc(q)) < Len(Loc(m.pkg))
         /\ kinds[m.pkg].place \in {"packages", "nested"} => 1 \in RootsOf(path) /\ RootOf(path) # 1
    /\ RootOf(Path(FreeFile)) = 0

\* ModuleName is what was put there: the path is <package root>/<src|test>/<module name>; it is injective per
\* package; and no proper suffix of a module's name names that module
ModuleNameInjective == Built =>
    /\ \A m \in mods : /\ ModuleName(Path(m)) = NameOf(m)
                       /\ \E d \in SourceDirs : Path(m) = Loc(m.pkg) \o <<d>> \o ModuleName(Path(m))
                       /\ \A s \in Suffixes(NameOf(m)) : s # NameOf(m) => ModuleName(Path(m)) # s
    /\ \A m1, m2 \in mods : m1.pkg = m2.pkg /\ ModuleName(Path(m1)) = ModuleName(Path(m2)) => m1 = m2

\* Resolve is a function: at most one preferred target for every (file, name)
\* dropping a dependency entry never makes an import resolve into that package, and never changes an import that did not
\* resolve into it - except that an equally named module of ANOTHER visible package may now be the one meant
DropIsLocal == Built => \A u \in {v \in UseSites : v.from.pkg = 1} :
                  DropCands # {} =>
                     LET t0 == Resolve(u.from, u.name)
                         t1 == ResolveD(u.from, u.name, deps \ {<<1, Dropped>>})
                     IN /\ (t1 # Unresolved => t1.pkg # Dropped)
                        /\ (t0 # Unresolved /\ t0.pkg # Dropped => t1 = t0)

ResolveIsFunction == Built =>
    \A f \in Files : \A n \in ImportNames : Cardinality(Preferred(f, n)) <= 1

\* ... whose value is a module of exactly that name in a visible package, the importer's own if there is one,
\* and unresolved exactly if no visible package has such a module; nothing ever resolves into a twin from outside
ResolveIsVisible == Built =>
    \A f \in Files : \A n \in ImportNames :
        LET t == Resolve(f, n)
            r == RootOf(Path(f))
        IN /\ t # Unresolved => /\ t \in mods /\ NameOf(t) = n
                                /\ t.pkg = r \/ <<r, t.pkg>> \in deps
                                /\ (\E m \in mods : m.pkg = r /\ NameOf(m) = n) => t.pkg = r
                                /\ IsTwin(t.pkg) => t.pkg = r
           /\ t = Unresolved => \A m \in mods : NameOf(m) = n => m.pkg # r /\ <<r, m.pkg>> \notin deps

\* derived imports never form a cycle: every resolved use site points to a later file
ImportsAcyclic == Built =>
    \A u \in UseSites : LET t == Resolve(u.from, u.name)
                       IN u.from # FreeFile /\ t # Unresolved => Later(u.from, t)

\* dependencies: packages in build/packages list packages in build/packages only; everybody but the root and the
\* twins is listed; a twin lists nobody and is listed by nobody, and its original lives in build/packages
DepsShape ==
    /\ \A e \in deps : /\ kinds[e[1]].place = "packages" => kinds[e[2]].place = "packages"
                       /\ ~IsTwin(e[1]) /\ ~IsTwin(e[2])
    /\ \A p \in Pkgs : IsTwin(p) => kinds[kinds[p].of].place = "packages" /\ ~IsTwin(kinds[p].of)
    /\ phase \in {"mods", "open", "done"} => \A j \in Pkgs : j > 1 /\ ~IsTwin(j) => \E i \in Pkgs : <<i, j>> \in deps

=============================================================================
