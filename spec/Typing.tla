------------------------------- MODULE Typing -------------------------------
(***************************************************************************)
(* Type-directed generator for property C09: every expression is derived   *)
(* against a chosen monomorphic goal type, so the type of every binder is  *)
(* known by construction (Gleam's typing rules read goal-first).           *)
(*                                                                         *)
(* Types are written in Gleam's display syntax (strings), over the         *)
(* universe  D0 = {Int, Float, String, Bool, Nil, T}  and                  *)
(* D1 = D0 + List(s), #(s, t), Result(s, t), Box(s), fn(s) -> t  (s,t:D0). *)
(*                                                                         *)
(* The module under test consists of a fixed prelude (text in the harness) *)
(*   type T { T(a: Int, b: String) }      type Box(x) { Box(inner: x) }    *)
(*   fn id(x) { x }                        fn apply(x: a, f: fn(a) -> b)   *)
(*   fn map(l: List(a), f: fn(a) -> b) -> List(b)   fn add(a: Int, b: Int) *)
(*   fn mk_ok(x: a, e: b) -> Result(a, b)    fn mk_err(x: a, e: b) -> ...  *)
(*   type M { M(Int, key: String, value: Float) }   (unlabelled + labelled) *)
(*   fn wrap(item) { item }   fn item() { wrap(1) }   (a parameter spelled  *)
(*   like a top-level function that calls back: wrap must stay generic)     *)
(* and of generated functions g1..gn whose signatures (parameter types,    *)
(* result type) are chosen up front, so calls may refer forwards,          *)
(* backwards and to themselves (recursion groups); return types are never  *)
(* annotated - they must be inferred.                                      *)
(*                                                                         *)
(* out: tokens; a binder token carries the type Gleam assigns it (ty),     *)
(* a function name token carries its full signature.                       *)
(***************************************************************************)
EXTENDS Naturals, Sequences, FiniteSets, TLC, Json

CONSTANTS Budget, NFuns, Sim, Masked

D0 == {"Int", "Float", "String", "Bool", "Nil", "T", "M"}
L(s)     == "List(" \o s \o ")"
Tu(s, t) == "#(" \o s \o ", " \o t \o ")"
R(s, t)  == "Result(" \o s \o ", " \o t \o ")"
Bx(s)    == "Box(" \o s \o ")"
F1(s, t) == "fn(" \o s \o ") -> " \o t
PinTypes == {"Int", "Float", "String"}     \* types an unannotated parameter can be pinned to by one use
Lists == {L(s) : s \in D0}
Tups  == {Tu(s, t) : s \in D0, t \in D0}
Ress  == {R(s, t) : s \in D0, t \in D0}
Boxes == {Bx(s) : s \in D0}
Funs  == {F1(s, t) : s \in D0, t \in D0}
D1 == D0 \cup Lists \cup Tups \cup Ress \cup Boxes \cup Funs

\* decomposition of a type of D1
ElemOf(ty) == CHOOSE s \in D0 : ty = L(s) \/ ty = Bx(s)
FstOf(ty)  == CHOOSE s \in D0 : \E t \in D0 : ty = Tu(s, t) \/ ty = R(s, t) \/ ty = F1(s, t)
SndOf(ty)  == CHOOSE t \in D0 : \E s \in D0 : ty = Tu(s, t) \/ ty = R(s, t) \/ ty = F1(s, t)

VARIABLES todo, out, env, budget, sigs, nv, phase, cur     \* cur: index of the function whose body is being generated
vars == <<todo, out, env, budget, sigs, nv, phase, cur>>

Sym(s, x, n) == [s |-> s, x |-> x, n |-> n]
T(x)    == Sym("T", x, 0)
TY(x)   == Sym("TY", x, 0)             \* a type written in an annotation
EX(ty)  == Sym("EXPR", ty, 0)          \* an expression of type ty
PA(ty)  == Sym("PAT", ty, 0)           \* a pattern matching values of type ty
BIND(ty) == Sym("BIND", ty, 0)         \* a fresh variable binder of type ty
GR(ty)  == Sym("GROUP", ty, 0)         \* an operand: `{ e }` (Gleam groups with braces), so precedence never regroups it
P(c, p, r) == [c |-> c, p |-> p, r |-> r]

Pick(S) == IF Sim /\ S # {} THEN {RandomElement(S)} ELSE S

\* environment: sequence of frames, each a set of <<name, type>>; a mark frame delimits a block
Mark == [m |-> TRUE, b |-> {}]
VarsOf(ty) == UNION {{e[1] : e \in {x \in env[i].b : x[2] = ty}} : i \in 1..Len(env)}
RECURSIVE PopToMark(_)
PopToMark(fs) == IF fs = <<>> THEN <<>> ELSE IF fs[Len(fs)].m THEN SubSeq(fs, 1, Len(fs) - 1) ELSE PopToMark(SubSeq(fs, 1, Len(fs) - 1))

\* generated functions whose result type is ty (index set)
FunsReturning(ty) == {k \in 1..Len(sigs) : sigs[k].ret = ty}
SigText(k) == "fn g" \o ToString(k) \o "("
              \o (IF Len(sigs[k].ps) = 0 THEN "" ELSE IF Len(sigs[k].ps) = 1 THEN sigs[k].ps[1] ELSE sigs[k].ps[1] \o ", " \o sigs[k].ps[2])
              \o ") -> " \o sigs[k].ret

Block(ty) == <<T("{"), Sym("MARK", "", 0), EX(ty), Sym("POPMARK", "", 0), T("}")>>

\* arguments of a call to generated function k
Args(k) == IF Len(sigs[k].ps) = 0 THEN <<>>
           ELSE IF Len(sigs[k].ps) = 1 THEN <<EX(sigs[k].ps[1])>>
           ELSE <<EX(sigs[k].ps[1]), T(","), EX(sigs[k].ps[2])>>
\* Signature help (beyond the listed properties): with the cursor right after the `(` of a call, or right after the
\* n-th comma of its argument list, the editor shows the callee's type `(P1, P2) -> R` and marks parameter n (0-based)
\* as active.  CALLOPEN / ARGSEP are the `(` and `,` tokens of such a call, tagged with what must be shown there.
CallSig(ps, ret) == "(" \o (IF Len(ps) = 0 THEN "" ELSE IF Len(ps) = 1 THEN ps[1] ELSE ps[1] \o ", " \o ps[2]) \o ") -> " \o ret
CallTo(name, ps, ret) ==
    <<T(name), Sym("CALLOPEN", CallSig(ps, ret), 0)>>
    \o (IF Len(ps) = 0 THEN <<>> ELSE IF Len(ps) = 1 THEN <<EX(ps[1])>> ELSE <<EX(ps[1]), Sym("ARGSEP", CallSig(ps, ret), 1), EX(ps[2])>>)
    \o <<T(")")>>

Prods(h) ==
  IF h.s \in {"EXPR", "EXPRP"} THEN
    LET ty == h.x IN
    \* rules available at every type (not for EXPRP: the body of a function with an inferred result type starts
    \* with a rule whose result type is fixed by the rule itself, otherwise a body consisting of recursive
    \* calls only would legitimately be inferred as a type variable)
    (IF h.s = "EXPRP" THEN {} ELSE
    { P(1, "let_in", <<T("{"), Sym("MARK", "", 0), T("let"), BIND(s), T("="), EX(s), Sym("COMMIT", "", 0), EX(ty), Sym("POPMARK", "", 0), T("}")>>) : s \in Pick(D0) }
    \cup { P(1, "case", <<T("case"), EX(s), T("{"), Sym("MARK", "", 0), PA(s), Sym("COMMIT", "", 0), T("->"), EX(ty), Sym("POPMARK", "", 0),
                          T("_"), T("->"), EX(ty), T("}")>>) : s \in Pick(D1 \ Funs) }
    \cup { P(1, "id_call", <<T("id"), T("("), EX(ty), T(")")>>), P(1, "wrap_call", <<T("wrap"), T("("), EX(ty), T(")")>>) }
    \* calls to generated functions: to earlier ones (acyclic), and to itself / later ones (recursion groups)
    \cup { P(1, "call_gen_back", CallTo("g" \o ToString(k), sigs[k].ps, sigs[k].ret)) : k \in {j \in FunsReturning(ty) : j < cur} }
    \cup { P(1, "call_gen_rec", <<T("g" \o ToString(k)), T("(")>> \o Args(k) \o <<T(")")>>) : k \in {j \in FunsReturning(ty) : j >= cur} }
    \cup (IF ty \in D0 THEN
            { P(1, "tuple_index0", <<GR(Tu(ty, s)), T("."), T("0")>>) : s \in Pick(D0) }
            \cup { P(1, "tuple_index1", <<GR(Tu(s, ty)), T("."), T("1")>>) : s \in Pick(D0) }
            \cup { P(1, "box_field", <<GR(Bx(ty)), T("."), T("inner")>>) }
            \* the argument that fixes the lambda parameter's type comes first (arguments are checked left to right; a field
            \* access on a parameter whose type is not known yet is an error in Gleam itself)
            \cup { P(1, "apply_lambda", <<T("apply"), T("("), EX(s), T(","), T("fn"), T("("), Sym("MARK", "", 0), BIND(s), Sym("COMMIT", "", 0), T(")")>>
                                        \o <<T("{"), EX(ty), T("}"), Sym("POPMARK", "", 0), T(")")>>) : s \in Pick(D0) }
            \cup { P(1, "pipe_id", <<GR(ty), T("|>"), T("id")>>) }
          ELSE {}))
    \* rules by goal type
    \cup (CASE ty = "Int" -> { P(0, "int", <<T("1")>>), P(1, "add", <<GR("Int"), T("+"), GR("Int")>>), P(1, "field_a", <<GR("T"), T("."), T("a")>>),
                                P(1, "add_fn", CallTo("add", <<"Int", "Int">>, "Int")),
                                P(1, "pipe_add", <<GR("Int"), T("|>"), T("add"), T("("), EX("Int"), T(")")>>) }
            [] ty = "Float" -> { P(0, "float", <<T("1.5")>>), P(1, "fmul", <<GR("Float"), T("*."), GR("Float")>>) }
            [] ty = "String" -> { P(0, "string", <<T("\"s\"")>>), P(1, "concat", <<GR("String"), T("<>"), GR("String")>>), P(1, "field_b", <<GR("T"), T("."), T("b")>>),
                                  P(1, "field_key", <<GR("M"), T("."), T("key")>>) }
            [] ty = "Bool" -> { P(0, "true", <<T("True")>>), P(1, "less", <<GR("Int"), T("<"), GR("Int")>>), P(1, "fless", <<GR("Float"), T("<."), GR("Float")>>) }
                              \cup { P(1, "equal", <<GR(s), T("=="), GR(s)>>) : s \in Pick(D0) }
            [] ty = "Nil" -> { P(0, "nil", <<T("Nil")>>) }
            [] ty = "T" -> { P(0, "ctor_T", <<T("T"), T("("), EX("Int"), T(","), EX("String"), T(")")>>),
                             P(1, "ctor_T_labels", <<T("T"), T("("), T("b"), T(":"), EX("String"), T(","), T("a"), T(":"), EX("Int"), T(")")>>) }
            \* `[]`, `Ok(x)`, `Error(e)` alone leave a type variable open, so they are only generated where the other
            \* component is pinned: lists always have an element, results are built by the prelude's mk_ok / mk_err
            [] ty = "M" -> { P(0, "ctor_M", <<T("M"), T("("), EX("Int"), T(","), T("key"), T(":"), EX("String"), T(","), T("value"), T(":"), EX("Float"), T(")")>>),
                             P(1, "ctor_M_swapped", <<T("M"), T("("), EX("Int"), T(","), T("value"), T(":"), EX("Float"), T(","), T("key"), T(":"), EX("String"), T(")")>>) }
            [] ty \in Lists -> { P(0, "list_one", <<T("["), EX(ElemOf(ty)), T("]")>>),
                                 P(1, "list_spread", <<T("["), EX(ElemOf(ty)), T(","), T(".."), EX(ty), T("]")>>) }
                               \cup { P(1, "map_lambda", <<T("map"), T("("), EX(L(s)), T(","), T("fn"), T("("), Sym("MARK", "", 0), BIND(s), Sym("COMMIT", "", 0), T(")")>>
                                                         \o <<T("{"), EX(ElemOf(ty)), T("}"), Sym("POPMARK", "", 0), T(")")>>) : s \in Pick(D0) }
            [] ty \in Tups -> { P(0, "tuple", <<T("#"), T("("), EX(FstOf(ty)), T(","), EX(SndOf(ty)), T(")")>>) }
            [] ty \in Ress -> { P(0, "mk_ok", <<T("mk_ok"), T("("), EX(FstOf(ty)), T(","), EX(SndOf(ty)), T(")")>>),
                                P(0, "mk_err", <<T("mk_err"), T("("), EX(FstOf(ty)), T(","), EX(SndOf(ty)), T(")")>>) }
            [] ty \in Boxes -> { P(0, "box", <<T("Box"), T("("), EX(ElemOf(ty)), T(")")>>),
                                 P(1, "box_label", <<T("Box"), T("("), T("inner"), T(":"), EX(ElemOf(ty)), T(")")>>) }
            [] ty \in Funs -> (IF FstOf(ty) \in PinTypes
                               THEN { P(0, "lambda_pinned", <<T("fn"), T("("), Sym("MARK", "", 0), BIND(FstOf(ty)), Sym("COMMIT", "", 0), T(")"), T("{"), Sym("PINLAST", FstOf(ty), 0)>>
                                                          \o <<EX(SndOf(ty)), T("}"), Sym("POPMARK", "", 0)>>) }
                               ELSE {})
                              \cup { P(0, "lambda_annot", <<T("fn"), T("("), Sym("MARK", "", 0), BIND(FstOf(ty)), T(":"), TY(FstOf(ty)), Sym("COMMIT", "", 0), T(")")>>
                                                    \o <<T("{"), EX(SndOf(ty)), T("}"), Sym("POPMARK", "", 0)>>) }
                              \cup (IF ty = F1("Int", "Int") THEN { P(1, "capture", <<T("add"), T("("), T("_"), T(","), EX("Int"), T(")")>>) } ELSE {}))
  ELSE IF h.s = "PAT" THEN
    LET ty == h.x IN
    (IF h.n = 0 THEN { P(0, "p_var", <<BIND(ty)>>), P(1, "p_discard", <<T("_")>>) } ELSE {})
    \cup (CASE ty \in Lists -> { P(1, "p_list", <<T("["), BIND(ElemOf(ty)), T(","), T(".."), BIND(ty), T("]")>>), P(1, "p_list1", <<T("["), PA(ElemOf(ty)), T("]")>>) }
            [] ty \in Tups -> { P(1, "p_tuple", <<T("#"), T("("), PA(FstOf(ty)), T(","), PA(SndOf(ty)), T(")")>>) }
            [] ty \in Ress -> { P(1, "p_ok", <<T("Ok"), T("("), PA(FstOf(ty)), T(")")>>), P(1, "p_error", <<T("Error"), T("("), PA(SndOf(ty)), T(")")>>) }
            [] ty \in Boxes -> { P(1, "p_box", <<T("Box"), T("("), PA(ElemOf(ty)), T(")")>>), P(1, "p_box_label", <<T("Box"), T("("), T("inner"), T(":"), PA(ElemOf(ty)), T(")")>>) }
            [] ty = "T" -> { P(1, "p_T", <<T("T"), T("("), T("a"), T(":"), PA("Int"), T(","), T("b"), T(":"), PA("String"), T(")")>>),
                             P(1, "p_T_spread", <<T("T"), T("("), PA("Int"), T(","), T(".."), T(")")>>) }
            [] ty = "M" -> { P(1, "p_M_positional", <<T("M"), T("("), PA("Int"), T(","), PA("String"), T(","), PA("Float"), T(")")>>),
                             P(1, "p_M_mixed", <<T("M"), T("("), PA("Int"), T(","), T("value"), T(":"), PA("Float"), T(","), T("key"), T(":"), PA("String"), T(")")>>),
                             P(1, "p_M_partial", <<T("M"), T("("), PA("Int"), T(","), PA("String"), T(","), T(".."), T(")")>>) }
            [] ty = "String" -> { P(1, "p_prefix", <<T("\"s\""), T("<>"), BIND("String")>>), P(1, "p_string", <<T("\"s\"")>>) }
            [] ty = "Int" -> { P(1, "p_int", <<T("1")>>) }
            [] ty = "Bool" -> { P(1, "p_true", <<T("True")>>) }
            [] OTHER -> {})
          \* `x as y` on a plain variable is a recorded parser finding (C04 F13): only structured patterns get `as`
          \cup (IF h.n = 0 /\ (ty \in Lists \cup Tups \cup Ress \cup Boxes \cup {"T", "M", "String", "Int", "Bool"}) THEN { P(1, "p_as", <<Sym("PAT", ty, 1), T("as"), BIND(ty)>>) } ELSE {})
  ELSE {}

Init == /\ todo = <<>> /\ out = <<>> /\ env = <<>> /\ budget = Budget /\ sigs = <<>> /\ nv = 0 /\ phase = "header" /\ cur = 0

\* signatures first: parameter types (annotated ones from ParamTypes, an unannotated first parameter pinned by a
\* use), result type (inferred when it is a D0 type, annotated otherwise).  BFS mode: one parameterless function.
ParamTypes == D0 \cup {L("Int"), Tu("Int", "String"), Bx("Int"), R("Int", "String")}
BfsRets    == D0 \cup {L("Int"), Tu("Int", "String"), R("Int", "String"), Bx("Int"), F1("Int", "Int")}
Header == /\ phase = "header"
          /\ IF Sim
             THEN \E n \in Pick(0..2) : \E ps \in Pick([1..n -> ParamTypes]) : \E pin \in Pick(BOOLEAN) : \E r \in Pick(D1) :
                    /\ sigs' = Append(sigs, [ps |-> ps, pin |-> (pin /\ n >= 1 /\ ps[1] \in PinTypes), ret |-> r])
                    /\ IF Len(sigs) + 1 = NFuns
                       THEN todo' = [k \in 1..NFuns |-> Sym("FUN", "", k)] /\ phase' = "body"
                       ELSE UNCHANGED <<todo, phase>>
             ELSE \/ \E r \in BfsRets :
                       /\ sigs' = <<[ps |-> <<>>, pin |-> FALSE, ret |-> r]>>
                       /\ todo' = <<Sym("FUN", "", 1)>> /\ phase' = "body"
                  \* exhaustive over patterns: one function per scrutinee type, `case p { PAT -> 1 _ -> 1 }`
                  \/ \E ty \in D1 \ Funs :
                       /\ sigs' = <<[ps |-> <<ty>>, pin |-> FALSE, ret |-> "Int"]>>
                       /\ todo' = <<Sym("FUNSTART", "", 1), T("fn"), Sym("FUNNAME", "", 1), T("("), Sym("MARK", "", 0), Sym("PARAM", ty, 1), T(":"), TY(ty), T(")"), T("{"),
                                    T("case"), T("p1a"), T("{"), Sym("MARK", "", 0), PA(ty), Sym("COMMIT", "", 0), T("->"), T("1"), Sym("POPMARK", "", 0),
                                    T("_"), T("->"), T("1"), T("}"), T("}"), Sym("POPMARK", "", 0), Sym("FUNEND", "", 1)>>
                       /\ phase' = "body"
          /\ UNCHANGED <<out, env, budget, nv, cur>>

Tok(t, r, ty) == [t |-> t, r |-> r, ty |-> ty]

PinStmt(ty, v) == CASE ty = "Int" -> <<T("let"), T("_"), T("="), T(v), T("+"), T("1")>>
                    [] ty = "Float" -> <<T("let"), T("_"), T("="), T(v), T("+."), T("1.5")>>
                    [] ty = "String" -> <<T("let"), T("_"), T("="), T(v), T("<>"), T("\"s\"")>>

Step ==
  /\ phase = "body" /\ todo # <<>>
  /\ LET h == todo[1]  rest == Tail(todo) IN
     CASE h.s = "T" -> /\ out' = Append(out, Tok(h.x, "tok", "")) /\ todo' = rest /\ UNCHANGED <<env, budget, nv, cur>>
       [] h.s = "CALLOPEN" -> /\ out' = Append(out, Tok("(", "callopen", h.x)) /\ todo' = rest /\ UNCHANGED <<env, budget, nv, cur>>
       [] h.s = "ARGSEP" -> /\ out' = Append(out, Tok(",", "argsep" \o ToString(h.n), h.x)) /\ todo' = rest /\ UNCHANGED <<env, budget, nv, cur>>
       [] h.s = "TY" -> /\ out' = Append(out, Tok(h.x, "type", "")) /\ todo' = rest /\ UNCHANGED <<env, budget, nv, cur>>
       [] h.s = "FUN" ->
            \* fn gk(p1: s1, p2: s2) { body }  - the first parameter unannotated but pinned by a use when sigs[k].pin
            LET k == h.n  sg == sigs[k]
                p1 == "p" \o ToString(k) \o "a"  p2 == "p" \o ToString(k) \o "b"
                params == IF Len(sg.ps) = 0 THEN <<>>
                          ELSE (IF sg.pin THEN <<Sym("PARAM", sg.ps[1], k)>> ELSE <<Sym("PARAM", sg.ps[1], k), T(":"), TY(sg.ps[1])>>)
                               \o (IF Len(sg.ps) = 2 THEN <<T(","), Sym("PARAM2", sg.ps[2], k), T(":"), TY(sg.ps[2])>> ELSE <<>>)
                pin == IF sg.pin THEN PinStmt(sg.ps[1], p1) ELSE <<>>
                retann == IF sg.ret \in D0 THEN <<>> ELSE <<T("->"), TY(sg.ret)>>
                bodyx == IF sg.ret \in D0 THEN Sym("EXPRP", sg.ret, 0) ELSE EX(sg.ret)
            IN /\ todo' = <<Sym("FUNSTART", "", k), T("fn"), Sym("FUNNAME", "", k), T("("), Sym("MARK", "", 0)>> \o params \o <<T(")")>> \o retann \o <<T("{")>> \o pin
                          \o <<bodyx, T("}"), Sym("POPMARK", "", 0), Sym("FUNEND", "", k)>> \o rest
               /\ UNCHANGED <<out, env, budget, nv, cur>>
       [] h.s \in {"FUNSTART", "FUNEND"} -> /\ out' = Append(out, Tok("", IF h.s = "FUNSTART" THEN "funstart" ELSE "funend", "")) /\ todo' = rest
                                             /\ cur' = h.n /\ UNCHANGED <<env, budget, nv>>
       [] h.s = "FUNNAME" -> /\ out' = Append(out, Tok("g" \o ToString(h.n), "fun", SigText(h.n))) /\ todo' = rest /\ UNCHANGED <<env, budget, nv, cur>>
       [] h.s \in {"PARAM", "PARAM2"} ->
            LET name == "p" \o ToString(h.n) \o (IF h.s = "PARAM" THEN "a" ELSE "b") IN
            /\ out' = Append(out, Tok(name, "binder", h.x))
            /\ env' = Append(env, [m |-> FALSE, b |-> {<<name, h.x>>}])
            /\ todo' = rest /\ UNCHANGED <<budget, nv, cur>>
       [] h.s = "PINLAST" -> /\ todo' = PinStmt(h.x, "v" \o ToString(nv)) \o rest /\ UNCHANGED <<out, env, budget, nv, cur>>
       [] h.s = "GROUP" -> /\ todo' = <<T("{"), EX(h.x), T("}")>> \o rest /\ UNCHANGED <<out, env, budget, nv, cur>>
       [] h.s = "MARK" -> /\ env' = Append(env, Mark) /\ todo' = rest /\ UNCHANGED <<out, budget, nv, cur>>
       [] h.s = "POPMARK" -> /\ env' = PopToMark(env) /\ todo' = rest /\ UNCHANGED <<out, budget, nv, cur>>
       [] h.s = "BIND" ->
            \* binders are collected in a pending frame on top of the stack (not visible until COMMIT)
            LET name == "v" \o ToString(nv + 1) IN
            /\ out' = Append(out, Tok(name, "binder", h.x))
            /\ env' = IF env # <<>> /\ env[Len(env)].m = FALSE /\ <<"pending", "">> \in env[Len(env)].b
                      THEN [env EXCEPT ![Len(env)] = [m |-> FALSE, b |-> env[Len(env)].b \cup {<<name, h.x>>}]]
                      ELSE Append(env, [m |-> FALSE, b |-> {<<"pending", "">>, <<name, h.x>>}])
            /\ nv' = nv + 1 /\ todo' = rest /\ UNCHANGED <<budget, cur>>
       [] h.s = "COMMIT" ->
            /\ env' = IF env # <<>> /\ <<"pending", "">> \in env[Len(env)].b
                      THEN [env EXCEPT ![Len(env)] = [m |-> FALSE, b |-> env[Len(env)].b \ {<<"pending", "">>}]]
                      ELSE env
            /\ todo' = rest /\ UNCHANGED <<out, budget, nv, cur>>
       [] OTHER ->
            \* a variable of the goal type in scope (committed frames only), or a production
            LET visible == IF h.s \in {"EXPR"} THEN {n \in VarsOf(h.x) : \A i \in 1..Len(env) : ~(<<"pending", "">> \in env[i].b /\ \E e \in env[i].b : e[1] = n)} ELSE {}
                prods == {p \in Prods(h) : p.c <= budget /\ p.p \notin Masked}
                          \cup {P(0, "var", <<T(n)>>) : n \in visible}
            IN \E p \in Pick(prods) :
                  /\ todo' = p.r \o rest /\ budget' = budget - p.c /\ UNCHANGED <<out, env, nv, cur>>
  /\ UNCHANGED <<sigs, phase>>

Done == phase = "body" /\ todo = <<>>
Program == [sigs |-> sigs, out |-> out]
Finish == /\ Sim /\ Done
          /\ PrintT(<<"CASE", ToJson(Program)>>)
          /\ todo' = <<>> /\ out' = <<>> /\ env' = <<>> /\ budget' = Budget /\ sigs' = <<>> /\ nv' = 0 /\ phase' = "header" /\ cur' = 0
Next == Header \/ Step \/ Finish
Spec == Init /\ [][Next]_vars

-----------------------------------------------------------------------------
\* the environment is empty again when a program is finished; every binder has a type of the universe
Closed == Done => env = <<>>
BindersTyped == \A i \in 1..Len(out) : out[i].r = "binder" => out[i].ty \in D1
EmitCase == (~Sim /\ Done) => PrintT(<<"CASE", ToJson(Program)>>)
=============================================================================
