------------------------------- MODULE Typing -------------------------------
(***************************************************************************)
(* Type-directed generator for property C09: every expression is derived   *)
(* against a chosen goal type, so the type of every binder is known by     *)
(* construction (Gleam's typing rules read goal-first).                    *)
(*                                                                         *)
(* Types are written in Gleam's display syntax (strings).  Atoms:          *)
(*   D0 = {Int, Float, String, Bool, Nil, T, M}  and type variables        *)
(*   AV = {a, b} (names an annotation may use),  UV = {u1..u4} (the type   *)
(*   of an unannotated parameter that nothing constrains: its own variable)*)
(* one constructor deep: List(s), #(s, t), Result(s, t), Box(s),           *)
(* fn(s) -> t  (s, t atoms).  `Parts` decomposes a type string again.      *)
(* Variable names are the specification's own: the displayed type names    *)
(* variables in order of first occurrence, so both sides are compared after*)
(* renaming variables by first occurrence (fn(a, b) and fn(a, a) differ).  *)
(*                                                                         *)
(* The module under test consists of a fixed prelude (text in the harness) *)
(*   type T { T(a: Int, b: String) }      type Box(x) { Box(inner: x) }    *)
(*   fn id(x) { x }                        fn apply(x: a, f: fn(a) -> b)   *)
(*   fn map(l: List(a), f: fn(a) -> b) -> List(b)   fn add(a: Int, b: Int) *)
(*   fn mk_ok(x: a, e: b) -> Result(a, b)    fn mk_err(x: a, e: b) -> ...  *)
(*   type M { M(Int, key: String, value: Float) }   (unlabelled + labelled) *)
(*   fn ping / fn pong (a recursion group sharing a type variable)          *)
(*   fn wrap(item) { item }   fn item() { wrap(1) }   (a parameter spelled  *)
(*   like a top-level function that calls back: wrap must stay generic)     *)
(* (PreludeSigs: what hovering these functions must show) and of generated *)
(* functions g1..gn whose signatures are chosen up front, so calls may     *)
(* refer forwards, backwards and to themselves (recursion groups).         *)
(*                                                                         *)
(* A signature is a list of up to four parameters, each one of             *)
(*   ann  - annotated with a monomorphic type or with a type variable,     *)
(*   free - unannotated and unconstrained: generic in its own variable,    *)
(*   pin  - unannotated; its type is fixed by one use as an operand of an  *)
(*          operator (`let _ = p + 1`, `let _ = 1.5 >=. p`, `let _ = !p`), *)
(* the last nl of them labelled, and a result type over the parameters'    *)
(* variables (annotated when it can be named, else inferred).  Top-level   *)
(* functions are generalised: every call from a later function             *)
(* instantiates the variables afresh (Match / Insts), and the binder of    *)
(* `let v = g1(1, "s")` has the instantiated result type.  Inside a        *)
(* generic function its variables are rigid atoms: only rules that are     *)
(* parametric in a type can be used at them.                               *)
(*                                                                         *)
(* Operators (Gleam's rules): Int + - * / % -> Int, Int < > <= >= -> Bool, *)
(* Float +. -. *. /. -> Float, Float <. >. <=. >=. -> Bool, Bool && || ->  *)
(* Bool, == != on any one type -> Bool, String <> -> String, prefix !Bool  *)
(* -> Bool, prefix -Int -> Int.  Each is an expression production at its   *)
(* result type and a pin (operand on the left and on the right).           *)
(*                                                                         *)
(* out: tokens; a binder token carries the type Gleam assigns it (ty),     *)
(* a function name token carries its full signature.                       *)
(***************************************************************************)
EXTENDS Naturals, Sequences, FiniteSets, TLC, Json

CONSTANTS Budget, NFuns, Sim, Masked,
          Focus,       \* if not empty: the only productions the budget may be spent on
          Mode,        \* exhaustive mode only: "rules" (every rule once) or "sigs" (every signature once)
          MaxParams,   \* "sigs": longest parameter list
          Rounds       \* simulation: programs per behaviour

D0 == {"Int", "Float", "String", "Bool", "Nil", "T", "M", "Color", "Shade"}     \* Color, Shade: types of the library module pal
AV == {"a", "b"}
UV == {"u1", "u2", "u3", "u4"}
GV == AV \cup UV
DG0 == D0 \cup GV
L(s)     == "List(" \o s \o ")"
Tu(s, t) == "#(" \o s \o ", " \o t \o ")"
R(s, t)  == "Result(" \o s \o ", " \o t \o ")"
Bx(s)    == "Box(" \o s \o ")"
F1(s, t) == "fn(" \o s \o ") -> " \o t
Fxt(s)   == "Fx(" \o s \o ")"            \* the prelude's generic record with a function-typed field
Funs  == {F1(s, t) : s \in D0, t \in D0}
Over(S) == S \cup {L(s) : s \in S} \cup {Tu(s, t) : s \in S, t \in S} \cup {R(s, t) : s \in S, t \in S}
             \cup {Bx(s) : s \in S} \cup {F1(s, t) : s \in S, t \in S} \cup {Fxt(s) : s \in S}
D1  == Over(D0)        \* the monomorphic universe
D1G == Over(DG0)       \* with type variables

\* decomposition of a type of D1G: <<constructor, first component, second component>>
PartsSet == {<<s, <<"atom", s, "">>>> : s \in DG0} \cup {<<L(s), <<"List", s, "">>>> : s \in DG0} \cup {<<Bx(s), <<"Box", s, "">>>> : s \in DG0} \cup {<<Fxt(s), <<"Fx", s, "">>>> : s \in DG0}
            \cup {<<Tu(s, t), <<"Tuple", s, t>>>> : s \in DG0, t \in DG0} \cup {<<R(s, t), <<"Result", s, t>>>> : s \in DG0, t \in DG0}
            \cup {<<F1(s, t), <<"Fn", s, t>>>> : s \in DG0, t \in DG0}
Parts == [ty \in D1G |-> (CHOOSE p \in PartsSet : p[1] = ty)[2]]
Con(ty) == Parts[ty][1]
X(ty)   == Parts[ty][2]
Y(ty)   == Parts[ty][3]
TyVars(ty) == {Parts[ty][2], Parts[ty][3]} \cap GV

\* substitution of atoms for variables (s: a function on GV; "?" = not bound)
Sub0(s, x) == IF x \in GV /\ s[x] # "?" THEN s[x] ELSE x
Subst(s, ty) == LET p == Parts[ty] IN
                CASE p[1] = "atom"   -> Sub0(s, ty)
                  [] p[1] = "List"   -> L(Sub0(s, p[2]))
                  [] p[1] = "Box"    -> Bx(Sub0(s, p[2]))
                  [] p[1] = "Fx"     -> Fxt(Sub0(s, p[2]))
                  [] p[1] = "Tuple"  -> Tu(Sub0(s, p[2]), Sub0(s, p[3]))
                  [] p[1] = "Result" -> R(Sub0(s, p[2]), Sub0(s, p[3]))
                  [] p[1] = "Fn"     -> F1(Sub0(s, p[2]), Sub0(s, p[3]))
\* a type as an annotation of the generated module writes it: the library module's types are qualified (the displayed
\* type names them without the qualifier)
SrcAtom(x) == IF x \in {"Color", "Shade"} THEN "pal." \o x ELSE x
Src(ty) == LET p == Parts[ty] IN
           CASE p[1] = "atom"   -> SrcAtom(ty)
             [] p[1] = "List"   -> L(SrcAtom(p[2]))
             [] p[1] = "Box"    -> Bx(SrcAtom(p[2]))
             [] p[1] = "Fx"     -> Fxt(SrcAtom(p[2]))
             [] p[1] = "Tuple"  -> Tu(SrcAtom(p[2]), SrcAtom(p[3]))
             [] p[1] = "Result" -> R(SrcAtom(p[2]), SrcAtom(p[3]))
             [] p[1] = "Fn"     -> F1(SrcAtom(p[2]), SrcAtom(p[3]))
NoSub == [v \in GV |-> "?"]
\* the substitutions extending s under which the scheme component pat becomes val (none or one)
Bind(s, pat, val) == IF pat \in GV THEN (IF s[pat] = "?" THEN {[s EXCEPT ![pat] = val]} ELSE IF s[pat] = val THEN {s} ELSE {})
                     ELSE IF pat = val THEN {s} ELSE {}
\* instantiations of the scheme r that give the type ty: a variable alone matches every type, otherwise componentwise
Match(r, ty) == LET pr == Parts[r]  pt == Parts[ty] IN
                IF pr[1] = "atom" THEN Bind(NoSub, r, ty)
                ELSE IF pr[1] # pt[1] THEN {}
                ELSE UNION {Bind(s1, pr[3], pt[3]) : s1 \in Bind(NoSub, pr[2], pt[2])}

VARIABLES todo, out, env, budget, sigs, nv, phase, cur,    \* cur: index of the function whose body is being generated
          round,                                             \* simulation: programs finished in this behaviour
          fw,                                                \* functions from which a later function can be reached
          late, ld                                           \* variables bound inside a call-typed lambda; nesting depth of such lambdas
vars == <<todo, out, env, budget, sigs, nv, phase, cur, round, fw, late, ld>>

Sym(s, x, n) == [s |-> s, x |-> x, n |-> n]
T(x)    == Sym("T", x, 0)
TY(x)   == Sym("TY", x, 0)             \* a type written in an annotation
EX(ty)  == Sym("EXPR", ty, 0)          \* an expression of type ty
PA(ty)  == Sym("PAT", ty, 0)           \* a pattern matching values of type ty
BIND(ty) == Sym("BIND", ty, 0)         \* a fresh variable binder of type ty
GR(ty)  == Sym("GROUP", ty, 0)         \* an operand: `{ e }` (Gleam groups with braces), so precedence never regroups it
\* The base of a field access or tuple index: its type must be known when the access is checked.  Gleam checks the
\* arguments of a call left to right against the callee's parameter types, so the parameter of a lambda passed to
\* apply / map has its type inside the lambda's body.  An implementation that unifies the arguments only after
\* inferring all of them does not know it there yet (production "late_use": a variable bound inside such a lambda,
\* used inside the base of an access).  n = 1 marks an expression inside such a base.
GRS(ty) == Sym("GROUP", ty, 1)
LATEON  == Sym("LATE", "", 1)
LATEOFF == Sym("LATE", "", 0)
MARK    == Sym("MARK", "", 0)
POPMARK == Sym("POPMARK", "", 0)
COMMIT  == Sym("COMMIT", "", 0)
P(c, p, r) == [c |-> c, p |-> p, r |-> r, k |-> 0]
PK(c, p, r, k) == [c |-> c, p |-> p, r |-> r, k |-> k]   \* a call to generated function k
Tok(t, r, ty) == [t |-> t, r |-> r, ty |-> ty]

Pick(S) == IF Sim /\ S # {} THEN {RandomElement(S)} ELSE S

Letter(i) == <<"a", "b", "c", "d">>[i]
RECURSIVE Join(_, _)
Join(ss, sep) == IF Len(ss) = 0 THEN "" ELSE IF Len(ss) = 1 THEN ss[1] ELSE ss[1] \o sep \o Join(Tail(ss), sep)
RECURSIVE Flat(_, _)     \* token sequences joined by the separator tokens sep
Flat(seqs, sep) == IF Len(seqs) = 0 THEN <<>> ELSE IF Len(seqs) = 1 THEN seqs[1] ELSE seqs[1] \o sep \o Flat(Tail(seqs), sep)
RECURSIVE SetToSeq(_)
SetToSeq(S) == IF S = {} THEN <<>> ELSE LET x == CHOOSE x \in S : TRUE IN <<x>> \o SetToSeq(S \ {x})
PermsOf(S) == {f \in [1..Cardinality(S) -> S] : \A i, j \in 1..Cardinality(S) : i # j => f[i] # f[j]}

-----------------------------------------------------------------------------
\* Operators and pins
IntArith   == {"+", "-", "*", "/", "%"}
IntCmp     == {"<", ">", "<=", ">="}
FloatArith == {"+.", "-.", "*.", "/."}
FloatCmp   == {"<.", ">.", "<=.", ">=."}
BoolOps    == {"&&", "||"}
EqOps      == {"==", "!="}
Sides      == {"l", "r"}
\* a closed expression of each type that has one without a choice: the other operand of a pin
LitTypes == D0 \cup {L("Int"), Tu("Int", "String"), Bx("Int")}
Lit(ty) == CASE ty = "Int" -> <<T("1")>> [] ty = "Float" -> <<T("1.5")>> [] ty = "String" -> <<T("\"s\"")>> [] ty = "Bool" -> <<T("True")>>
             [] ty = "Nil" -> <<T("Nil")>> [] ty = "T" -> <<T("T"), T("("), T("1"), T(","), T("\"s\""), T(")")>>
             [] ty = "M" -> <<T("M"), T("("), T("1"), T(","), T("key"), T(":"), T("\"s\""), T(","), T("value"), T(":"), T("1.5"), T(")")>>
             [] ty = L("Int") -> <<T("["), T("1"), T("]")>>
             [] ty = Tu("Int", "String") -> <<T("#"), T("("), T("1"), T(","), T("\"s\""), T(")")>>
             [] ty = Bx("Int") -> <<T("Box"), T("("), T("1"), T(")")>>
             [] ty = "Color" -> <<T("pal"), T("."), T("Red")>>
             [] ty = "Shade" -> <<T("pal"), T("."), T("Shade"), T("("), T("pal"), T("."), T("Red"), T(","), T("1"), T(")")>>
\* a closed function: `fn(_) { lit }` (argument of the instantiating callers of the signature sweep)
RECURSIVE LitArg(_)
LitArg(ty) == IF Con(ty) = "Fn" THEN <<T("fn"), T("("), T("_"), T(")"), T("{")>> \o LitArg(Y(ty)) \o <<T("}")>> ELSE Lit(ty)
\* a pin <<operator, side of the pinned variable ("u": the operand of a prefix operator)>> fixes the variable's type to ty
PinTypes == LitTypes
PinsFor(ty) == (CASE ty = "Int"    -> ((IntArith \cup IntCmp) \X Sides) \cup {<<"-", "u">>}
                  [] ty = "Float"  -> (FloatArith \cup FloatCmp) \X Sides
                  [] ty = "String" -> {"<>"} \X Sides
                  [] ty = "Bool"   -> (BoolOps \X Sides) \cup {<<"!", "u">>}
                  [] OTHER -> {})
               \cup (EqOps \X Sides)
\* the production an operator belongs to (expression rule and pin alike): what Masked names
OpProd(op, side) == IF op \in BoolOps THEN "bool_op" ELSE IF op = "!=" THEN "neq" ELSE IF op = "!" THEN "not"
                    ELSE IF op = "-" /\ side = "u" THEN "neg" ELSE "op"
Pins(ty) == {p \in PinsFor(ty) : OpProd(p[1], p[2]) \notin Masked}
CanonPin(ty) == CASE ty = "Int" -> <<"+", "l">> [] ty = "Float" -> <<"+.", "l">> [] ty = "String" -> <<"<>", "l">> [] OTHER -> <<"==", "l">>
NoPin == <<"", "">>
PinStmt(ty, v, pin) == <<T("let"), T("_"), T("=")>>
                       \o (IF pin[2] = "l" THEN <<T(v), T(pin[1])>> \o Lit(ty) ELSE IF pin[2] = "r" THEN Lit(ty) \o <<T(pin[1]), T(v)>> ELSE <<T(pin[1]), T(v)>>)

-----------------------------------------------------------------------------
\* Signatures: [ps: parameter types, kd: [k: "ann" | "free" | "pin", pin], nl: number of trailing labelled parameters,
\*              ret: result type, rann: result annotated]
Kd(k, pin) == [k |-> k, pin |-> pin]
Sig(ps, kd, nl, ret, rann) == [ps |-> ps, kd |-> kd, nl |-> nl, ret |-> ret, rann |-> rann]
SigVars(sg) == {sg.ps[i] : i \in 1..Len(sg.ps)} \cap GV
CanAnnotate(ty) == TyVars(ty) \cap UV = {}          \* an unannotated parameter's variable has no name in the source
SigText(ss, k) == "fn g" \o ToString(k) \o "(" \o Join(ss[k].ps, ", ") \o ") -> " \o ss[k].ret
PName(k, i) == "p" \o ToString(k) \o Letter(i)
LName(i) == "l" \o Letter(i)

\* the prelude's functions and what hovering them shows
PreludeSigs == << [name |-> "id", sig |-> "fn id(a) -> a"], [name |-> "apply", sig |-> "fn apply(a, fn(a) -> b) -> b"],
                  [name |-> "map", sig |-> "fn map(List(a), fn(a) -> b) -> List(b)"], [name |-> "add", sig |-> "fn add(Int, Int) -> Int"],
                  [name |-> "mk_ok", sig |-> "fn mk_ok(a, b) -> Result(a, b)"], [name |-> "mk_err", sig |-> "fn mk_err(a, b) -> Result(a, b)"],
                  [name |-> "wrap", sig |-> "fn wrap(a) -> a"], [name |-> "item", sig |-> "fn item() -> Int"],
                  \* a recursion group whose members share one type variable while each also has one of its own (the element
                  \* type of an empty list nothing constrains): `let boxed = #(value, [])` in ping, `let wrapped = #(item, [])` in pong
                  [name |-> "ping", sig |-> "fn ping(a, Int) -> a"], [name |-> "pong", sig |-> "fn pong(a, Int) -> a"],
                  [name |-> "let boxed", sig |-> "#(a, List(b))"], [name |-> "let wrapped", sig |-> "#(a, List(b))"],
                  \* a function on its own is a recursion group too: a parameter whose type follows only from the recursive call
                  [name |-> "countdown", sig |-> "fn countdown(Int, String) -> String"],
                  \* a module may declare a type spelled like one of the prelude's (BitArray): its own declaration is the one meant
                  [name |-> "bits_of", sig |-> "fn bits_of(BitArray) -> Int"], [name |-> "let got", sig |-> "Int"] >>
ASSUME PrintT(<<"PRELUDE", ToJson(PreludeSigs)>>)

\* environment: sequence of frames, each a set of <<name, type>>; a mark frame delimits a block
Mark == [m |-> TRUE, b |-> {}]
VarsOf(ty) == UNION {{e[1] : e \in {x \in env[i].b : x[2] = ty}} : i \in 1..Len(env)}
RECURSIVE PopToMark(_)
PopToMark(fs) == IF fs = <<>> THEN <<>> ELSE IF fs[Len(fs)].m THEN SubSeq(fs, 1, Len(fs) - 1) ELSE PopToMark(SubSeq(fs, 1, Len(fs) - 1))

\* atoms available in the function being generated: the monomorphic ones and its own (rigid) variables
U0 == D0 \cup (IF cur = 0 THEN {} ELSE SigVars(sigs[cur]))
\* types a `let` or a `case` subject is taken from (every shape but functions)
\* (exhaustive mode: second components of pairs and results from two representatives - the pattern sweep covers all)
Second == IF Sim THEN Pick(U0) ELSE {"Int", "String"}
ValueTypes == UNION {{s, L(s), Bx(s), Fxt(s)} \cup {Tu(s, t) : t \in Second} \cup {R(s, t) : t \in Second} : s \in Pick(U0)}

\* function types a let may bind a lambda at (the lambda's parameter is pinned, so monomorphic)
LocalFunTypes == {F1(s, t) : s \in Pick(D0), t \in Pick(D0)}
\* function-typed variables in scope whose result is ty: <<name, type>>
FunLocals(ty) == {e \in UNION {env[i].b : i \in 1..Len(env)} :
                    /\ e[1] # "pending" /\ Con(e[2]) = "Fn" /\ Y(e[2]) = ty
                    /\ \A i \in 1..Len(env) : ~(<<"pending", "">> \in env[i].b /\ e \in env[i].b)}

\* Signature help (beyond the listed properties): with the cursor right after the `(` of a call, or right after the
\* n-th comma of its argument list, the editor shows the callee's type at this call `(P1, P2) -> R` and marks parameter
\* n (0-based) as active.  CALLOPEN / ARGSEP are the `(` and `,` tokens of such a call, tagged with what must be shown.
\* (labelled parameters are shown with their label: `(Int, lb: String) -> R`)
CallSig(ps, nl, ret) == "(" \o Join([i \in 1..Len(ps) |-> IF i > Len(ps) - nl THEN LName(i) \o ": " \o ps[i] ELSE ps[i]], ", ") \o ") -> " \o ret
RECURSIVE SepArgs(_, _, _)
SepArgs(items, i, cs) == IF i > Len(items) THEN <<>>
                         ELSE (IF i = 1 THEN <<>> ELSE IF cs = "" THEN <<T(",")>> ELSE <<Sym("ARGSEP", cs, i - 1)>>) \o items[i] \o SepArgs(items, i + 1, cs)
\* an argument: an expression of the parameter's type (lit: the closed one without a choice)
Arg(ty, lit) == IF lit THEN LitArg(ty) ELSE <<EX(ty)>>
\* positional call
CallArgs(name, ps, nl, ret, lit) == <<T(name), Sym("CALLOPEN", CallSig(ps, nl, ret), 0)>> \o SepArgs([i \in 1..Len(ps) |-> Arg(ps[i], lit)], 1, CallSig(ps, nl, ret)) \o <<T(")")>>
CallTo(name, ps, nl, ret) == CallArgs(name, ps, nl, ret, FALSE)
CallPlain(name, ps) == <<T(name), T("(")>> \o SepArgs([i \in 1..Len(ps) |-> <<EX(ps[i])>>], 1, "") \o <<T(")")>>
\* the unlabelled parameters by position, then the labelled ones by label in the order perm (of their indices)
CallLabelled(name, ps, nl, perm, lit) ==
    LET np == Len(ps) - nl
        order == [i \in 1..Len(ps) |-> IF i <= np THEN i ELSE perm[i - np]]
    IN <<T(name), T("(")>> \o SepArgs([i \in 1..Len(ps) |-> IF i <= np THEN Arg(ps[order[i]], lit) ELSE <<T(LName(order[i])), T(":")>> \o Arg(ps[order[i]], lit)], 1, "") \o <<T(")")>>
LabelIdx(sg) == (Len(sg.ps) - sg.nl + 1)..Len(sg.ps)
IdPerm(sg) == [i \in 1..sg.nl |-> Len(sg.ps) - sg.nl + i]

\* instantiations of generated function k whose result is ty; variables the result does not determine range over `free`
Fills(dom, free) == IF Sim THEN {[v \in dom |-> RandomElement(free)]} ELSE [dom -> free]
Extend(s, f) == [v \in GV |-> IF v \in DOMAIN f THEN f[v] ELSE s[v]]
\* (a variable inside a function-typed parameter is instantiated by a monomorphic atom: types stay one constructor deep and
\* the argument can be a lambda with a pinned parameter)
FnVars(k) == UNION {TyVars(sigs[k].ps[i]) : i \in {j \in 1..Len(sigs[k].ps) : sigs[k].ps[j] \notin GV}}
InstOK(k, s) == \A v \in FnVars(k) : s[v] \in D0
Insts(k, ty, free) == LET sv == SigVars(sigs[k]) IN
    {e \in UNION {{Extend(s, f) : f \in Fills({v \in sv : s[v] = "?"}, free)} : s \in Match(sigs[k].ret, ty)} : InstOK(k, e)}
InstPs(k, s) == [i \in 1..Len(sigs[k].ps) |-> Subst(s, sigs[k].ps[i])]
FreeInst == IF Sim THEN U0 ELSE {"Int", "String"}
Generic(k) == SigVars(sigs[k]) # {}
\* A generic function must be generalised before its callers are inferred, so it must not lie on a cycle with them:
\* it calls no later function, and no earlier one from which a later function can be reached (fw).
RecCallable(ty) == {j \in cur..Len(sigs) : cur > 0 /\ sigs[j].ret = ty /\ (j = cur \/ (~Generic(j) /\ ~Generic(cur)))}
Callable == IF cur > 0 /\ Generic(cur) THEN (1..(cur - 1)) \ fw ELSE 1..(cur - 1)

Prods(h) ==
  IF h.s \in {"EXPR", "EXPRP"} THEN
    LET ty == h.x  atom == h.x \in DG0  c == Con(h.x)  x == X(h.x)  y == Y(h.x)  next == "v" \o ToString(nv + 1) IN
    \* rules available at every type (where recursive calls are generated, not for EXPRP: the body of a function
    \* with an inferred result type then starts with a rule whose result type is fixed by the rule itself, otherwise
    \* a body consisting of recursive calls only would legitimately be inferred as a type variable)
    (IF (h.s = "EXPRP" /\ ~({"call_gen_rec", "call_rec_labels"} \subseteq Masked)) \/ budget < 1 THEN {} ELSE
    { P(1, "let_in", <<T("{"), MARK, T("let"), BIND(s), T("="), EX(s), COMMIT, EX(ty), POPMARK, T("}")>>) : s \in Pick(ValueTypes \cup LocalFunTypes) }
    \* function-typed locals (parameters annotated with a function type, let-bound lambdas) used without binding anything:
    \* called under a prefix operator in a discarded statement (no binder depends on it)
    \cup { P(1, "use_not", <<T("{"), T("let"), T("_"), T("="), T("!"), T(f[1]), T("(")>> \o Lit(X(f[2])) \o <<T(")"), EX(ty), T("}")>>) : f \in Pick({g \in FunLocals("Bool") : X(g[2]) \in LitTypes}) }
    \cup { P(1, "use_neg", <<T("{"), T("let"), T("_"), T("="), T("-"), T(f[1]), T("(")>> \o Lit(X(f[2])) \o <<T(")"), EX(ty), T("}")>>) : f \in Pick({g \in FunLocals("Int") : X(g[2]) \in LitTypes}) }
    \cup { P(1, "case", <<T("case"), EX(s), T("{"), MARK, PA(s), COMMIT, T("->"), EX(ty), POPMARK, T("_"), T("->"), EX(ty), T("}")>>) : s \in Pick(ValueTypes) }
    \cup { P(1, "id_call", <<T("id"), T("("), EX(ty), T(")")>>), P(1, "wrap_call", <<T("wrap"), T("("), EX(ty), T(")")>>) }
    \* the generic function of the library module, qualified
    \cup { P(1, "pal_keep", <<T("pal"), T("."), T("keep"), T("("), EX(ty), T(","), EX(s), T(")")>>) : s \in Pick(U0) }
    \* calls to earlier generated functions (generalised by then): each call instantiates the callee's variables afresh
    \cup UNION {{ PK(1, "call_gen_back", CallTo("g" \o ToString(k), InstPs(k, s), sigs[k].nl, ty), k) : s \in Insts(k, ty, FreeInst) } : k \in Callable}
    \cup UNION {UNION {{ PK(1, "call_gen_labels", CallLabelled("g" \o ToString(k), InstPs(k, s), sigs[k].nl, perm, FALSE), k) : perm \in Pick(PermsOf(LabelIdx(sigs[k]))) }
                       : s \in Insts(k, ty, FreeInst)} : k \in {j \in Callable : sigs[j].nl > 0}}
    \* the binder of a let takes the instantiated result type of the call
    \cup UNION {{ PK(1, "let_call", <<T("{"), MARK, T("let"), BIND(Subst(Extend(NoSub, f), sigs[k].ret)), T("=")>>
                                    \o CallTo("g" \o ToString(k), InstPs(k, Extend(NoSub, f)), sigs[k].nl, Subst(Extend(NoSub, f), sigs[k].ret))
                                    \o <<COMMIT, EX(ty), POPMARK, T("}")>>, k) : f \in {g \in Fills(SigVars(sigs[k]), FreeInst) : InstOK(k, Extend(NoSub, g))}} : k \in Pick({j \in Callable : Generic(j)})}
    \* calls to itself and to later functions (recursion groups: the callee is not generalised yet, so only monomorphic
    \* ones, and a generic function at its own variables); to a function with labelled parameters: positionally and
    \* with the labels in any order
    \cup { PK(1, "call_gen_rec", CallPlain("g" \o ToString(k), sigs[k].ps), k) : k \in {j \in RecCallable(ty) : sigs[j].nl = 0} }
    \cup { PK(1, "call_rec_labels", CallPlain("g" \o ToString(k), sigs[k].ps), k) : k \in {j \in RecCallable(ty) : sigs[j].nl > 0} }
    \cup UNION {{ PK(1, "call_rec_labels", CallLabelled("g" \o ToString(k), sigs[k].ps, sigs[k].nl, perm, FALSE), k) : perm \in Pick(PermsOf(LabelIdx(sigs[k]))) }
                : k \in {j \in RecCallable(ty) : sigs[j].nl > 0}}
    \cup (IF atom THEN
            { P(1, "tuple_index0", <<GRS(Tu(ty, s)), T("."), T("0")>>) : s \in Pick(U0) }
            \cup { P(1, "tuple_index1", <<GRS(Tu(s, ty)), T("."), T("1")>>) : s \in Pick(U0) }
            \cup { P(1, "box_field", <<GRS(Bx(ty)), T("."), T("inner")>>) }
            \* the argument that fixes the lambda parameter's type comes first (arguments are checked left to right; a field
            \* access on a parameter whose type is not known yet is an error in Gleam itself)
            \cup { P(1, "apply_lambda", <<T("apply"), T("("), EX(s), T(","), T("fn"), T("("), MARK, LATEON, BIND(s), COMMIT, T(")")>>
                                        \o <<T("{"), EX(ty), T("}"), LATEOFF, POPMARK, T(")")>>) : s \in Pick(ValueTypes) }
            \cup { P(1, "pipe_id", <<GR(ty), T("|>"), T("id")>>) }
            \* the function-typed field of the generic record Fx, called
            \cup { P(1, "fx_run", <<GRS(Fxt(ty)), T("."), T("run"), T("("), EX("Int"), T(")")>>) }
            \* a function-typed local: called, piped into, passed as an argument
            \cup { P(1, "call_local", <<T(f[1]), T("("), EX(X(f[2])), T(")")>>) : f \in Pick(FunLocals(ty)) }
            \cup { P(1, "pipe_local", <<GR(X(f[2])), T("|>"), T(f[1])>>) : f \in Pick(FunLocals(ty)) }
            \cup { P(1, "apply_local", <<T("apply"), T("("), EX(X(f[2])), T(","), T(f[1]), T(")")>>) : f \in Pick(FunLocals(ty)) }
            \* the idiom `list.map(people, fn(p) { p.name })`: an access on the parameter of a lambda argument
            \cup { P(1, "late_use", <<T("apply"), T("("), EX(Tu(ty, s)), T(","), T("fn"), T("("), MARK, LATEON, BIND(Tu(ty, s)), COMMIT, T(")"), T("{"), T(next), T("."), T("0"), T("}"), LATEOFF, POPMARK, T(")")>>) : s \in Pick(U0) }
            \cup { P(1, "late_use", <<T("apply"), T("("), EX(Bx(ty)), T(","), T("fn"), T("("), MARK, LATEON, BIND(Bx(ty)), COMMIT, T(")"), T("{"), T(next), T("."), T("inner"), T("}"), LATEOFF, POPMARK, T(")")>>) }
            \cup { P(1, "late_use", <<T("apply"), T("("), EX(f[1]), T(","), T("fn"), T("("), MARK, LATEON, BIND(f[1]), COMMIT, T(")"), T("{"), T(next), T("."), T(f[2]), T("}"), LATEOFF, POPMARK, T(")")>>)
                   : f \in {g \in {<<"T", "a", "Int">>, <<"T", "b", "String">>, <<"M", "key", "String">>} : g[3] = ty} }
          ELSE {}))
    \* rules by goal type
    \cup (CASE ty = "Int" -> { P(0, "int", <<T("1")>>), P(1, "field_a", <<GRS("T"), T("."), T("a")>>),
                                P(1, "add_fn", CallTo("add", <<"Int", "Int">>, 0, "Int")), P(1, "shade_n", <<GRS("Shade"), T("."), T("n")>>),
                                P(1, "pipe_add", <<GR("Int"), T("|>"), T("add"), T("("), EX("Int"), T(")")>>),
                                \* a prefix operator is written inside its own group: after another expression a `-` would continue it
                                P(1, "neg", <<T("{"), T("-"), GR("Int"), T("}")>>) }
                              \cup { P(1, "neg", <<T("{"), T("-"), T(f[1]), T("("), EX(X(f[2])), T(")"), T("}")>>) : f \in Pick(FunLocals("Int")) }
                              \cup { P(1, "int_op", <<GR("Int"), T(op), GR("Int")>>) : op \in Pick(IntArith) }
            [] ty = "Float" -> { P(0, "float", <<T("1.5")>>) } \cup { P(1, "float_op", <<GR("Float"), T(op), GR("Float")>>) : op \in Pick(FloatArith) }
            [] ty = "String" -> { P(0, "string", <<T("\"s\"")>>), P(1, "concat", <<GR("String"), T("<>"), GR("String")>>), P(1, "field_b", <<GRS("T"), T("."), T("b")>>),
                                  P(1, "field_key", <<GRS("M"), T("."), T("key")>>) }
            [] ty = "Bool" -> { P(0, "true", <<T("True")>>), P(1, "not", <<T("{"), T("!"), GR("Bool"), T("}")>>) }
                              \cup { P(1, "not", <<T("{"), T("!"), T(f[1]), T("("), EX(X(f[2])), T(")"), T("}")>>) : f \in Pick(FunLocals("Bool")) }
                              \cup { P(1, "int_cmp", <<GR("Int"), T(op), GR("Int")>>) : op \in Pick(IntCmp) }
                              \cup { P(1, "float_cmp", <<GR("Float"), T(op), GR("Float")>>) : op \in Pick(FloatCmp) }
                              \cup { P(1, "bool_op", <<GR("Bool"), T(op), GR("Bool")>>) : op \in Pick(BoolOps) }
                              \cup { P(1, "equal", <<GR(s), T("=="), GR(s)>>) : s \in Pick(U0) }
                              \cup { P(1, "neq", <<GR(s), T("!="), GR(s)>>) : s \in Pick(U0) }
            [] ty = "Nil" -> { P(0, "nil", <<T("Nil")>>) }
            [] ty = "T" -> { P(0, "ctor_T", <<T("T"), T("("), EX("Int"), T(","), EX("String"), T(")")>>),
                             P(1, "ctor_T_labels", <<T("T"), T("("), T("b"), T(":"), EX("String"), T(","), T("a"), T(":"), EX("Int"), T(")")>>) }
            \* `[]`, `Ok(x)`, `Error(e)` alone leave a type variable open, so they are only generated where the other
            \* component is pinned: lists always have an element, results are built by the prelude's mk_ok / mk_err
            [] ty = "M" -> { P(0, "ctor_M", <<T("M"), T("("), EX("Int"), T(","), T("key"), T(":"), EX("String"), T(","), T("value"), T(":"), EX("Float"), T(")")>>),
                             P(1, "ctor_M_swapped", <<T("M"), T("("), EX("Int"), T(","), T("value"), T(":"), EX("Float"), T(","), T("key"), T(":"), EX("String"), T(")")>>) }
            \* the library module pal (imported, used qualified): pub type Color { Red Green }, pub type Shade { Shade(c: Color, n: Int) },
            \* pub fn mix(a: Color, b: Color) -> Color, pub fn keep(x: a, y: b) -> a.  pal itself imports two modules (hue, tone) that
            \* both import a third (base): the imports below a callee's module form a diamond, not a cycle - types flow as usual
            [] ty = "Color" -> { P(0, "pal_red", <<T("pal"), T("."), T("Red")>>), P(1, "pal_green", <<T("pal"), T("."), T("Green")>>),
                                 P(1, "pal_mix", <<T("pal"), T("."), T("mix"), T("("), EX("Color"), T(","), EX("Color"), T(")")>>),
                                 P(1, "shade_c", <<GRS("Shade"), T("."), T("c")>>) }
            [] ty = "Shade" -> { P(0, "pal_shade", <<T("pal"), T("."), T("Shade"), T("("), EX("Color"), T(","), EX("Int"), T(")")>>),
                                 P(1, "pal_shade_labels", <<T("pal"), T("."), T("Shade"), T("("), T("n"), T(":"), EX("Int"), T(","), T("c"), T(":"), EX("Color"), T(")")>>),
                                 \* the module header is `import pal.{Shade}`: the CONSTRUCTOR Shade (spelled like its type) is also in scope unqualified
                                 P(1, "unq_shade", <<T("Shade"), T("("), EX("Color"), T(","), EX("Int"), T(")")>>) }
            [] c = "Fx" -> { P(0, "fx", <<T("Fx"), T("("), EX(F1("Int", x)), T(")")>>),
                             P(1, "fx_label", <<T("Fx"), T("("), T("run"), T(":"), EX(F1("Int", x)), T(")")>>) }
            [] c = "List" -> { P(0, "list_one", <<T("["), EX(x), T("]")>>),
                               P(1, "list_spread", <<T("["), EX(x), T(","), T(".."), EX(ty), T("]")>>) }
                             \cup { P(1, "late_use", <<T("map"), T("("), EX(L(f[1])), T(","), T("fn"), T("("), MARK, LATEON, BIND(f[1]), COMMIT, T(")"), T("{"), T(next), T("."), T(f[2]), T("}"), LATEOFF, POPMARK, T(")")>>)
                                    : f \in {g \in {<<"T", "a", "Int">>, <<"T", "b", "String">>, <<"M", "key", "String">>} : g[3] = x} }
                             \cup { P(1, "map_local", <<T("map"), T("("), EX(L(X(f[2]))), T(","), T(f[1]), T(")")>>) : f \in Pick(FunLocals(x)) }
                             \cup { P(1, "map_lambda", <<T("map"), T("("), EX(L(s)), T(","), T("fn"), T("("), MARK, LATEON, BIND(s), COMMIT, T(")")>>
                                                       \o <<T("{"), EX(x), T("}"), LATEOFF, POPMARK, T(")")>>) : s \in Pick(U0) }
            [] c = "Tuple" -> { P(0, "tuple", <<T("#"), T("("), EX(x), T(","), EX(y), T(")")>>) }
            [] c = "Result" -> { P(0, "mk_ok", <<T("mk_ok"), T("("), EX(x), T(","), EX(y), T(")")>>),
                                 P(0, "mk_err", <<T("mk_err"), T("("), EX(x), T(","), EX(y), T(")")>>) }
            [] c = "Box" -> { P(0, "box", <<T("Box"), T("("), EX(x), T(")")>>),
                              P(1, "box_label", <<T("Box"), T("("), T("inner"), T(":"), EX(x), T(")")>>) }
            \* a lambda parameter is not annotated: its type is fixed by a pin in the body (the canonical one, or any operator)
            [] c = "Fn" -> (IF x \in PinTypes
                            THEN { P(0, "lambda_pinned", <<T("fn"), T("("), MARK, BIND(x), COMMIT, T(")"), T("{")>> \o PinStmt(x, next, CanonPin(x))
                                                         \o <<EX(y), T("}"), POPMARK>>) }
                                 \cup { P(1, "lambda_pin_op", <<T("fn"), T("("), MARK, BIND(x), COMMIT, T(")"), T("{")>> \o PinStmt(x, next, pin)
                                                         \o <<EX(y), T("}"), POPMARK>>) : pin \in Pick(Pins(x)) }
                            ELSE {})
                           \cup (IF CanAnnotate(x) THEN { P(0, "lambda_annot", <<T("fn"), T("("), MARK, BIND(x), T(":"), TY(x), COMMIT, T(")")>>
                                                                              \o <<T("{"), EX(y), T("}"), POPMARK>>) } ELSE {})
                           \cup (IF ty = F1("Int", "Int") THEN { P(1, "capture", <<T("add"), T("("), T("_"), T(","), EX("Int"), T(")")>>) } ELSE {})
            [] OTHER -> {})
  ELSE IF h.s = "PAT" THEN
    \* (the pattern under an `as` is paid for by the `as`)
    LET ty == h.x  c == Con(h.x)  x == X(h.x)  y == Y(h.x)  pc == IF h.n = 1 THEN 0 ELSE 1 IN
    (IF h.n = 0 THEN { P(0, "p_var", <<BIND(ty)>>), P(1, "p_discard", <<T("_")>>) } ELSE {})
    \cup (CASE c = "List" -> { P(pc, "p_list", <<T("["), BIND(x), T(","), T(".."), BIND(ty), T("]")>>), P(pc, "p_list1", <<T("["), PA(x), T("]")>>) }
            [] c = "Tuple" -> { P(pc, "p_tuple", <<T("#"), T("("), PA(x), T(","), PA(y), T(")")>>) }
            [] c = "Result" -> { P(pc, "p_ok", <<T("Ok"), T("("), PA(x), T(")")>>), P(pc, "p_error", <<T("Error"), T("("), PA(y), T(")")>>) }
            [] ty = "Color" -> { P(pc, "p_red", <<T("pal"), T("."), T("Red")>>), P(pc, "p_green", <<T("pal"), T("."), T("Green")>>) }
            [] ty = "Shade" -> { P(pc, "p_shade", <<T("pal"), T("."), T("Shade"), T("("), PA("Color"), T(","), PA("Int"), T(")")>>),
                                 P(pc, "p_shade_labels", <<T("pal"), T("."), T("Shade"), T("("), T("n"), T(":"), PA("Int"), T(","), T("c"), T(":"), PA("Color"), T(")")>>),
                                 P(pc, "p_shade_spread", <<T("pal"), T("."), T("Shade"), T("("), PA("Color"), T(","), T(".."), T(")")>>),
                                 P(pc, "p_unq_shade", <<T("Shade"), T("("), PA("Color"), T(","), PA("Int"), T(")")>>) }
            [] c = "Fx" -> { P(pc, "p_fx", <<T("Fx"), T("("), PA(F1("Int", x)), T(")")>>) }
            [] c = "Box" -> { P(pc, "p_box", <<T("Box"), T("("), PA(x), T(")")>>), P(pc, "p_box_label", <<T("Box"), T("("), T("inner"), T(":"), PA(x), T(")")>>) }
            [] ty = "T" -> { P(pc, "p_T", <<T("T"), T("("), T("a"), T(":"), PA("Int"), T(","), T("b"), T(":"), PA("String"), T(")")>>),
                             P(pc, "p_T_spread", <<T("T"), T("("), PA("Int"), T(","), T(".."), T(")")>>) }
            [] ty = "M" -> { P(pc, "p_M_positional", <<T("M"), T("("), PA("Int"), T(","), PA("String"), T(","), PA("Float"), T(")")>>),
                             P(pc, "p_M_mixed", <<T("M"), T("("), PA("Int"), T(","), T("value"), T(":"), PA("Float"), T(","), T("key"), T(":"), PA("String"), T(")")>>),
                             P(pc, "p_M_partial", <<T("M"), T("("), PA("Int"), T(","), PA("String"), T(","), T(".."), T(")")>>) }
            [] ty = "String" -> { P(pc, "p_prefix", <<T("\"s\""), T("<>"), BIND("String")>>), P(pc, "p_string", <<T("\"s\"")>>) }
            [] ty = "Int" -> { P(pc, "p_int", <<T("1")>>) }
            [] ty = "Bool" -> { P(pc, "p_true", <<T("True")>>) }
            [] OTHER -> {})
          \* `x as y` on a plain variable is a recorded parser finding (C04 F13): only structured patterns get `as`
          \cup (IF h.n = 0 /\ (c \in {"List", "Tuple", "Result", "Box", "Fx"} \/ ty \in {"T", "M", "String", "Int", "Bool", "Color", "Shade"}) THEN { P(1, "p_as", <<Sym("PAT", ty, 1), T("as"), BIND(ty)>>) } ELSE {})
  ELSE {}

-----------------------------------------------------------------------------
\* Everything but the choice of a production is deterministic: Run carries a configuration to the next choice point.
\* fn gk(la p: s, ..) -> r { pins body }
FunToks(ss, k) ==
    LET sg == ss[k]  n == Len(sg.ps)
        param(i) == (IF i > n - sg.nl THEN <<T(LName(i))>> ELSE <<>>) \o <<Sym("PARAM", sg.ps[i], 10 * k + i)>>
                    \o (IF sg.kd[i].k = "ann" THEN <<T(":"), TY(sg.ps[i])>> ELSE <<>>)
        pins == Flat([i \in 1..n |-> IF sg.kd[i].k = "pin" THEN PinStmt(sg.ps[i], PName(k, i), sg.kd[i].pin) ELSE <<>>], <<>>)
    IN <<Sym("FUNSTART", "", k), T("fn"), Sym("FUNNAME", "", k), T("("), MARK>> \o Flat([i \in 1..n |-> param(i)], <<T(",")>>) \o <<T(")")>>
       \o (IF sg.rann THEN <<T("->"), TY(sg.ret)>> ELSE <<>>) \o <<T("{")>> \o pins
       \o <<Sym(IF sg.rann THEN "EXPR" ELSE "EXPRP", sg.ret, 0), T("}"), POPMARK, Sym("FUNEND", "", k)>>
\* two instantiations that give distinct variables distinct types, and every variable two types
Inst1 == [v \in GV |-> CASE v = "a" -> "Int" [] v = "b" -> "String" [] v = "u1" -> "Float" [] v = "u2" -> "Bool" [] v = "u3" -> "T" [] v = "u4" -> "Nil"]
Inst2 == [v \in GV |-> CASE v = "a" -> "String" [] v = "b" -> "Float" [] v = "u1" -> "Bool" [] v = "u2" -> "T" [] v = "u3" -> "Nil" [] v = "u4" -> "Int"]
\* fn gk() { let v = g1(..at Inst1) let w = g1(..at Inst2) let x = g1(..labels in every order) Nil }
CallerToks(ss, k) ==
    LET sg == ss[1]
        ps(s) == [i \in 1..Len(sg.ps) |-> Subst(s, sg.ps[i])]
        one(s, call) == <<T("let"), BIND(Subst(s, sg.ret)), T("=")>> \o call \o <<COMMIT>>
        perms == SetToSeq(IF sg.nl = 0 THEN {} ELSE PermsOf(LabelIdx(sg)))
    IN <<Sym("FUNSTART", "", k), T("fn"), Sym("FUNNAME", "", k), T("("), T(")"), T("{"), MARK>>
       \o one(Inst1, CallArgs("g1", ps(Inst1), sg.nl, Subst(Inst1, sg.ret), TRUE)) \o one(Inst2, CallArgs("g1", ps(Inst2), sg.nl, Subst(Inst2, sg.ret), TRUE))
       \o Flat([j \in 1..Len(perms) |-> one(Inst1, CallLabelled("g1", ps(Inst1), sg.nl, perms[j], TRUE))], <<>>)
       \o <<T("Nil"), T("}"), POPMARK, Sym("FUNEND", "", k)>>

Choice == {"EXPR", "EXPRP", "PAT"}
Plain == {"T", "CALLOPEN", "ARGSEP", "TY"}           \* symbols that are just written out
TokOf(h) == CASE h.s = "T" -> Tok(h.x, "tok", "") [] h.s = "CALLOPEN" -> Tok("(", "callopen", h.x)
              [] h.s = "ARGSEP" -> Tok(",", "argsep" \o ToString(h.n), h.x) [] h.s = "TY" -> Tok(Src(h.x), "type", "")
RECURSIVE PlainLen(_, _)
PlainLen(td, i) == IF i <= Len(td) /\ td[i].s \in Plain THEN PlainLen(td, i + 1) ELSE i - 1
Det(st) ==
    LET h == st.todo[1]  rest == Tail(st.todo) IN
    CASE h.s \in Plain -> LET k == PlainLen(st.todo, 1) IN
                          [st EXCEPT !.out = @ \o [i \in 1..k |-> TokOf(st.todo[i])], !.todo = SubSeq(@, k + 1, Len(@))]
      [] h.s = "FUN" -> [st EXCEPT !.todo = FunToks(st.sigs, h.n) \o rest]
      [] h.s = "CALLER" -> [st EXCEPT !.todo = CallerToks(st.sigs, h.n) \o rest]
      \* simulation: every function has its own budget
      [] h.s \in {"FUNSTART", "FUNEND"} -> [st EXCEPT !.out = Append(@, Tok("", IF h.s = "FUNSTART" THEN "funstart" ELSE "funend", "")), !.todo = rest, !.cur = h.n,
                                                      !.bud = IF Sim /\ h.s = "FUNSTART" THEN Budget ELSE @]
      [] h.s = "FUNNAME" -> [st EXCEPT !.out = Append(@, Tok("g" \o ToString(h.n), "fun", SigText(st.sigs, h.n))), !.todo = rest]
      [] h.s = "PARAM" -> LET name == PName(h.n \div 10, h.n % 10) IN
                          [st EXCEPT !.out = Append(@, Tok(name, "binder", h.x)), !.env = Append(@, [m |-> FALSE, b |-> {<<name, h.x>>}]), !.todo = rest]
      [] h.s = "GROUP" -> [st EXCEPT !.todo = <<T("{"), Sym("EXPR", h.x, h.n), T("}")>> \o rest]
      [] h.s = "LATE" -> [st EXCEPT !.ld = IF h.n = 1 THEN @ + 1 ELSE @ - 1, !.todo = rest]
      [] h.s = "MARK" -> [st EXCEPT !.env = Append(@, Mark), !.todo = rest]
      [] h.s = "POPMARK" -> [st EXCEPT !.env = PopToMark(@), !.todo = rest]
      [] h.s = "BIND" ->
           \* binders are collected in a pending frame on top of the stack (not visible until COMMIT)
           LET name == "v" \o ToString(st.nv + 1)  e == st.env IN
           [st EXCEPT !.out = Append(@, Tok(name, "binder", h.x)), !.nv = @ + 1, !.todo = rest, !.late = IF st.ld > 0 THEN @ \cup {name} ELSE @,
                      !.env = IF e # <<>> /\ e[Len(e)].m = FALSE /\ <<"pending", "">> \in e[Len(e)].b
                              THEN [e EXCEPT ![Len(e)] = [m |-> FALSE, b |-> e[Len(e)].b \cup {<<name, h.x>>}]]
                              ELSE Append(e, [m |-> FALSE, b |-> {<<"pending", "">>, <<name, h.x>>}])]
      [] h.s = "COMMIT" ->
           LET e == st.env IN
           [st EXCEPT !.todo = rest,
                      !.env = IF e # <<>> /\ <<"pending", "">> \in e[Len(e)].b
                              THEN [e EXCEPT ![Len(e)] = [m |-> FALSE, b |-> e[Len(e)].b \ {<<"pending", "">>}]]
                              ELSE e]
RECURSIVE Run(_)
Run(st) == IF st.todo = <<>> \/ st.todo[1].s \in Choice THEN st ELSE Run(Det(st))
Conf(td, ss, bud) == [todo |-> td, out |-> out, env |-> env, nv |-> nv, cur |-> cur, sigs |-> ss, bud |-> bud, late |-> late, ld |-> ld]
Become(st) == todo' = st.todo /\ out' = st.out /\ env' = st.env /\ nv' = st.nv /\ cur' = st.cur /\ budget' = st.bud /\ late' = st.late /\ ld' = st.ld

Init == /\ todo = <<>> /\ out = <<>> /\ env = <<>> /\ budget = Budget /\ sigs = <<>> /\ nv = 0 /\ phase = "header" /\ cur = 0 /\ round = 0 /\ fw = {} /\ late = {} /\ ld = 0

-----------------------------------------------------------------------------
\* Signatures first.
ParamTypes == D0 \cup {L("Int"), Tu("Int", "String"), Bx("Int"), R("Int", "String")}
BfsRets    == D0 \cup {Fxt("Float"), L("Int"), Tu("Int", "String"), R("Int", "String"), Bx("Int"), F1("Int", "Int"), F1("Float", "Int"), F1("Bool", "Int"), F1("String", "Int")}
Ann(t)  == [t |-> t, kd |-> Kd("ann", NoPin)]
Free(i) == [t |-> "u" \o ToString(i), kd |-> Kd("free", NoPin)]
Pinned(t, pin) == [t |-> t, kd |-> Kd("pin", pin)]
\* simulation: the kind of parameter i by a class drawn from 1..9
KindSet(cl, i) == IF cl <= 2 THEN {Ann(t) : t \in ParamTypes} ELSE IF cl = 3 THEN {Ann(F1(x, y)) : x \in Pick(D0 \cup AV), y \in Pick(D0 \cup AV)} ELSE IF cl <= 5 THEN {Ann(t) : t \in AV} ELSE IF cl <= 7 THEN {Free(i)}
                  ELSE UNION {{Pinned(t, pin) : pin \in Pick(Pins(t))} : t \in Pick(PinTypes)}
\* result types of a generic function over its variables vs
GenRets(vs) == UNION {{v, L(v), Bx(v)} \cup {Tu(v, w) : w \in vs} \cup {R(v, w) : w \in vs}
                      \cup UNION {{Tu(v, m), Tu(m, v), R(v, m), R(m, v)} : m \in Pick(D0)} : v \in vs}
\* a variable inside a function-type annotation is also the type of a parameter (so a value of it is at hand in the body);
\* otherwise the annotation is read at Int
Bare(ks) == {ks[i].t : i \in 1..Len(ks)} \cap GV
FixKinds(ks) == LET s == [v \in GV |-> IF v \in Bare(ks) THEN "?" ELSE "Int"] IN
                [i \in 1..Len(ks) |-> IF ks[i].t \in GV THEN ks[i] ELSE [ks[i] EXCEPT !.t = Subst(s, @)]]
MkSig(ks, nl, r, ra) == Sig([i \in 1..Len(ks) |-> ks[i].t], [i \in 1..Len(ks) |-> ks[i].kd], nl, r, ra /\ CanAnnotate(r))
\* exhaustive "sigs": every parameter list over a kind alphabet (an atomic and a composite annotation, both annotation
\* variables, a free and a pinned parameter), every result that is a variable, a pair of two variables, or a list
SweepKinds(i) == {Ann("Int"), Ann(L("Int")), Ann("a"), Ann("b"), Free(i), Pinned("Int", <<"+", "l">>)}
SweepRets(vs) == IF vs = {} THEN {"Int"} ELSE vs \cup {Tu(p[1], p[2]) : p \in {q \in vs \X vs : q[1] # q[2]}} \cup {L(CHOOSE v \in vs : TRUE)}
\* exhaustive "sigs", function-type annotations that mention variables: lists up to length 3 with at least one of them
FnKinds == {Ann(F1("a", "Int")), Ann(F1("Int", "a")), Ann(F1("a", "b"))}
FnSweepKinds == FnKinds \cup {Ann("a"), Ann("b"), Ann("Int")}
\* exhaustive "sigs", labels: parameter lists over {Int, String, a} with the last nl labelled
LabelKinds == {Ann("Int"), Ann("String"), Ann("a")}
\* exhaustive "rules" inside a generic function
GenBodySigs == {MkSig(<<Ann("a"), Free(2)>>, 0, r, TRUE) : r \in {"a", "u2", Tu("a", "u2"), L("u2")}}
FunParamSigs == {MkSig(<<Ann(F1("Int", "Bool")), Ann(F1("String", "Int"))>>, 0, r, FALSE) : r \in {"Bool", "Int", L("Bool"), L("Int")}}
CallerSig == Sig(<<>>, <<>>, 0, "Nil", FALSE)

Header ==
  /\ phase = "header" /\ UNCHANGED <<round, fw>>
  /\ IF Sim
     THEN \E n \in Pick(0..4) : \E c1 \in Pick(1..9), c2 \in Pick(1..9), c3 \in Pick(1..9), c4 \in Pick(1..9) :
          \E k1 \in Pick(KindSet(c1, 1)), k2 \in Pick(KindSet(c2, 2)), k3 \in Pick(KindSet(c3, 3)), k4 \in Pick(KindSet(c4, 4)) :
          \E nl \in Pick(0..n) : \E rc \in Pick(1..3) : \E ra \in Pick(BOOLEAN) :
            LET ks == FixKinds(SubSeq(<<k1, k2, k3, k4>>, 1, n))
                vs == {ks[i].t : i \in 1..n} \cap GV
            IN \E r \in Pick(IF vs = {} \/ rc = 1 THEN D1 ELSE GenRets(vs)) :
                 /\ sigs' = Append(sigs, MkSig(ks, nl, r, IF r \in D0 THEN FALSE ELSE IF r \in D1 THEN TRUE ELSE ra))
                 /\ IF Len(sigs) + 1 = NFuns
                    THEN Become(Run(Conf([k \in 1..NFuns |-> Sym("FUN", "", k)], sigs', Budget))) /\ phase' = "body"
                    ELSE UNCHANGED <<todo, out, env, nv, cur, phase, budget, late, ld>>
     ELSE /\ phase' = "body"
          /\ IF Mode = "rules"
             THEN \* one parameterless function per result type: every rule once
                  \/ \E r \in BfsRets :
                       /\ sigs' = <<Sig(<<>>, <<>>, 0, r, r \notin D0)>>
                       /\ Become(Run(Conf(<<Sym("FUN", "", 1)>>, sigs', Budget)))
                  \* exhaustive over patterns: one function per scrutinee type, `case p { PAT -> 1 _ -> 1 }`
                  \/ \E ty \in D1 \ Funs :
                       /\ sigs' = <<Sig(<<ty>>, <<Kd("ann", NoPin)>>, 0, "Int", FALSE)>>
                       /\ Become(Run(Conf(<<Sym("FUNSTART", "", 1), T("fn"), Sym("FUNNAME", "", 1), T("("), MARK, Sym("PARAM", ty, 11), T(":"), TY(ty), T(")"), T("{"),
                                    T("case"), T("p1a"), T("{"), MARK, PA(ty), COMMIT, T("->"), T("1"), POPMARK,
                                    T("_"), T("->"), T("1"), T("}"), T("}"), POPMARK, Sym("FUNEND", "", 1)>>, sigs', Budget)))
                  \* every operator as the pin of a parameter, on either side: fn g1(p) { let _ = p op lit  1 }
                  \/ \E t \in PinTypes : \E pin \in Pins(t) :
                       /\ sigs' = <<MkSig(<<Pinned(t, pin)>>, 0, "Int", FALSE)>>
                       /\ Become(Run(Conf(<<Sym("FUN", "", 1)>>, sigs', 0)))
                  \* every rule once inside a generic function, and in a function with function-typed parameters
                  \/ \E sg \in GenBodySigs \cup FunParamSigs :
                       /\ sigs' = <<sg>>
                       /\ Become(Run(Conf(<<Sym("FUN", "", 1)>>, sigs', Budget)))
             ELSE \* every signature once, with a caller that instantiates it twice
                  \/ \E n \in 0..MaxParams : \E ks \in [1..n -> UNION {SweepKinds(i) : i \in 1..4}] :
                       /\ \A i \in 1..n : ks[i] \in SweepKinds(i)
                       /\ \E r \in SweepRets({ks[i].t : i \in 1..n} \cap GV) :
                            /\ sigs' = <<MkSig(ks, 0, r, TRUE), CallerSig>>
                            /\ Become(Run(Conf(<<Sym("FUN", "", 1), Sym("CALLER", "", 2)>>, sigs', Budget)))
                  \* function-typed parameters that share variables with other parameters and the result
                  \/ \E n \in 2..3 : \E ks \in [1..n -> FnSweepKinds] :
                       /\ \E i \in 1..n : ks[i] \in FnKinds
                       /\ \A i \in 1..n : TyVars(ks[i].t) \subseteq Bare(ks)
                       /\ \E r \in SweepRets(Bare(ks)) :
                            /\ sigs' = <<MkSig(ks, 0, r, TRUE), CallerSig>>
                            /\ Become(Run(Conf(<<Sym("FUN", "", 1), Sym("CALLER", "", 2)>>, sigs', Budget)))
                  \* labelled parameters, called with the labels in every order
                  \/ \E n \in 1..3 : \E ks \in [1..n -> LabelKinds] : \E nl \in 1..n :
                       \E r \in (IF \E i \in 1..n : ks[i].t = "a" THEN {"a"} ELSE {"Int"}) :
                            /\ sigs' = <<MkSig(ks, nl, r, TRUE), CallerSig>>
                            /\ Become(Run(Conf(<<Sym("FUN", "", 1), Sym("CALLER", "", 2)>>, sigs', Budget)))

\* what the head of todo may become: a variable of the goal type in scope (committed frames only), or a production
Strict(r) == [i \in 1..Len(r) |-> IF r[i].s \in {"EXPR", "GROUP"} THEN Sym(r[i].s, r[i].x, 1) ELSE r[i]]
Options(h) ==
    LET inbase == h.s = "EXPR" /\ h.n = 1
        visible == {n \in VarsOf(h.x) : /\ \A i \in 1..Len(env) : ~(<<"pending", "">> \in env[i].b /\ \E e \in env[i].b : e[1] = n)
                                        /\ ~(inbase /\ n \in late /\ "late_use" \in Masked)}
        prods == {p \in Prods(h) : p.c <= budget /\ p.p \notin Masked /\ (p.c = 0 \/ Focus = {} \/ p.p \in Focus)}
    IN (IF inbase THEN {[p EXCEPT !.r = Strict(p.r)] : p \in prods} ELSE prods)
       \cup (IF h.s \in {"EXPR", "EXPRP"} THEN {P(0, "var", <<T(n)>>) : n \in visible} ELSE {})
Step ==
  /\ phase = "body" /\ todo # <<>>
  /\ LET rest == Tail(todo)
     IN \E p \in Pick(Options(todo[1])) :
          /\ Become(Run(Conf(p.r \o rest, sigs, budget - p.c)))
          /\ fw' = IF p.k > cur \/ p.k \in fw THEN fw \cup {cur} ELSE fw
  /\ UNCHANGED <<sigs, phase, round>>

Done == phase = "body" /\ todo = <<>>
Program == [sigs |-> [k \in 1..Len(sigs) |-> SigText(sigs, k)], out |-> out]
Finish == /\ Sim /\ Done
          /\ PrintT(<<"CASE", ToJson(Program)>>)
          /\ todo' = <<>> /\ out' = <<>> /\ env' = <<>> /\ budget' = Budget /\ sigs' = <<>> /\ nv' = 0 /\ cur' = 0
          /\ fw' = {} /\ late' = {} /\ ld' = 0 /\ round' = round + 1 /\ phase' = IF round + 1 < Rounds THEN "header" ELSE "end"
Next == Header \/ Step \/ Finish
Spec == Init /\ [][Next]_vars

-----------------------------------------------------------------------------
\* the environment is empty again when a program is finished; every binder has a type of the universe
Closed == Done => env = <<>>
BindersTyped == \A i \in 1..Len(out) : out[i].r = "binder" => out[i].ty \in D1G
\* signatures: the result mentions only variables of the parameters, a variable without a name is never written in an
\* annotation, a pin fixes a type it can fix, labelled parameters come last
SigsWellFormed == \A k \in 1..Len(sigs) : LET sg == sigs[k] IN
                    /\ TyVars(sg.ret) \subseteq SigVars(sg) /\ (sg.rann => CanAnnotate(sg.ret)) /\ sg.nl <= Len(sg.ps)
                    /\ \A i \in 1..Len(sg.ps) : /\ sg.ps[i] \in D1G /\ TyVars(sg.ps[i]) \subseteq SigVars(sg)
                                                /\ (sg.kd[i].k = "ann" => CanAnnotate(sg.ps[i]))
                                                /\ (sg.kd[i].k = "free" => sg.ps[i] \in UV /\ \A j \in 1..Len(sg.ps) : j # i => sg.ps[j] # sg.ps[i])
                                                /\ (sg.kd[i].k = "pin" => sg.kd[i].pin \in PinsFor(sg.ps[i]))
\* a binder of the function being generated mentions only that function's variables
BindersScoped == LET starts == {i \in 1..Len(out) : out[i].r = "funstart"}
                     last == IF starts = {} THEN 0 ELSE CHOOSE i \in starts : \A j \in starts : j <= i
                 IN ~Done => \A i \in (last + 1)..Len(out) : out[i].r = "binder" => TyVars(out[i].ty) \subseteq SigVars(sigs[cur])
\* every goal can be derived within any remaining budget (no behaviour gets stuck in the middle of a program)
Derivable == (phase = "body" /\ todo # <<>>) => \E p \in Options(todo[1]) : p.c = 0
\* no generic function reaches a later function
GenericsAcyclic == \A k \in fw : ~Generic(k)
EmitCase == (~Sim /\ Done) => PrintT(<<"CASE", ToJson(Program)>>)
=============================================================================
