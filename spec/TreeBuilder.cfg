CONSTANTS MaxRaw = 5
SPECIFICATION Spec
INVARIANTS Contiguous InRange AdvanceSafe Lossless
CONSTRAINT DepthBound
CHECK_DEADLOCK FALSE
