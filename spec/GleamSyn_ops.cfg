CONSTANTS Budget = 3 Sim = FALSE Start = "EXPRFILE"
  Masked = {"float", "string", "ctor", "tuple", "list", "list0", "list_spread", "block", "case", "case2", "lambda", "todo_operand", "bits", "last_todo", "last_panic_as",
            "call1", "call2", "call_update", "base_ctor", "base_block"}
SPECIFICATION Spec
INVARIANTS Balanced Levels EmitCase
CHECK_DEADLOCK FALSE
