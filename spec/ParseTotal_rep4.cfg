CONSTANTS Mode = "tok" Alphabet <- Rep MaxLen = 4 F = 1 U = 1 MaxDepth = 1
SPECIFICATION Spec
INVARIANTS Emit
CHECK_DEADLOCK FALSE
