----------------------------- MODULE RenameGate -----------------------------
(***************************************************************************)
(* C08 - the decision table of rename / prepare-rename.                    *)
(*                                                                         *)
(* A rename request is (a symbol occurrence under the cursor, the package  *)
(* the symbol is defined in, the proposed new name).  The property fixes   *)
(* when the request MUST be refused:                                       *)
(*   - the new name is not exactly one identifier token of the class the   *)
(*     symbol requires (RequiredClass): names [a-z][a-z0-9_]* that are not *)
(*     keywords for functions, constants, fields, parameters and locals;   *)
(*     [A-Z][A-Za-z0-9]* for types, aliases and constructors;              *)
(*   - the symbol is a module or a built-in (or there is no symbol);       *)
(*   - the occurrence spells the symbol through an import alias;           *)
(*   - the symbol is defined in a package that is not local                *)
(*     (a registry dependency under build/packages).                       *)
(* Prepare-rename is the same gate without the name.                       *)
(*                                                                         *)
(* Names are sequences of character symbols so that "exactly one           *)
(* identifier token" is defined here, character by character, and not      *)
(* taken from the implementation's lexer.  Every candidate carries a class *)
(* label used for coverage and for the feature vector of a mismatch; the   *)
(* labels are checked against the character-level definition (ASSUME).     *)
(*                                                                         *)
(* Behaviours: idle --Place(occurrence, locality)--> placed                *)
(*                  --Ask(candidate name)--> answered.                     *)
(* TLC enumerates all of them; every answered state is one row of the      *)
(* table and is printed as a CASE with the predicted answers.              *)
(***************************************************************************)
EXTENDS Naturals, Sequences, FiniteSets, TLC, Json, IOUtils

-----------------------------------------------------------------------------
(* Lexical classes of names, character by character *)
Lower == {"a","b","c","d","e","f","g","h","i","j","k","l","m","n","o","p","q","r","s","t","u","v","w","x","y","z"}
Upper == {"A","B","C","D","E","F","G","H","I","J","K","L","M","N","O","P","Q","R","S","T","U","V","W","X","Y","Z"}
Digit == {"0","1","2","3","4","5","6","7","8","9"}

Keywords == { <<"a","s">>, <<"a","s","s","e","r","t">>, <<"c","a","s","e">>, <<"c","o","n","s","t">>,
              <<"e","x","t","e","r","n","a","l">>, <<"f","n">>, <<"i","f">>, <<"i","m","p","o","r","t">>,
              <<"l","e","t">>, <<"o","p","a","q","u","e">>, <<"p","a","n","i","c">>, <<"p","u","b">>,
              <<"t","o","d","o">>, <<"t","y","p","e">>, <<"u","s","e">> }

IsLowerName(n) == /\ Len(n) >= 1
                  /\ n[1] \in Lower
                  /\ \A i \in 2..Len(n) : n[i] \in Lower \cup Digit \cup {"_"}
IsUpperName(n) == /\ Len(n) >= 1
                  /\ n[1] \in Upper
                  /\ \A i \in 2..Len(n) : n[i] \in Lower \cup Upper \cup Digit

ValidLower(n) == IsLowerName(n) /\ n \notin Keywords
ValidUpper(n) == IsUpperName(n)
ValidName(n)  == ValidLower(n) \/ ValidUpper(n)

-----------------------------------------------------------------------------
(* Candidate names.  Character symbols: one printable ASCII character, or  *)
(* SP TAB NL QUOTE BACKSLASH, or U+XXXX for a code point outside ASCII.    *)
BaseCandidates ==
   <<
      [class |-> "kw_as", chars |-> <<"a", "s">>],
      [class |-> "kw_assert", chars |-> <<"a", "s", "s", "e", "r", "t">>],
      [class |-> "kw_case", chars |-> <<"c", "a", "s", "e">>],
      [class |-> "kw_const", chars |-> <<"c", "o", "n", "s", "t">>],
      [class |-> "kw_external", chars |-> <<"e", "x", "t", "e", "r", "n", "a", "l">>],
      [class |-> "kw_fn", chars |-> <<"f", "n">>],
      [class |-> "kw_if", chars |-> <<"i", "f">>],
      [class |-> "kw_import", chars |-> <<"i", "m", "p", "o", "r", "t">>],
      [class |-> "kw_let", chars |-> <<"l", "e", "t">>],
      [class |-> "kw_opaque", chars |-> <<"o", "p", "a", "q", "u", "e">>],
      [class |-> "kw_panic", chars |-> <<"p", "a", "n", "i", "c">>],
      [class |-> "kw_pub", chars |-> <<"p", "u", "b">>],
      [class |-> "kw_todo", chars |-> <<"t", "o", "d", "o">>],
      [class |-> "kw_type", chars |-> <<"t", "y", "p", "e">>],
      [class |-> "kw_use", chars |-> <<"u", "s", "e">>],
      [class |-> "lower", chars |-> <<"z", "z">>],
      [class |-> "lower", chars |-> <<"a">>],
      [class |-> "lower", chars |-> <<"n", "e", "w", "_", "n", "a", "m", "e", "1">>],
      [class |-> "lower", chars |-> <<"x", "_">>],
      [class |-> "lower", chars |-> <<"a", "_", "_", "b", "9">>],
      [class |-> "lower", chars |-> <<"f", "n", "x">>],
      [class |-> "lower", chars |-> <<"l", "e", "t", "s">>],
      [class |-> "lower", chars |-> <<"t", "y", "p">>],
      [class |-> "upper", chars |-> <<"Z", "z">>],
      [class |-> "upper", chars |-> <<"A">>],
      [class |-> "upper", chars |-> <<"N", "e", "w", "N", "a", "m", "e", "1">>],
      [class |-> "upper", chars |-> <<"X", "9", "z">>],
      [class |-> "upper", chars |-> <<"F", "n">>],
      [class |-> "bad_ident", chars |-> <<"a", "B">>],
      [class |-> "bad_ident", chars |-> <<"n", "e", "w", "_", "N", "a", "m", "e">>],
      [class |-> "bad_ident", chars |-> <<"f", "o", "o", "B", "a", "r">>],
      [class |-> "bad_upper", chars |-> <<"A", "_", "b">>],
      [class |-> "bad_upper", chars |-> <<"N", "e", "w", "_", "n", "a", "m", "e">>],
      [class |-> "bad_upper", chars |-> <<"A", "_">>],
      [class |-> "discard", chars |-> <<"_", "x">>],
      [class |-> "discard", chars |-> <<"_">>],
      [class |-> "discard", chars |-> <<"_", "1">>],
      [class |-> "int", chars |-> <<"1", "2">>],
      [class |-> "int", chars |-> <<"0">>],
      [class |-> "int", chars |-> <<"1", "_", "0", "0", "0">>],
      [class |-> "float", chars |-> <<"1", ".", "5">>],
      [class |-> "float", chars |-> <<"2", ".", "0", "e", "3">>],
      [class |-> "string", chars |-> <<"QUOTE", "s", "QUOTE">>],
      [class |-> "string", chars |-> <<"QUOTE", "QUOTE">>],
      [class |-> "string", chars |-> <<"QUOTE", "SP", "QUOTE">>],
      [class |-> "string", chars |-> <<"QUOTE", "z", "z", "QUOTE">>],
      [class |-> "op_arith", chars |-> <<"+">>],
      [class |-> "op_arith", chars |-> <<"-">>],
      [class |-> "op_arith", chars |-> <<"*">>],
      [class |-> "op_arith", chars |-> <<"/">>],
      [class |-> "op_arith", chars |-> <<"%">>],
      [class |-> "op_float", chars |-> <<"+", ".">>],
      [class |-> "op_float", chars |-> <<"-", ".">>],
      [class |-> "op_float", chars |-> <<"*", ".">>],
      [class |-> "op_float", chars |-> <<"/", ".">>],
      [class |-> "op_compare", chars |-> <<"<">>],
      [class |-> "op_compare", chars |-> <<">">>],
      [class |-> "op_compare", chars |-> <<"<", "=">>],
      [class |-> "op_compare", chars |-> <<">", "=">>],
      [class |-> "op_compare", chars |-> <<"=", "=">>],
      [class |-> "op_compare", chars |-> <<"!", "=">>],
      [class |-> "op_compare", chars |-> <<"<", ".">>],
      [class |-> "op_compare", chars |-> <<">", "=", ".">>],
      [class |-> "op_bool", chars |-> <<"&", "&">>],
      [class |-> "op_bool", chars |-> <<"|", "|">>],
      [class |-> "op_bool", chars |-> <<"!">>],
      [class |-> "op_pipe", chars |-> <<"|", ">">>],
      [class |-> "op_pipe", chars |-> <<"<", ">">>],
      [class |-> "op_pipe", chars |-> <<"|">>],
      [class |-> "op_arrow", chars |-> <<"-", ">">>],
      [class |-> "op_arrow", chars |-> <<"<", "-">>],
      [class |-> "op_arrow", chars |-> <<"=">>],
      [class |-> "op_arrow", chars |-> <<".", ".">>],
      [class |-> "op_bits", chars |-> <<"<", "<">>],
      [class |-> "op_bits", chars |-> <<">", ">">>],
      [class |-> "punct", chars |-> <<"(">>],
      [class |-> "punct", chars |-> <<")">>],
      [class |-> "punct", chars |-> <<"{">>],
      [class |-> "punct", chars |-> <<"}">>],
      [class |-> "punct", chars |-> <<"[">>],
      [class |-> "punct", chars |-> <<"]">>],
      [class |-> "punct", chars |-> <<",">>],
      [class |-> "punct", chars |-> <<":">>],
      [class |-> "punct", chars |-> <<".">>],
      [class |-> "punct", chars |-> <<"#">>],
      [class |-> "punct", chars |-> <<"@">>],
      [class |-> "empty", chars |-> <<>>],
      [class |-> "whitespace", chars |-> <<"SP">>],
      [class |-> "whitespace", chars |-> <<"TAB">>],
      [class |-> "whitespace", chars |-> <<"NL">>],
      [class |-> "whitespace", chars |-> <<"SP", "SP">>],
      [class |-> "two_tokens", chars |-> <<"a", "SP", "b">>],
      [class |-> "two_tokens", chars |-> <<"F", "o", "o", "SP", "B", "a", "r">>],
      [class |-> "two_tokens", chars |-> <<"a", "TAB", "b">>],
      [class |-> "two_tokens", chars |-> <<"a", ",", "b">>],
      [class |-> "two_tokens", chars |-> <<"a", ".", "b">>],
      [class |-> "two_tokens", chars |-> <<"z", "z", "(", ")">>],
      [class |-> "two_tokens", chars |-> <<"a", "-", "b">>],
      [class |-> "two_tokens", chars |-> <<"1", "a">>],
      [class |-> "lead_space", chars |-> <<"SP", "a">>],
      [class |-> "lead_space", chars |-> <<"SP", "Z", "z">>],
      [class |-> "lead_space", chars |-> <<"NL", "z", "z">>],
      [class |-> "trail_space", chars |-> <<"a", "SP">>],
      [class |-> "trail_space", chars |-> <<"Z", "z", "SP">>],
      [class |-> "trail_space", chars |-> <<"z", "z", "NL">>],
      [class |-> "comment", chars |-> <<"/", "/", "z">>],
      [class |-> "comment", chars |-> <<"a", "/", "/", "z">>],
      [class |-> "comment", chars |-> <<"/", "/", "/", "d", "o", "c">>],
      [class |-> "comment", chars |-> <<"/", "/", "SP", "z", "z">>],
      [class |-> "nonascii", chars |-> <<"U+00E9">>],
      [class |-> "nonascii", chars |-> <<"U+540D">>],
      [class |-> "nonascii", chars |-> <<"a", "U+00E9">>],
      [class |-> "nonascii", chars |-> <<"U+00C9", "a">>],
      [class |-> "nonascii", chars |-> <<"U+00F1", "a", "m", "e">>],
      [class |-> "nonascii", chars |-> <<"z", "z", "U+00A0">>],
      [class |-> "nonascii", chars |-> <<"U+FF41">>],
      [class |-> "nonascii", chars |-> <<"Z", "z", "U+540D">>],
      [class |-> "other", chars |-> <<"$", "x">>],
      [class |-> "other", chars |-> <<"a", "?">>],
      [class |-> "other", chars |-> <<"a", "'">>],
      [class |-> "other", chars |-> <<"BACKSLASH">>],
      [class |-> "other", chars |-> <<"~">>],
      [class |-> "other", chars |-> <<"a", "BACKSLASH", "b">>]
   >>
(* further spellings per class, drawn by the check from VERIF_SEED (ndjson: {"class":..,"chars":[..]}) *)
ExtraCandidates == IF "C08_EXTRA" \in DOMAIN IOEnv /\ IOEnv.C08_EXTRA # ""
                   THEN ndJsonDeserialize(IOEnv.C08_EXTRA) ELSE <<>>

Range(f) == {f[i] : i \in DOMAIN f}
Candidates == Range(BaseCandidates) \cup {[class |-> x.class, chars |-> x.chars] : x \in Range(ExtraCandidates)}

KeywordClasses == {"kw_as", "kw_assert", "kw_case", "kw_const", "kw_external", "kw_fn", "kw_if", "kw_import", "kw_let",
                   "kw_opaque", "kw_panic", "kw_pub", "kw_todo", "kw_type", "kw_use"}
NameClasses == KeywordClasses \cup
               {"lower", "upper", "bad_ident", "bad_upper", "discard", "int", "float", "string", "op_arith", "op_float",
                "op_compare", "op_bool", "op_pipe", "op_arrow", "op_bits", "punct", "empty", "whitespace", "two_tokens",
                "lead_space", "trail_space", "comment", "nonascii", "other"}

(* the labels agree with the character-level definitions, every class is inhabited, every keyword is a candidate *)
ASSUME \A c \in Candidates : /\ c.class \in NameClasses
                             /\ (c.class = "lower") <=> ValidLower(c.chars)
                             /\ (c.class = "upper") <=> ValidUpper(c.chars)
                             /\ (c.class \in KeywordClasses) <=> (c.chars \in Keywords)
                             /\ (c.class = "empty") <=> (c.chars = <<>>)
ASSUME \A k \in NameClasses : \E c \in Candidates : c.class = k
ASSUME \A k \in Keywords : \E c \in Candidates : c.chars = k
ASSUME Cardinality(Keywords) = 15 /\ Cardinality(KeywordClasses) = 15

-----------------------------------------------------------------------------
(* Symbol kinds, occurrences of the fixed source family (harness/src/bin/renamegate.rs), packages *)
(* `*_shadowed`: a qualified occurrence `lib.name` in a module that declares a `name` of its own - *)
(* it still means the library's declaration                                                      *)
LowerKinds  == {"function", "constant", "field", "param", "let_local", "case_local", "use_local", "as_local",
                "spread_local", "lambda_param", "fn_label", "typevar"}
UpperKinds  == {"type", "type_alias", "constructor"}
NoSymbolKinds == {"module", "builtin", "nosymbol"}
Kinds == LowerKinds \cup UpperKinds \cup NoSymbolKinds

(* via: direct = the definition or a use in the defining module; qualified = m.x; unqualified = imported and spelled *)
(* by its own name; alias = imported `x as y` and spelled y; modalias = n.x under `import m as n` (own name).         *)
Vias == {"direct", "qualified", "unqualified", "alias", "modalias"}

Occurrences ==
   {
      [id |-> "function.def", kind |-> "function", via |-> "direct", site |-> "def"],
      [id |-> "function.use", kind |-> "function", via |-> "direct", site |-> "use"],
      [id |-> "function.qualified", kind |-> "function", via |-> "qualified", site |-> "use"],
      [id |-> "function.qualified_shadowed", kind |-> "function", via |-> "qualified", site |-> "use"],
      [id |-> "function.unq_import", kind |-> "function", via |-> "unqualified", site |-> "use"],
      [id |-> "function.unq_use", kind |-> "function", via |-> "unqualified", site |-> "use"],
      [id |-> "function.alias_orig", kind |-> "function", via |-> "unqualified", site |-> "use"],
      [id |-> "function.alias_import", kind |-> "function", via |-> "alias", site |-> "use"],
      [id |-> "function.alias_use", kind |-> "function", via |-> "alias", site |-> "use"],
      [id |-> "function.modalias", kind |-> "function", via |-> "modalias", site |-> "use"],
      [id |-> "constant.def", kind |-> "constant", via |-> "direct", site |-> "def"],
      [id |-> "constant.use", kind |-> "constant", via |-> "direct", site |-> "use"],
      [id |-> "constant.qualified", kind |-> "constant", via |-> "qualified", site |-> "use"],
      [id |-> "constant.qualified_shadowed", kind |-> "constant", via |-> "qualified", site |-> "use"],
      [id |-> "constant.unq_import", kind |-> "constant", via |-> "unqualified", site |-> "use"],
      [id |-> "constant.unq_use", kind |-> "constant", via |-> "unqualified", site |-> "use"],
      [id |-> "constant.alias_orig", kind |-> "constant", via |-> "unqualified", site |-> "use"],
      [id |-> "constant.alias_import", kind |-> "constant", via |-> "alias", site |-> "use"],
      [id |-> "constant.alias_use", kind |-> "constant", via |-> "alias", site |-> "use"],
      [id |-> "constant.modalias", kind |-> "constant", via |-> "modalias", site |-> "use"],
      [id |-> "field.def", kind |-> "field", via |-> "direct", site |-> "def"],
      [id |-> "field.arg_label", kind |-> "field", via |-> "direct", site |-> "use"],
      [id |-> "field.pattern_label", kind |-> "field", via |-> "direct", site |-> "use"],
      [id |-> "field.access_def", kind |-> "field", via |-> "direct", site |-> "def"],
      [id |-> "field.access", kind |-> "field", via |-> "direct", site |-> "use"],
      [id |-> "field.access_other_module", kind |-> "field", via |-> "qualified", site |-> "use"],
      [id |-> "field.arg_label_qualified", kind |-> "field", via |-> "qualified", site |-> "use"],
      [id |-> "field.pattern_label_qualified", kind |-> "field", via |-> "qualified", site |-> "use"],
      [id |-> "field.arg_label_alias_ctor", kind |-> "field", via |-> "direct", site |-> "use"],
      [id |-> "param.def", kind |-> "param", via |-> "direct", site |-> "def"],
      [id |-> "param.use", kind |-> "param", via |-> "direct", site |-> "use"],
      [id |-> "param.labelled_def", kind |-> "param", via |-> "direct", site |-> "def"],
      [id |-> "param.labelled_use", kind |-> "param", via |-> "direct", site |-> "use"],
      [id |-> "let_local.def", kind |-> "let_local", via |-> "direct", site |-> "def"],
      [id |-> "let_local.use", kind |-> "let_local", via |-> "direct", site |-> "use"],
      [id |-> "case_local.def", kind |-> "case_local", via |-> "direct", site |-> "def"],
      [id |-> "case_local.use", kind |-> "case_local", via |-> "direct", site |-> "use"],
      [id |-> "ctor_arg_local.def", kind |-> "case_local", via |-> "direct", site |-> "def"],
      [id |-> "ctor_arg_local.use", kind |-> "case_local", via |-> "direct", site |-> "use"],
      [id |-> "list_elem_local.def", kind |-> "case_local", via |-> "direct", site |-> "def"],
      [id |-> "list_elem_local.use", kind |-> "case_local", via |-> "direct", site |-> "use"],
      [id |-> "use_local.def", kind |-> "use_local", via |-> "direct", site |-> "def"],
      [id |-> "use_local.use", kind |-> "use_local", via |-> "direct", site |-> "use"],
      [id |-> "as_local.def", kind |-> "as_local", via |-> "direct", site |-> "def"],
      [id |-> "as_local.use", kind |-> "as_local", via |-> "direct", site |-> "use"],
      [id |-> "spread_local.def", kind |-> "spread_local", via |-> "direct", site |-> "def"],
      [id |-> "spread_local.use", kind |-> "spread_local", via |-> "direct", site |-> "use"],
      [id |-> "lambda_param.def", kind |-> "lambda_param", via |-> "direct", site |-> "def"],
      [id |-> "lambda_param.use", kind |-> "lambda_param", via |-> "direct", site |-> "use"],
      [id |-> "type.def", kind |-> "type", via |-> "direct", site |-> "def"],
      [id |-> "type.use", kind |-> "type", via |-> "direct", site |-> "use"],
      [id |-> "type.qualified", kind |-> "type", via |-> "qualified", site |-> "use"],
      [id |-> "type.qualified_shadowed", kind |-> "type", via |-> "qualified", site |-> "use"],
      [id |-> "type.unq_import", kind |-> "type", via |-> "unqualified", site |-> "use"],
      [id |-> "type.unq_use", kind |-> "type", via |-> "unqualified", site |-> "use"],
      [id |-> "type.alias_orig", kind |-> "type", via |-> "unqualified", site |-> "use"],
      [id |-> "type.alias_import", kind |-> "type", via |-> "alias", site |-> "use"],
      [id |-> "type.alias_use", kind |-> "type", via |-> "alias", site |-> "use"],
      [id |-> "type.modalias", kind |-> "type", via |-> "modalias", site |-> "use"],
      [id |-> "type_alias.def", kind |-> "type_alias", via |-> "direct", site |-> "def"],
      [id |-> "type_alias.use", kind |-> "type_alias", via |-> "direct", site |-> "use"],
      [id |-> "type_alias.qualified", kind |-> "type_alias", via |-> "qualified", site |-> "use"],
      [id |-> "type_alias.qualified_shadowed", kind |-> "type_alias", via |-> "qualified", site |-> "use"],
      [id |-> "type_alias.unq_import", kind |-> "type_alias", via |-> "unqualified", site |-> "use"],
      [id |-> "type_alias.unq_use", kind |-> "type_alias", via |-> "unqualified", site |-> "use"],
      [id |-> "type_alias.alias_orig", kind |-> "type_alias", via |-> "unqualified", site |-> "use"],
      [id |-> "type_alias.alias_import", kind |-> "type_alias", via |-> "alias", site |-> "use"],
      [id |-> "type_alias.alias_use", kind |-> "type_alias", via |-> "alias", site |-> "use"],
      [id |-> "constructor.def", kind |-> "constructor", via |-> "direct", site |-> "def"],
      [id |-> "constructor.use", kind |-> "constructor", via |-> "direct", site |-> "use"],
      [id |-> "constructor.pattern", kind |-> "constructor", via |-> "direct", site |-> "use"],
      [id |-> "constructor.qualified", kind |-> "constructor", via |-> "qualified", site |-> "use"],
      [id |-> "constructor.qualified_pattern", kind |-> "constructor", via |-> "qualified", site |-> "use"],
      [id |-> "constructor.qualified_shadowed", kind |-> "constructor", via |-> "qualified", site |-> "use"],
      [id |-> "constructor.qualified_pattern_shadowed", kind |-> "constructor", via |-> "qualified", site |-> "use"],
      [id |-> "constructor.unq_import", kind |-> "constructor", via |-> "unqualified", site |-> "use"],
      [id |-> "constructor.unq_use", kind |-> "constructor", via |-> "unqualified", site |-> "use"],
      [id |-> "constructor.unq_pattern", kind |-> "constructor", via |-> "unqualified", site |-> "use"],
      [id |-> "constructor.alias_orig", kind |-> "constructor", via |-> "unqualified", site |-> "use"],
      [id |-> "constructor.alias_import", kind |-> "constructor", via |-> "alias", site |-> "use"],
      [id |-> "constructor.alias_use", kind |-> "constructor", via |-> "alias", site |-> "use"],
      [id |-> "constructor.alias_pattern", kind |-> "constructor", via |-> "alias", site |-> "use"],
      [id |-> "constructor.modalias", kind |-> "constructor", via |-> "modalias", site |-> "use"],
      [id |-> "typevar.def", kind |-> "typevar", via |-> "direct", site |-> "def"],
      [id |-> "typevar.use", kind |-> "typevar", via |-> "direct", site |-> "use"],
      [id |-> "fn_label.def", kind |-> "fn_label", via |-> "direct", site |-> "def"],
      [id |-> "fn_label.use", kind |-> "fn_label", via |-> "qualified", site |-> "use"],
      [id |-> "module.import", kind |-> "module", via |-> "direct", site |-> "use"],
      [id |-> "module.qualifier", kind |-> "module", via |-> "direct", site |-> "use"],
      [id |-> "module.type_qualifier", kind |-> "module", via |-> "direct", site |-> "use"],
      [id |-> "module.import_unq", kind |-> "module", via |-> "direct", site |-> "use"],
      [id |-> "module.alias_orig", kind |-> "module", via |-> "direct", site |-> "use"],
      [id |-> "module.alias_import", kind |-> "module", via |-> "alias", site |-> "use"],
      [id |-> "module.alias_qualifier", kind |-> "module", via |-> "alias", site |-> "use"],
      [id |-> "builtin.int", kind |-> "builtin", via |-> "direct", site |-> "use"],
      [id |-> "builtin.list", kind |-> "builtin", via |-> "direct", site |-> "use"],
      [id |-> "builtin.result", kind |-> "builtin", via |-> "direct", site |-> "use"],
      [id |-> "builtin.nil_type", kind |-> "builtin", via |-> "direct", site |-> "use"],
      [id |-> "builtin.ok", kind |-> "builtin", via |-> "direct", site |-> "use"],
      [id |-> "builtin.error", kind |-> "builtin", via |-> "direct", site |-> "use"],
      [id |-> "builtin.nil", kind |-> "builtin", via |-> "direct", site |-> "use"],
      [id |-> "builtin.true", kind |-> "builtin", via |-> "direct", site |-> "use"],
      [id |-> "builtin.false", kind |-> "builtin", via |-> "direct", site |-> "use"],
      [id |-> "nosymbol.keyword", kind |-> "nosymbol", via |-> "direct", site |-> "use"],
      [id |-> "nosymbol.literal", kind |-> "nosymbol", via |-> "direct", site |-> "use"],
      [id |-> "nosymbol.operator", kind |-> "nosymbol", via |-> "direct", site |-> "use"],
      [id |-> "nosymbol.discard", kind |-> "nosymbol", via |-> "direct", site |-> "use"]
   }
Packages == {"app", "shared", "dep"}
IsLocal == [p \in Packages |-> p # "dep"]           \* dep lives under app/build/packages
DependsOn == {<<"app", "shared">>, <<"app", "dep">>}
Localities == {"same", "path", "registry"}
DefPackage(l) == CASE l = "same" -> "app" [] l = "path" -> "shared" [] l = "registry" -> "dep"

ASSUME \A o \in Occurrences : o.kind \in Kinds /\ o.via \in Vias /\ o.site \in {"def", "use"}
ASSUME \A k \in Kinds : \E o \in Occurrences : o.kind = k
ASSUME \A k \in Kinds \ NoSymbolKinds : \E o, u \in Occurrences : o.kind = k /\ u.kind = k /\ o.site = "def" /\ u.site = "use"
ASSUME \A v \in Vias : \E o \in Occurrences : o.via = v

-----------------------------------------------------------------------------
(* The gate *)
RequiredClass(kind) == CASE kind \in LowerKinds -> "lower"
                         [] kind \in UpperKinds -> "upper"
                         [] OTHER -> "none"

NameOK(kind, n) == CASE RequiredClass(kind) = "lower" -> ValidLower(n)
                     [] RequiredClass(kind) = "upper" -> ValidUpper(n)
                     [] OTHER -> FALSE

(* prepare-rename: the part of the gate that does not depend on the name *)
GateOpen(kind, locality, throughAlias) == /\ kind \notin NoSymbolKinds
                                          /\ ~throughAlias
                                          /\ IsLocal[DefPackage(locality)]

Accept(kind, n, locality, throughAlias) == GateOpen(kind, locality, throughAlias) /\ NameOK(kind, n)

(* the same decision as a list of reasons to refuse *)
Refusal(kind, n, locality, throughAlias) ==
       (IF kind \in NoSymbolKinds THEN {kind} ELSE {})
  \cup (IF throughAlias THEN {"alias"} ELSE {})
  \cup (IF ~IsLocal[DefPackage(locality)] THEN {"foreign"} ELSE {})
  \cup (IF ~NameOK(kind, n) THEN {"name"} ELSE {})

ThroughAlias(o) == o.via = "alias"
PrepareAccept(s)   == GateOpen(s.occ.kind, s.locality, ThroughAlias(s.occ))
RenameAccept(s, n) == Accept(s.occ.kind, n, s.locality, ThroughAlias(s.occ))

(* packages whose files hold occurrences of a symbol defined in p: p itself and, for module-level symbols, its dependents *)
LocalKinds == {"param", "let_local", "case_local", "use_local", "as_local", "spread_local", "lambda_param", "typevar"}
OccurrencePackages(kind, p) == IF kind \in LocalKinds THEN {p} ELSE {p} \cup {q \in Packages : <<q, p>> \in DependsOn}
EditPackages(s, n) == IF RenameAccept(s, n) THEN OccurrencePackages(s.occ.kind, DefPackage(s.locality)) ELSE {}

(* What the implementation offers at all.  The property never obliges rename to accept; outside this set the      *)
(* prediction for a request the gate lets through is "free" (only prepare/rename agreement and the edits are      *)
(* checked).  Inside it an unexpected refusal is reported, so that the table cannot pass vacuously.               *)
Supported(o) == /\ o.kind \in {"function", "constant", "field", "param", "let_local", "case_local", "use_local", "as_local",
                               "lambda_param", "type", "type_alias", "constructor"}
                /\ ~(o.kind = "constant" /\ o.via \in {"qualified", "modalias"})   \* m.konst is not resolved (goto-definition gap)

Predict(accepts, o) == IF ~accepts THEN "reject" ELSE IF Supported(o) THEN "accept" ELSE "free"

-----------------------------------------------------------------------------
VARIABLES phase, cur, cand, ans
vars == <<phase, cur, cand, ans>>

NoOcc == [id |-> "-", kind |-> "-", via |-> "-", site |-> "-"]
NoCand == [class |-> "-", chars |-> <<>>]

Init == /\ phase = "idle"
        /\ cur = [occ |-> NoOcc, locality |-> "-"]
        /\ cand = NoCand
        /\ ans = [prep |-> "-", ren |-> "-", edits |-> {}, why |-> {}]

Place(o, l) == /\ phase' = "placed"
               /\ cur' = [occ |-> o, locality |-> l]
               /\ ans' = [ans EXCEPT !.prep = Predict(PrepareAccept(cur'), o)]
               /\ UNCHANGED cand

OccsOf(k) == {o \in Occurrences : o.kind = k}

PlaceFunction    == phase = "idle" /\ \E o \in OccsOf("function"), l \in Localities : Place(o, l)
PlaceConstant    == phase = "idle" /\ \E o \in OccsOf("constant"), l \in Localities : Place(o, l)
PlaceField       == phase = "idle" /\ \E o \in OccsOf("field"), l \in Localities : Place(o, l)
PlaceParam       == phase = "idle" /\ \E o \in OccsOf("param"), l \in Localities : Place(o, l)
PlaceLetLocal    == phase = "idle" /\ \E o \in OccsOf("let_local"), l \in Localities : Place(o, l)
PlaceCaseLocal   == phase = "idle" /\ \E o \in OccsOf("case_local"), l \in Localities : Place(o, l)
PlaceUseLocal    == phase = "idle" /\ \E o \in OccsOf("use_local"), l \in Localities : Place(o, l)
PlaceAsLocal     == phase = "idle" /\ \E o \in OccsOf("as_local"), l \in Localities : Place(o, l)
PlaceSpreadLocal == phase = "idle" /\ \E o \in OccsOf("spread_local"), l \in Localities : Place(o, l)
PlaceLambdaParam == phase = "idle" /\ \E o \in OccsOf("lambda_param"), l \in Localities : Place(o, l)
PlaceFnLabel     == phase = "idle" /\ \E o \in OccsOf("fn_label"), l \in Localities : Place(o, l)
PlaceTypeVar     == phase = "idle" /\ \E o \in OccsOf("typevar"), l \in Localities : Place(o, l)
PlaceType        == phase = "idle" /\ \E o \in OccsOf("type"), l \in Localities : Place(o, l)
PlaceTypeAlias   == phase = "idle" /\ \E o \in OccsOf("type_alias"), l \in Localities : Place(o, l)
PlaceConstructor == phase = "idle" /\ \E o \in OccsOf("constructor"), l \in Localities : Place(o, l)
PlaceModule      == phase = "idle" /\ \E o \in OccsOf("module"), l \in Localities : Place(o, l)
PlaceBuiltin     == phase = "idle" /\ \E o \in OccsOf("builtin"), l \in Localities : Place(o, l)
PlaceNoSymbol    == phase = "idle" /\ \E o \in OccsOf("nosymbol"), l \in Localities : Place(o, l)

Ask(c) == /\ phase' = "answered"
          /\ cand' = c
          /\ ans' = [ans EXCEPT !.ren = Predict(RenameAccept(cur, c.chars), cur.occ),
                                !.edits = EditPackages(cur, c.chars),
                                !.why = Refusal(cur.occ.kind, c.chars, cur.locality, ThroughAlias(cur.occ))]
          /\ UNCHANGED cur

CandsOf(K) == {c \in Candidates : c.class \in K}

AskKeyword    == phase = "placed" /\ \E c \in CandsOf(KeywordClasses) : Ask(c)
AskLower      == phase = "placed" /\ \E c \in CandsOf({"lower"}) : Ask(c)
AskUpper      == phase = "placed" /\ \E c \in CandsOf({"upper"}) : Ask(c)
AskBadIdent   == phase = "placed" /\ \E c \in CandsOf({"bad_ident", "bad_upper", "discard"}) : Ask(c)
AskNumber     == phase = "placed" /\ \E c \in CandsOf({"int", "float"}) : Ask(c)
AskString     == phase = "placed" /\ \E c \in CandsOf({"string"}) : Ask(c)
AskOperator   == phase = "placed" /\ \E c \in CandsOf({"op_arith", "op_float", "op_compare", "op_bool", "op_pipe", "op_arrow", "op_bits"}) : Ask(c)
AskPunct      == phase = "placed" /\ \E c \in CandsOf({"punct"}) : Ask(c)
AskEmpty      == phase = "placed" /\ \E c \in CandsOf({"empty"}) : Ask(c)
AskWhitespace == phase = "placed" /\ \E c \in CandsOf({"whitespace"}) : Ask(c)
AskMultiToken == phase = "placed" /\ \E c \in CandsOf({"two_tokens", "lead_space", "trail_space"}) : Ask(c)
AskComment    == phase = "placed" /\ \E c \in CandsOf({"comment"}) : Ask(c)
AskNonAscii   == phase = "placed" /\ \E c \in CandsOf({"nonascii"}) : Ask(c)
AskOther      == phase = "placed" /\ \E c \in CandsOf({"other"}) : Ask(c)

Next == \/ PlaceFunction \/ PlaceConstant \/ PlaceField \/ PlaceParam \/ PlaceLetLocal \/ PlaceCaseLocal
        \/ PlaceUseLocal \/ PlaceAsLocal \/ PlaceSpreadLocal \/ PlaceLambdaParam \/ PlaceFnLabel \/ PlaceTypeVar
        \/ PlaceType \/ PlaceTypeAlias \/ PlaceConstructor \/ PlaceModule \/ PlaceBuiltin \/ PlaceNoSymbol
        \/ AskKeyword \/ AskLower \/ AskUpper \/ AskBadIdent \/ AskNumber \/ AskString \/ AskOperator \/ AskPunct
        \/ AskEmpty \/ AskWhitespace \/ AskMultiToken \/ AskComment \/ AskNonAscii \/ AskOther

Spec == Init /\ [][Next]_vars

-----------------------------------------------------------------------------
(* Theorems, checked by TLC in every reachable state *)
TypeOK == /\ phase \in {"idle", "placed", "answered"}
          /\ ans.prep \in {"-", "accept", "reject", "free"}
          /\ ans.ren \in {"-", "accept", "reject", "free"}
          /\ ans.edits \subseteq Packages

(* prepare-rename accepts a position exactly when rename with some valid name would *)
PrepareIffRename == phase = "placed" =>
                      (PrepareAccept(cur) <=> \E c \in Candidates : ValidName(c.chars) /\ RenameAccept(cur, c.chars))

(* no edit ever touches a file of a dependency; a refused rename has no edits *)
NoForeignEdit == phase = "answered" => \A p \in ans.edits : IsLocal[p]
RefusedNoEdit == phase = "answered" /\ ans.ren = "reject" => ans.edits = {}

(* the two formulations of the gate agree; an invalid name, a module, a built-in, an alias spelling or a foreign       *)
(* definition is each sufficient for a refusal, whatever the other coordinates are                                     *)
RefusalIffReject == phase = "answered" => ((ans.why # {}) <=> (ans.ren = "reject"))
EachReasonSuffices == phase = "answered" =>
                        /\ ~ValidName(cand.chars) => ans.ren = "reject"
                        /\ cur.occ.kind \in NoSymbolKinds => ans.ren = "reject" /\ ans.prep = "reject"
                        /\ cur.occ.via = "alias" => ans.ren = "reject" /\ ans.prep = "reject"
                        /\ cur.locality = "registry" => ans.ren = "reject" /\ ans.prep = "reject"
                        /\ ans.prep = "reject" => ans.ren = "reject"

Row == [occ |-> cur.occ.id, kind |-> cur.occ.kind, via |-> cur.occ.via, site |-> cur.occ.site,
        locality |-> cur.locality, class |-> cand.class, chars |-> cand.chars,
        req |-> RequiredClass(cur.occ.kind),
        valid |-> IF RequiredClass(cur.occ.kind) = "none" THEN ValidName(cand.chars) ELSE NameOK(cur.occ.kind, cand.chars),
        prep |-> ans.prep, ren |-> ans.ren, why |-> ans.why, edits |-> ans.edits]

Emit == phase = "answered" => PrintT(<<"CASE", ToJson(Row)>>)

ASSUME PrintT(<<"DOMAIN", ToJson([kinds |-> Kinds, classes |-> NameClasses, localities |-> Localities, vias |-> Vias,
                                  occurrences |-> {o.id : o \in Occurrences},
                                  candidates |-> Cardinality(Candidates)])>>)
=============================================================================
