------------------------------ MODULE GleamSyn ------------------------------
(***************************************************************************)
(* Reference grammar of the supported Gleam surface syntax (property C04)  *)
(* as a pushdown generator.  A behaviour is the leftmost derivation of one *)
(* source file; `out` is the token sequence interleaved with OPEN(kind) /  *)
(* CLOSE brackets that record the tree Gleam's grammar assigns:            *)
(*   - binary operators by precedence, all left associative                *)
(*       ||  <  &&  <  == !=  <  < <= > >= (and float forms)  <  <>        *)
(*       <  |>  <  + - and float forms  <  times, divide, remainder        *)
(*   - prefix ! and - bind tighter than any binary operator                *)
(*   - call, field access and tuple index are postfix chains               *)
(*   - a pipeline is its own node                                          *)
(*   - statements, clauses, items with the boundaries the source intends   *)
(*                                                                         *)
(* EXPR(p) derives an expression whose top-level binary operators all have *)
(* precedence >= p:   EXPR(p) ::= EXPR(p+1) | EXPR(p) op_p EXPR(p+1)       *)
(* so the brackets emitted are the unique parse of the token sequence.     *)
(* Every application of a non-default production costs one unit of Budget; *)
(* BFS over a small budget gives "every form once in every slot",          *)
(* simulation gives larger programs.                                       *)
(***************************************************************************)
EXTENDS Naturals, Sequences, FiniteSets, TLC, Json

CONSTANTS Budget, Sim, Start,   \* Start: the start symbol ("FILE", "EXPRFILE" for the operator-only grammar, "POSTFILE" for postfix chains)
          Masked

VARIABLES todo, out, budget
vars == <<todo, out, budget>>

Sym(s, x, n) == [s |-> s, x |-> x, n |-> n]
T(x)    == Sym("T", x, 0)
NT(s)   == Sym(s, "", 0)
E(p)    == Sym("EXPR", "", p)          \* expression with binary operators of precedence >= p
OPEN(k) == Sym("OPEN", k, 0)
CLOSE   == Sym("CLOSE", "", 0)
P(c, p, r) == [c |-> c, p |-> p, r |-> r]

\* binary operators by precedence level 1..8 (level 6 is the pipe)
Ops(p) == CASE p = 1 -> {"||"} [] p = 2 -> {"&&"} [] p = 3 -> {"==", "!="}
            [] p = 4 -> {"<", "<=", ">", ">=", "<.", "<=.", ">.", ">=."}
            [] p = 5 -> {"<>"} [] p = 6 -> {"|>"}
            [] p = 7 -> {"+", "-", "+.", "-."} [] p = 8 -> {"*", "/", "%", "*.", "/."}
\* one representative per level keeps BFS small; simulation uses all
RepOps(p) == CASE p = 1 -> {"||"} [] p = 2 -> {"&&"} [] p = 3 -> {"=="} [] p = 4 -> {"<"} [] p = 5 -> {"<>"}
               [] p = 6 -> {"|>"} [] p = 7 -> {"+", "-"} [] p = 8 -> {"*"}
OpsFor(p) == IF Sim THEN Ops(p) ELSE RepOps(p)

BinNode(op) == IF op = "|>" THEN "PIPE" ELSE "BINARY_OP"

Block == <<OPEN("BLOCK"), T("{"), NT("STMTS"), T("}"), CLOSE>>

Prods(h) ==
  CASE h.s = "FILE" -> { P(0, "file1", <<NT("ITEM")>>), P(1, "file2", <<NT("ITEM"), NT("FILE")>>) }
    [] h.s = "EXPRFILE" -> { P(0, "exprfile", <<OPEN("FUNCTION"), T("fn"), T("f"), T("("), T(")"), OPEN("BLOCK"), T("{"),
                                                  OPEN("STMT_EXPR"), E(1), CLOSE, T("}"), CLOSE, CLOSE>>) }
    \* postfix chains only: every chain of calls, field accesses and tuple indices up to the budget
    [] h.s = "POSTFILE" -> { P(0, "postfile", <<OPEN("FUNCTION"), T("fn"), T("f"), T("("), T(")"), OPEN("BLOCK"), T("{"),
                                                  OPEN("STMT_EXPR"), NT("POSTFIX"), CLOSE, T("}"), CLOSE, CLOSE>>) }
    [] h.s = "ITEM" ->
         { P(0, "fn", <<OPEN("FUNCTION"), NT("PUB"), T("fn"), T("f"), T("("), NT("PARAMS"), T(")"), NT("RET")>> \o Block \o <<CLOSE>>),
           P(1, "fn_external", <<OPEN("FUNCTION"), OPEN("EXTERNAL_ATTR"), T("@"), T("external"), T("("), T("erlang"), T(","), T("\"m\""), T(","), T("\"f\""), T(")"), CLOSE,
                                 NT("PUB"), T("fn"), T("f"), T("("), NT("PARAMS"), T(")"), T("->"), NT("TYPE"), CLOSE>>),
           P(1, "fn_target", <<OPEN("FUNCTION"), OPEN("TARGET_ATTR"), T("@"), T("target"), T("("), T("erlang"), T(")"), CLOSE,
                               T("fn"), T("f"), T("("), T(")")>> \o Block \o <<CLOSE>>),
           P(1, "const", <<OPEN("MODULE_CONSTANT"), NT("PUB"), T("const"), T("c"), NT("ANNOT"), T("="), NT("CEXPR"), CLOSE>>),
           P(1, "type", <<OPEN("ADT"), NT("PUB"), NT("OPAQUE"), T("type"), T("T"), NT("GENERICS"), T("{"), NT("VARIANTS"), T("}"), CLOSE>>),
           P(1, "alias", <<OPEN("TYPE_ALIAS"), NT("PUB"), T("type"), T("A"), NT("GENERICS"), T("="), NT("TYPE"), CLOSE>>),
           P(1, "import", <<OPEN("IMPORT"), T("import"), NT("MODPATH"), NT("UNQUAL"), NT("IMPORTAS"), CLOSE>>) }
    [] h.s = "PUB" -> { P(0, "nopub", <<>>), P(1, "pub", <<T("pub")>>) }
    [] h.s = "OPAQUE" -> { P(0, "noopaque", <<>>), P(1, "opaque", <<T("opaque")>>) }
    [] h.s = "RET" -> { P(0, "noret", <<>>), P(1, "ret", <<T("->"), NT("TYPE")>>) }
    [] h.s = "ANNOT" -> { P(0, "noannot", <<>>), P(1, "annot", <<T(":"), NT("TYPE")>>) }
    [] h.s = "GENERICS" -> { P(0, "nogen", <<>>), P(1, "gen1", <<T("("), T("a"), T(")")>>), P(1, "gen2", <<T("("), T("a"), T(","), T("b"), T(")")>>) }
    [] h.s = "MODPATH" -> { P(0, "mod1", <<T("m")>>), P(1, "mod2", <<T("m"), T("/"), T("n")>>) }
    [] h.s = "IMPORTAS" -> { P(0, "noas", <<>>), P(1, "as", <<T("as"), T("k")>>) }
    [] h.s = "UNQUAL" ->
         { P(0, "nounq", <<>>),
           P(1, "unq1", <<T("."), T("{"), OPEN("UNQUALIFIED_IMPORT"), T("x"), CLOSE, T("}")>>),
           P(1, "unq_as", <<T("."), T("{"), OPEN("UNQUALIFIED_IMPORT"), T("x"), T("as"), T("y"), T(","), CLOSE,
                            OPEN("UNQUALIFIED_IMPORT"), T("X"), T("as"), T("Y"), CLOSE, T("}")>>),
           P(1, "unq_type", <<T("."), T("{"), OPEN("UNQUALIFIED_IMPORT"), T("type"), T("X"), T(","), CLOSE,
                              OPEN("UNQUALIFIED_IMPORT"), T("type"), T("X"), T("as"), T("Y"), T(","), CLOSE,
                              OPEN("UNQUALIFIED_IMPORT"), T("X"), CLOSE, T("}")>>) }
    [] h.s = "PARAMS" ->
         { P(0, "noparams", <<>>),
           P(1, "param1", <<NT("PARAM")>>),
           P(1, "param2", <<NT("PARAM"), NT("PARAM")>>) }
    \* a parameter node includes its trailing comma (the parser's choice of where the separator lives)
    [] h.s = "PARAM" ->
         { P(0, "p_name", <<OPEN("PARAM"), T("x"), NT("ANNOT"), NT("COMMA"), CLOSE>>),
           P(1, "p_label", <<OPEN("PARAM"), T("l"), T("x"), NT("ANNOT"), NT("COMMA"), CLOSE>>),
           P(1, "p_discard", <<OPEN("PARAM"), T("_"), NT("ANNOT"), NT("COMMA"), CLOSE>>),
           P(1, "p_label_discard", <<OPEN("PARAM"), T("l"), T("_x"), NT("ANNOT"), NT("COMMA"), CLOSE>>) }
    [] h.s = "COMMA" -> { P(0, "comma", <<T(",")>>) }
    [] h.s = "VARIANTS" -> { P(0, "variant1", <<NT("VARIANT")>>), P(1, "variant2", <<NT("VARIANT"), NT("VARIANT")>>) }
    [] h.s = "VARIANT" ->
         { P(0, "v_plain", <<OPEN("VARIANT"), T("V"), CLOSE>>),
           P(1, "v_fields", <<OPEN("VARIANT"), T("V"), T("("), OPEN("VARIANT_FIELD"), NT("TYPE"), CLOSE, T(","),
                              OPEN("VARIANT_FIELD"), T("l"), T(":"), NT("TYPE"), CLOSE, T(")"), CLOSE>>) }
    [] h.s = "TYPE" ->
         { P(0, "t_name", <<T("Int")>>),
           P(1, "t_var", <<T("a")>>),
           P(1, "t_hole", <<T("_")>>),
           P(1, "t_app", <<OPEN("TYPE_APPLICATION"), T("List"), T("("), NT("TYPE"), T(")"), CLOSE>>),
           P(1, "t_app2", <<OPEN("TYPE_APPLICATION"), T("Result"), T("("), NT("TYPE"), T(","), NT("TYPE"), T(")"), CLOSE>>),
           P(1, "t_qualified", <<T("m"), T("."), T("T")>>),
           P(1, "t_qualified_app", <<OPEN("TYPE_APPLICATION"), T("m"), T("."), T("T"), T("("), NT("TYPE"), T(")"), CLOSE>>),
           P(1, "t_fn", <<OPEN("FN_TYPE"), T("fn"), T("("), NT("TYPE"), T(","), NT("TYPE"), T(")"), T("->"), NT("TYPE"), CLOSE>>),
           P(1, "t_fn0", <<OPEN("FN_TYPE"), T("fn"), T("("), T(")"), T("->"), NT("TYPE"), CLOSE>>),
           P(1, "t_tuple", <<OPEN("TUPLE_TYPE"), T("#"), T("("), NT("TYPE"), T(","), NT("TYPE"), T(")"), CLOSE>>) }
    [] h.s = "CEXPR" ->
         { P(0, "c_int", <<T("1")>>), P(1, "c_string", <<T("\"s\"")>>), P(1, "c_float", <<T("1.5")>>),
           P(1, "c_list", <<OPEN("LIST"), T("["), T("1"), T(","), T("2"), T("]"), CLOSE>>),
           P(1, "c_tuple", <<OPEN("TUPLE"), T("#"), T("("), T("1"), T(","), T("\"s\""), T(")"), CLOSE>>) }
    [] h.s = "STMTS" ->
         { P(0, "last", <<OPEN("STMT_EXPR"), E(1), CLOSE>>),
           P(1, "last_todo", <<OPEN("STMT_EXPR"), OPEN("MISSING"), T("todo"), CLOSE, CLOSE>>),
           P(1, "last_panic_as", <<OPEN("STMT_EXPR"), OPEN("MISSING"), T("panic"), T("as"), T("\"s\""), CLOSE, CLOSE>>),
           \* the message of `as` may be a postfix chain - under Gleam's reading (an expression unit: atom + postfix operators)
           \* and under the reading "a full expression" alike, the chain belongs to the message
           P(1, "last_todo_as_post", <<OPEN("STMT_EXPR"), OPEN("MISSING"), T("todo"), T("as"), NT("POSTFIX"), CLOSE, CLOSE>>),
           P(1, "seq", <<NT("STMT"), NT("STMTS")>>) }
    [] h.s = "STMT" ->
         { P(0, "let", <<OPEN("STMT_LET"), T("let"), NT("PAT"), NT("ANNOT"), T("="), E(1), CLOSE>>),
           P(1, "let_assert", <<OPEN("STMT_LET"), T("let"), T("assert"), NT("PAT"), T("="), E(1), CLOSE>>),
           P(1, "use0", <<OPEN("STMT_USE"), T("use"), T("<-"), NT("CALL"), CLOSE>>),
           P(1, "use1", <<OPEN("STMT_USE"), T("use"), OPEN("USE_ASSIGNMENT"), NT("PAT"), NT("ANNOT"), CLOSE, T("<-"), NT("CALL"), CLOSE>>),
           P(1, "use2", <<OPEN("STMT_USE"), T("use"), OPEN("USE_ASSIGNMENT"), T("a"), CLOSE, T(","), OPEN("USE_ASSIGNMENT"), T("b"), CLOSE, T("<-"), NT("CALL"), CLOSE>>),
           P(1, "expr_stmt", <<OPEN("STMT_EXPR"), NT("CALL"), CLOSE>>) }
    [] h.s = "EXPR" ->
         (IF h.n <= 8
          THEN { P(0, "climb", <<E(h.n + 1)>>) }
               \cup { P(1, "bin" \o op, <<OPEN(BinNode(op)), E(h.n), T(op), E(h.n + 1), CLOSE>>) : op \in OpsFor(h.n) }
          ELSE \* level 9: prefix operators, postfix chains, atoms
               { P(0, "atom", <<NT("ATOM")>>),
                 P(1, "not", <<OPEN("UNARY_OP"), T("!"), E(9), CLOSE>>),
                 P(1, "neg", <<OPEN("UNARY_OP"), T("-"), E(9), CLOSE>>),
                 P(1, "postfix", <<NT("POSTFIX")>>) })
    [] h.s = "POSTFIX" ->
         { P(0, "call", <<NT("CALL")>>),
           P(1, "field", <<OPEN("FIELD_ACCESS"), NT("POSTBASE"), T("."), T("fld"), CLOSE>>),
           P(1, "index", <<OPEN("TUPLE_INDEX"), NT("POSTBASE"), T("."), T("0"), CLOSE>>) }
    [] h.s = "POSTBASE" -> { P(0, "base_var", <<T("x")>>), P(1, "base_ctor", <<T("V")>>), P(1, "base_postfix", <<NT("POSTFIX")>>),
                             P(1, "base_block", Block) }
    [] h.s = "CALL" ->
         { P(0, "call0", <<OPEN("EXPR_CALL"), NT("POSTBASE"), T("("), T(")"), CLOSE>>),
           P(1, "call1", <<OPEN("EXPR_CALL"), NT("POSTBASE"), T("("), NT("ARG"), T(")"), CLOSE>>),
           P(1, "call2", <<OPEN("EXPR_CALL"), NT("POSTBASE"), T("("), NT("ARG"), T(","), NT("ARG"), T(")"), CLOSE>>),
           P(1, "call_update", <<OPEN("EXPR_CALL"), T("V"), T("("), OPEN("ARG"), OPEN("EXPR_SPREAD"), T(".."), T("r"), CLOSE, CLOSE, T(","),
                                 OPEN("ARG"), T("l"), T(":"), E(1), CLOSE, T(")"), CLOSE>>) }
    [] h.s = "ARG" ->
         { P(0, "arg", <<OPEN("ARG"), E(1), CLOSE>>),
           P(1, "arg_label", <<OPEN("ARG"), T("l"), T(":"), E(1), CLOSE>>),
           P(1, "arg_hole", <<OPEN("ARG"), T("_"), CLOSE>>) }
    [] h.s = "ATOM" ->
         { P(0, "int", <<T("1")>>), P(0, "var", <<T("x")>>),
           P(1, "float", <<T("1.5")>>), P(1, "string", <<T("\"s\"")>>), P(1, "ctor", <<T("V")>>),
           P(1, "tuple", <<OPEN("TUPLE"), T("#"), T("("), E(1), T(","), E(1), T(")"), CLOSE>>),
           P(1, "list", <<OPEN("LIST"), T("["), E(1), T(","), E(1), T("]"), CLOSE>>),
           P(1, "list0", <<OPEN("LIST"), T("["), T("]"), CLOSE>>),
           P(1, "list_spread", <<OPEN("LIST"), T("["), E(1), T(","), OPEN("EXPR_SPREAD"), T(".."), E(1), CLOSE, T("]"), CLOSE>>),
           P(1, "block", Block),
           P(1, "case", <<OPEN("CASE"), T("case"), E(1), T("{"), NT("CLAUSES"), T("}"), CLOSE>>),
           P(1, "case2", <<OPEN("CASE"), T("case"), E(1), T(","), E(1), T("{"), OPEN("CLAUSE"), OPEN("ALTERNATIVE_PATTERN"), NT("PAT"), CLOSE, T(","),
                           OPEN("ALTERNATIVE_PATTERN"), NT("PAT"), CLOSE, T("->"), E(1), CLOSE, T("}"), CLOSE>>),
           P(1, "lambda", <<OPEN("LAMBDA"), T("fn"), T("("), NT("LPARAMS"), T(")"), NT("RET")>> \o Block \o <<CLOSE>>),
           \* todo / panic as an operand (the message of `as` is not generated in operand position:
           \* whether it is a unit or a full expression is not settled here)
           P(1, "todo_operand", <<OPEN("MISSING"), T("todo"), CLOSE>>),
           P(1, "bits", <<T("<<"), T("1"), T(","), T("x"), T(">>")>>) }
    [] h.s = "LPARAMS" ->
         { P(0, "lp0", <<>>), P(1, "lp1", <<OPEN("PARAM"), T("x"), NT("ANNOT"), CLOSE>>),
           P(1, "lp2", <<OPEN("PARAM"), T("x"), T(","), CLOSE, OPEN("PARAM"), T("_"), CLOSE>>) }
    [] h.s = "CLAUSES" -> { P(0, "clause1", <<NT("CLAUSE")>>), P(1, "clause2", <<NT("CLAUSE"), NT("CLAUSE")>>) }
    [] h.s = "CLAUSE" ->
         { P(0, "clause", <<OPEN("CLAUSE"), OPEN("ALTERNATIVE_PATTERN"), NT("PAT"), CLOSE, T("->"), E(1), CLOSE>>),
           P(1, "clause_alt", <<OPEN("CLAUSE"), OPEN("ALTERNATIVE_PATTERN"), NT("PAT"), T("|"), NT("PAT"), CLOSE, T("->"), E(1), CLOSE>>),
           P(1, "clause_guard", <<OPEN("CLAUSE"), OPEN("ALTERNATIVE_PATTERN"), NT("PAT"), CLOSE, OPEN("PATTERN_GUARD"), T("if"), E(1), CLOSE, T("->"), E(1), CLOSE>>) }
    [] h.s = "PAT" ->
         { P(0, "p_var", <<T("x")>>),
           P(1, "p_discard", <<T("_")>>), P(1, "p_int", <<T("1")>>), P(1, "p_string", <<T("\"s\"")>>), P(1, "p_float", <<T("1.5")>>),
           P(1, "p_neg", <<OPEN("UNARY_OP"), T("-"), T("1"), CLOSE>>),
           P(1, "p_ctor0", <<OPEN("VARIANT_REF"), T("V"), CLOSE>>),
           P(1, "p_ctor", <<OPEN("VARIANT_REF"), T("V"), T("("), OPEN("VARIANT_REF_FIELD"), NT("PAT"), T(","), CLOSE,
                            OPEN("VARIANT_REF_FIELD"), T("l"), T(":"), NT("PAT"), CLOSE, T(")"), CLOSE>>),
           P(1, "p_ctor_spread", <<OPEN("VARIANT_REF"), T("V"), T("("), OPEN("VARIANT_REF_FIELD"), NT("PAT"), T(","), CLOSE,
                                   OPEN("VARIANT_REF_FIELD"), OPEN("PATTERN_SPREAD"), T(".."), CLOSE, CLOSE, T(")"), CLOSE>>),
           P(1, "p_qualified", <<OPEN("VARIANT_REF"), T("m"), T("."), T("V"), T("("), OPEN("VARIANT_REF_FIELD"), NT("PAT"), CLOSE, T(")"), CLOSE>>),
           P(1, "p_qualified0", <<OPEN("VARIANT_REF"), T("m"), T("."), T("V"), CLOSE>>),
           P(1, "p_tuple", <<OPEN("PATTERN_TUPLE"), T("#"), T("("), NT("PAT"), T(","), NT("PAT"), T(")"), CLOSE>>),
           P(1, "p_list", <<OPEN("PATTERN_LIST"), T("["), NT("PAT"), T(","), NT("PAT"), T("]"), CLOSE>>),
           P(1, "p_list0", <<OPEN("PATTERN_LIST"), T("["), T("]"), CLOSE>>),
           P(1, "p_list_rest", <<OPEN("PATTERN_LIST"), T("["), NT("PAT"), T(","), OPEN("PATTERN_SPREAD"), T(".."), T("r"), CLOSE, T("]"), CLOSE>>),
           P(1, "p_list_rest0", <<OPEN("PATTERN_LIST"), T("["), NT("PAT"), T(","), OPEN("PATTERN_SPREAD"), T(".."), CLOSE, T("]"), CLOSE>>),
           P(1, "p_concat", <<OPEN("PATTERN_CONCAT"), T("\"s\""), T("<>"), T("r"), CLOSE>>),
           P(1, "p_concat_discard", <<OPEN("PATTERN_CONCAT"), T("\"s\""), T("<>"), T("_"), CLOSE>>),
           P(1, "p_as", <<OPEN("AS_PATTERN"), NT("PATN"), T("as"), T("n"), CLOSE>>),
           P(1, "p_as_var", <<OPEN("AS_PATTERN"), T("x"), T("as"), T("n"), CLOSE>>) }
    [] h.s = "PATN" ->
         \* `as` may follow every structured pattern form (one production per form, as for PAT)
         { P(0, "pn_tuple", <<OPEN("PATTERN_TUPLE"), T("#"), T("("), NT("PAT"), T(","), NT("PAT"), T(")"), CLOSE>>),
           P(0, "pn_ctor", <<OPEN("VARIANT_REF"), T("V"), T("("), OPEN("VARIANT_REF_FIELD"), NT("PAT"), CLOSE, T(")"), CLOSE>>),
           P(0, "pn_ctor0", <<OPEN("VARIANT_REF"), T("V"), CLOSE>>),
           P(0, "pn_ctor_label", <<OPEN("VARIANT_REF"), T("V"), T("("), OPEN("VARIANT_REF_FIELD"), T("l"), T(":"), NT("PAT"), CLOSE, T(")"), CLOSE>>),
           P(0, "pn_qualified", <<OPEN("VARIANT_REF"), T("m"), T("."), T("V"), T("("), OPEN("VARIANT_REF_FIELD"), NT("PAT"), CLOSE, T(")"), CLOSE>>),
           P(0, "pn_qualified0", <<OPEN("VARIANT_REF"), T("m"), T("."), T("V"), CLOSE>>),
           P(0, "pn_list", <<OPEN("PATTERN_LIST"), T("["), NT("PAT"), T("]"), CLOSE>>),
           P(0, "pn_list_rest", <<OPEN("PATTERN_LIST"), T("["), NT("PAT"), T(","), OPEN("PATTERN_SPREAD"), T(".."), T("r"), CLOSE, T("]"), CLOSE>>),
           P(0, "pn_int", <<T("1")>>), P(0, "pn_string", <<T("\"s\"")>>) }
    [] OTHER -> {}

Pick(S) == IF Sim /\ S # {} THEN {RandomElement(S)} ELSE S

\* Lexical layer: the terminals "1", "1.5" and "\"s\"" of the productions stand for the literal CLASSES; every spelling of a
\* class is the same token to the grammar.  The replay renders the canonical spelling in the plain layouts and a seeded
\* member of the class in the third one.  (String lexemes: escapes \\ \" \n \t \u{..}, an escaped backslash right before
\* the closing quote, comment openers inside a string, a line break inside a string; the replay adds members with
\* non-ASCII characters, which TLC cannot print.)
LiteralSpellings ==
  [int   |-> <<"1", "1_000", "0xFF", "0b101", "0o17", "007">>,
   float |-> <<"1.5", "1.0e3", "1.5e-3", "1_0.5", "0.0">>,
   str   |-> <<"\"s\"", "\"\"", "\"\\\\\"", "\"a\\\"b\"", "\"\\\\\\\\\"", "\"c:\\\\tmp\\\\\"", "\"// c\"", "\"a\\nb\\t\"",
             "\"a\nb\"", "\"\\u{1F600}\"", "\"{ ( [\"">>]
ASSUME PrintT(<<"SPELL", ToJson(LiteralSpellings)>>)

Init == todo = <<NT(Start)>> /\ out = <<>> /\ budget = Budget

Step == /\ todo # <<>>
        /\ LET h == todo[1] rest == Tail(todo) IN
           CASE h.s = "T" -> /\ out' = Append(out, [t |-> h.x, r |-> "tok"]) /\ todo' = rest /\ UNCHANGED budget
             [] h.s = "OPEN" -> /\ out' = Append(out, [t |-> h.x, r |-> "open"]) /\ todo' = rest /\ UNCHANGED budget
             [] h.s = "CLOSE" -> /\ out' = Append(out, [t |-> "", r |-> "close"]) /\ todo' = rest /\ UNCHANGED budget
             [] OTHER -> \E p \in Pick({q \in Prods(h) : q.c <= budget /\ q.p \notin Masked}) :
                            /\ todo' = p.r \o rest /\ budget' = budget - p.c /\ UNCHANGED out

Done == todo = <<>>
Finish == /\ Sim /\ Done
          /\ PrintT(<<"CASE", ToJson([out |-> out])>>)
          /\ todo' = <<NT(Start)>> /\ out' = <<>> /\ budget' = Budget
Next == Step \/ Finish
Spec == Init /\ [][Next]_vars

-----------------------------------------------------------------------------
\* brackets are balanced in every finished derivation and never close below zero
RECURSIVE Depth(_, _)
Depth(i, d) == IF i > Len(out) THEN d
               ELSE IF d < 0 THEN d
               ELSE Depth(i + 1, IF out[i].r = "open" THEN d + 1 ELSE IF out[i].r = "close" THEN d - 1 ELSE d)
Balanced == Depth(1, 0) >= 0 /\ (Done => Depth(1, 0) = 0)

\* precedence table sanity: the levels are disjoint and ordered
Levels == \A p, q \in 1..8 : p # q => Ops(p) \cap Ops(q) = {}

EmitCase == (~Sim /\ Done) => PrintT(<<"CASE", ToJson([out |-> out])>>)
=============================================================================
