CONSTANTS Budget = 14 Sim = TRUE Start = "FILE"
  Masked = {"todo_operand", "p_neg"}
SPECIFICATION Spec
INVARIANTS Balanced
CHECK_DEADLOCK FALSE
