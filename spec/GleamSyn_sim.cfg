CONSTANTS Budget = 14 Sim = TRUE Start = "FILE"
  Masked = {"todo_operand", "p_neg", "p_as_var"}
SPECIFICATION Spec
INVARIANTS Balanced
CHECK_DEADLOCK FALSE
