CONSTANTS Budget = 1 NFuns = 2 Sim = FALSE Mode = "sigs" MaxParams = 0 Rounds = 6 Focus = {"call_rec_labels"}
  Masked = {"lambda_annot", "call_gen_rec", "none_call_rec_labels", "late_use"}
SPECIFICATION Spec
INVARIANTS Closed BindersTyped BindersScoped SigsWellFormed Derivable GenericsAcyclic EmitCase
CHECK_DEADLOCK FALSE
