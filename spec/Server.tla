------------------------------- MODULE Server -------------------------------
(***************************************************************************)
(* The glas language server as a concurrent design: the main loop          *)
(* (async-lsp MainLoop on a current-thread runtime; server.rs), the two    *)
(* locks (document store `vfs`: RwLock;  salsa storage lock inside         *)
(* AnalysisHost), request tasks and the diagnostics task chain on the      *)
(* blocking pool (handler.rs), publication of diagnostics, and the client. *)
(*                                                                         *)
(* One action per critical section of server.rs / handler.rs.  What the    *)
(* code does today and what a repaired design would do are both in the     *)
(* model, selected by constants:                                           *)
(*   ReadWithLiveVfs     TRUE = today: a task converts its position with   *)
(*                       the line table that is current when it runs       *)
(*                       (StateSnapshot.vfs is the live Arc<RwLock<Vfs>>)  *)
(*   ConvertWithLiveVfs  TRUE = today: goto-definition/references/rename   *)
(*                       take `snap.vfs()` a SECOND time after the query   *)
(*   CancelledDiagPublishesEmpty  TRUE = today: a cancelled diagnostics    *)
(*                       task returns Vec::new(), which is published       *)
(*   RespawnAllDiags     FALSE = today: didChange recomputes diagnostics   *)
(*                       of the changed document only                      *)
(*   PublishOnlyLatest   FALSE = today: whatever a diagnostics task        *)
(*                       returns is published when its waiter happens to   *)
(*                       run, even if a newer task of the document exists  *)
(*   HoldVfsAcrossApply  FALSE = today (drop(vfs) before apply_vfs_change) *)
(*   SnapshotInTask      FALSE = today (snapshot taken on the main loop)   *)
(*   CancelledAnsweredOk FALSE = today (a cancelled query is answered with *)
(*                       RequestCancelled); TRUE = seeded defect: it is    *)
(*                       answered with a successful null                   *)
(*   AnsFree             TRUE only for trace validation: the content class *)
(*                       of an answer is bound from the log and judged by  *)
(*                       the monitor instead of constraining the behaviour *)
(*   MaxInFlight / PollWhileWaiting  ConcurrencyLayer admission; FALSE =   *)
(*                       async-lsp 0.0.5: while waiting for a permit the   *)
(*                       main loop does not poll finished request futures  *)
(*   PreFixF9            TRUE = the tree before the F9 repairs             *)
(*   PreFixWDel          TRUE = the tree before the F44 repair: a watched- *)
(*                       file deletion only queues its change, the         *)
(*                       analysis keeps the deleted file until the next    *)
(*                       change is applied                                 *)
(*   ThirdPartyFatal     messages on which async-lsp's own layers end the  *)
(*                       loop (outside the grammar of C15)                 *)
(*                                                                         *)
(* Mode "conc" (C16): documents are open and in sync, the client sends     *)
(* valid edits and requests at any time.  Mode "seq" (C15): the sequential *)
(* protocol view - the client waits for quiescence between messages and    *)
(* draws them from a grammar of valid and invalid parameters.              *)
(***************************************************************************)
EXTENDS Integers, Sequences, FiniteSets, TLC, Json

CONSTANTS Docs,          \* document names (strings)
          Mode,          \* "conc" | "seq"
          MaxEdits, MaxReqs, MaxInFlight,
          ReqKinds,      \* subset of {"plain", "conv"}: conv = handler with a second snap.vfs()
          QueryOutcomes, \* subset of {"ok", "err"}
          ReadWithLiveVfs, ConvertWithLiveVfs, CancelledDiagPublishesEmpty, RespawnAllDiags, PublishOnlyLatest,
          HoldVfsAcrossApply, SnapshotInTask, CancelledAnsweredOk, AnsFree, PollWhileWaiting, PreFixF9, PreFixWDel, ThirdPartyFatal,
          Gen,           \* "none" | "bfs" | "sim"   (script generation, seq mode)
          ScriptLen

ASSUME Mode \in {"conc", "seq"} /\ Gen \in {"none", "bfs", "sim"}

-----------------------------------------------------------------------------
(* Text and positions (as in DocSync; no CR in the alphabet used here, but  *)
(* the convergence statement is written with StripCR).                      *)
Units == {"a", "nl", "c2", "c4"}
IsBreak(u) == u \in {"nl", "crlf"}
Utf16(u) == IF u = "c4" THEN 2 ELSE 1
Absent == <<"ABSENT">>                      \* not a text
StripCR(d) == [k \in 1..Len(d) |-> IF d[k] = "crlf" THEN "nl" ELSE d[k]]

RECURSIVE Sum16(_, _, _)
Sum16(d, lo, hi) == IF lo > hi THEN 0 ELSE Utf16(d[lo]) + Sum16(d, lo + 1, hi)
LastBreak(d, i) == LET S == {k \in 1..i : IsBreak(d[k])}
                   IN IF S = {} THEN 0 ELSE CHOOSE k \in S : \A j \in S : j <= k
PosOf(d, i) == [l |-> Cardinality({k \in 1..i : IsBreak(d[k])}),
                c |-> Sum16(d, LastBreak(d, i) + 1, i)]
Splice(d, i, j, t) == SubSeq(d, 1, i) \o t \o SubSeq(d, j + 1, Len(d))
SrvIdx(s, p) == {i \in 0..Len(s) : PosOf(s, i) = p}     \* boundaries named by p: none or one
P0 == [l |-> 0, c |-> 0]
Huge31 == 0 - 1          \* rendered as 2^31   by the driver (TLC integers are 32 bit)
Huge32 == 0 - 2          \* rendered as 2^32-1

\* The design rule for one content change (server.rs::on_did_change, convert::from_range,
\* vfs.rs::change_file_content): both positions must name a boundary of the stored text and
\* start <= end; anything else cannot be applied.
Appliable(s, ch) == \/ ch.full
                    \/ /\ SrvIdx(s, ch.s) # {} /\ SrvIdx(s, ch.e) # {}
                       /\ (CHOOSE x \in SrvIdx(s, ch.s) : TRUE) <= (CHOOSE x \in SrvIdx(s, ch.e) : TRUE)
ApplyChange(s, ch) ==
    IF ch.full THEN StripCR(ch.t)
    ELSE StripCR(Splice(s, CHOOSE x \in SrvIdx(s, ch.s) : TRUE, CHOOSE x \in SrvIdx(s, ch.e) : TRUE, ch.t))

\* Pre-repair behaviour (F9), only used when PreFixF9: a line beyond the end is read as line 0
Wrap0(s, p) == IF p.l > PosOf(s, Len(s)).l THEN [l |-> 0, c |-> p.c] ELSE p
OldCh(s, ch) == IF ch.full THEN ch ELSE [ch EXCEPT !.s = Wrap0(s, ch.s), !.e = Wrap0(s, ch.e)]
Reversed(s, ch) == /\ ~ch.full /\ SrvIdx(s, ch.s) # {} /\ SrvIdx(s, ch.e) # {}
                   /\ (CHOOSE x \in SrvIdx(s, ch.s) : TRUE) > (CHOOSE x \in SrvIdx(s, ch.e) : TRUE)

-----------------------------------------------------------------------------
(* Documents, by the shape of their URI (the driver renders them):           *)
(*   d1 d2 d3  file:///<root>/src/<name>.gleam in the one package (d1, d2 on  *)
(*             disk);   e  the same with percent-encoded / non-ASCII path      *)
(*             segments;   q  = d3's URI with a query and a fragment: it maps   *)
(*             to the same file path, hence IS d3 for the server (Canon)        *)
(*   o         file:///... outside any package (no gleam.toml above it)        *)
(*   h         file://host/share/... (authority: no local path)                 *)
(*   u         untitled:...        g  another scheme (git:/<path of d1>)        *)
(* Rule: a document whose URI the server cannot map to a local file path is    *)
(* ignored - never stored; requests on it answer with an error.  A document is *)
(* identified by the path its URI maps to.                                     *)
HasPath(d) == d \notin {"u", "h", "g"}
IsPipe(d) == d = "p"      \* a named pipe with a module's name in the package's source directory: not a regular file
InPkg(d) == d \in {"d1", "d2", "d3", "e", "n", "p"}     \* "n": a file: URI whose percent-encoded path is not valid UTF-8 (%FF): a file like any other
Canon(d) == IF d = "q" THEN "d3" ELSE d
DiskInit(d) == d \in {"d1", "d2"}
DiskText(d) == IF d = "d1" THEN <<"a", "nl", "a">> ELSE <<"a">>

Ch(full, s, e, t) == [full |-> full, s |-> s, e |-> e, t |-> t]
Msg(k, d, id, chs, p, rk) == [k |-> k, d |-> d, id |-> id, chs |-> chs, p |-> p, rk |-> rk]
Nil == Msg("nil", "", 0, <<>>, P0, "")

VARIABLES
  \* client
  cText, cOpen, nEdits, nextId, sent, resp, inbox, onDisk, hist,
  \* main loop
  mpc, cur, chLeft, diagTodo, alive,
  \* document store (Vfs behind an RwLock; readers are atomic, only the main loop writes)
  vfsW, vfsText, vfsVer, opened, pending, loaded,
  \* analysis database (salsa): inputs, cancellation flag; snapshots are held by tasks
  dbText, dbVer, cancelFlag, taken,
  \* tasks on the blocking pool, admission, diagnostics chain
  tasks, inflight, nextDiag, diagTask, retq, evq, published

cvars == <<cText, cOpen, nEdits, nextId, sent, resp, inbox, onDisk, hist>>
mvars == <<mpc, cur, chLeft, diagTodo, alive>>
svars == <<vfsW, vfsText, vfsVer, opened, pending, loaded>>
dvars == <<dbText, dbVer, cancelFlag, taken>>
tvars == <<tasks, inflight, nextDiag, diagTask, retq, evq, published>>
vars == <<cvars, mvars, svars, dvars, tvars>>

MaxDiags == 2 * (MaxEdits + Cardinality(Docs)) + 2
TaskIdsAll == (1..MaxReqs) \cup {0 - k : k \in 1..MaxDiags}
Snaps == {t \in DOMAIN tasks : tasks[t].snap}
Task(kind, d, rk) == [kind |-> kind, d |-> d, rk |-> rk, st |-> "spawned", snap |-> FALSE, aborted |-> FALSE,
                      issued |-> 0, snapVer |-> 0, spawnVfs |-> 0, readVer |-> 0, convVer |-> 0, res |-> "none",
                      snapText |-> <<>>, ans |-> <<>>]
\* The abstract answer: a function of the request kind and of the text in the snapshot the query ran on.
Ans(rk, text) == <<rk>> \o text
Wrong(rk) == <<rk, "NOT-THE-ANSWER">>
Upd(f, k, v) == [x \in DOMAIN f \cup {k} |-> IF x = k THEN v ELSE f[x]]
Del(f, k) == [x \in DOMAIN f \ {k} |-> f[x]]

Conc == Mode = "conc"
IsConv(rk) == rk \in {"conv", "definition", "references", "rename"}
T0 == <<"a">>

Init ==
  /\ cText = [d \in Docs |-> IF Conc THEN T0 ELSE <<>>]
  /\ cOpen = [d \in Docs |-> Conc]
  /\ nEdits = 0 /\ nextId = 1 /\ sent = {} /\ resp = [i \in 1..MaxReqs |-> 0] /\ inbox = <<>>
  /\ onDisk = [d \in Docs |-> DiskInit(d)] /\ hist = <<>>
  /\ mpc = "idle" /\ cur = Nil /\ chLeft = <<>> /\ diagTodo = {} /\ alive = TRUE
  /\ vfsW = FALSE
  /\ vfsText = [d \in Docs |-> IF Conc THEN T0 ELSE Absent]
  /\ vfsVer = [d \in Docs |-> 0]
  /\ opened = [d \in Docs |-> Conc]
  /\ pending = {} /\ loaded = Conc
  /\ dbText = [d \in Docs |-> IF Conc THEN T0 ELSE Absent]
  /\ dbVer = [d \in Docs |-> 0]
  /\ cancelFlag = FALSE /\ taken = {}
  /\ tasks = <<>> /\ inflight = {} /\ nextDiag = 1
  /\ diagTask = [d \in Docs |-> 0]
  /\ retq = <<>> /\ evq = <<>>
  /\ published = [d \in Docs |-> [ver |-> 0, c |-> IF Conc THEN "ok" ELSE "none"]]

-----------------------------------------------------------------------------
(* The main loop.  select_biased!: finished request futures (M_PollTasks) > *)
(* internal events (E_Publish) > incoming messages (M_Dequeue); modelled as *)
(* a free choice, which over-approximates the priorities.                   *)

Idle == alive /\ mpc = "idle"

\* incoming request: ConcurrencyLayer::poll_ready, then Router -> request_snap -> spawn_with_snapshot
M_Dequeue ==
  /\ Idle /\ inbox # <<>>
  /\ LET m == Head(inbox) IN
     /\ inbox' = Tail(inbox)
     /\ cur' = [m EXCEPT !.d = Canon(m.d)]
     /\ mpc' = CASE m.k = "req" -> IF Cardinality(inflight) >= MaxInFlight THEN "wait_permit" ELSE "spawn"
                 [] m.k \in {"open", "change", "wchg", "wdel"} -> "lock"
                 [] m.k = "close" -> "close"
                 [] m.k = "fatal" -> "fatal"
                 [] OTHER -> "skip"          \* didSave, $/cancelRequest, $/..., didChangeConfiguration
  /\ UNCHANGED <<cText, cOpen, nEdits, nextId, sent, resp, onDisk, hist, chLeft, diagTodo, alive, svars, dvars, tvars>>

M_Skip == /\ alive /\ mpc = "skip" /\ mpc' = "idle" /\ cur' = Nil
          /\ UNCHANGED <<cvars, chLeft, diagTodo, alive, svars, dvars, tvars>>

\* third-party default: the router / lifecycle layer of async-lsp breaks the loop
M_Fatal == /\ alive /\ mpc = "fatal" /\ alive' = FALSE
           /\ UNCHANGED <<cvars, mpc, cur, chLeft, diagTodo, svars, dvars, tvars>>

\* MainLoop::run awaits poll_ready inside the incoming branch; permits come back only through M_PollTasks
M_WaitPermit ==
  /\ alive /\ mpc = "wait_permit" /\ Cardinality(inflight) < MaxInFlight
  /\ mpc' = "spawn"
  /\ UNCHANGED <<cvars, cur, chLeft, diagTodo, alive, svars, dvars, tvars>>

M_SpawnTask ==
  /\ alive /\ mpc = "spawn"
  /\ LET t == cur.id
         r == [Task("req", cur.d, cur.rk) EXCEPT !.snap = ~SnapshotInTask, !.issued = dbVer[cur.d],
                                                 !.snapVer = dbVer[cur.d], !.spawnVfs = vfsVer[cur.d],
                                                 !.snapText = dbText[cur.d]]
     IN /\ tasks' = Upd(tasks, t, r)
        /\ inflight' = inflight \cup {t}
  /\ mpc' = "idle" /\ cur' = Nil
  /\ UNCHANGED <<cvars, chLeft, diagTodo, alive, svars, dvars, nextDiag, diagTask, retq, evq, published>>

M_PollTasks ==
  /\ alive /\ (mpc = "idle" \/ (PollWhileWaiting /\ mpc = "wait_permit"))
  /\ \E t \in inflight :
       /\ t \in DOMAIN tasks /\ tasks[t].st = "returned"
       /\ resp' = [resp EXCEPT ![t] = @ + 1]
       /\ tasks' = Del(tasks, t)
       /\ inflight' = inflight \ {t}
  /\ UNCHANGED <<cText, cOpen, nEdits, nextId, sent, inbox, onDisk, hist, mvars, svars, dvars, nextDiag, diagTask, retq, evq, published>>

\* on_did_open / on_did_change / set_vfs_file_content: self.vfs.write()
M_LockVfs ==
  /\ alive /\ mpc = "lock" /\ ~vfsW
  /\ vfsW' = TRUE
  /\ mpc' = IF cur.k = "change" /\ vfsText[cur.d] = Absent THEN "ignore" ELSE "locked"
  /\ chLeft' = IF cur.k = "change" /\ vfsText[cur.d] # Absent THEN cur.chs ELSE <<>>
  /\ UNCHANGED <<cvars, cur, diagTodo, alive, vfsText, vfsVer, opened, pending, loaded, dvars, tvars>>

\* didChange for a document that is not in the store: the guard is dropped on return, nothing else happens
M_IgnoreChange ==
  /\ alive /\ mpc = "ignore"
  /\ vfsW' = FALSE /\ mpc' = "idle" /\ cur' = Nil /\ chLeft' = <<>>
  /\ UNCHANGED <<cvars, diagTodo, alive, vfsText, vfsVer, opened, pending, loaded, dvars, tvars>>

\* one content change of the notification
M_ApplyEdit ==
  /\ alive /\ mpc = "locked" /\ cur.k = "change" /\ chLeft # <<>> /\ vfsText[cur.d] # Absent
  /\ LET d == cur.d
         s == vfsText[d]
         ch == IF PreFixF9 THEN OldCh(s, Head(chLeft)) ELSE Head(chLeft)
     IN IF PreFixF9 /\ Reversed(s, ch)
        THEN /\ alive' = FALSE                     \* TextRange::new assertion on the main loop: exit 101
             /\ UNCHANGED <<vfsText, vfsVer, opened, pending, chLeft>>
        ELSE IF Appliable(s, ch)
        THEN /\ vfsText' = [vfsText EXCEPT ![d] = ApplyChange(s, ch)]
             /\ vfsVer' = [vfsVer EXCEPT ![d] = @ + 1]
             /\ pending' = pending \cup {d}
             /\ chLeft' = Tail(chLeft)
             /\ UNCHANGED <<opened, alive>>
        ELSE \* "File is out of sync": forget the document, stop applying this notification
             /\ vfsText' = [vfsText EXCEPT ![d] = Absent]
             /\ vfsVer' = [vfsVer EXCEPT ![d] = @ + 1]
             /\ opened' = [opened EXCEPT ![d] = FALSE]
             /\ pending' = pending \cup {d}
             /\ IF PreFixF9 /\ Len(chLeft) > 1
                THEN alive' = FALSE /\ chLeft' = chLeft     \* the loop indexed the removed slot: exit 101
                ELSE alive' = alive /\ chLeft' = <<>>
  /\ UNCHANGED <<cvars, mpc, cur, diagTodo, vfsW, loaded, dvars, tvars>>

\* didOpen (and a watched-file change of an unopened file that exists): set_vfs_file_content
\* the first contact with a file of the package loads every package file from disk
LoadPkg(d) == [x \in Docs |-> IF x = d THEN cur.chs[1].t
                              ELSE IF ~loaded /\ InPkg(d) /\ InPkg(x) /\ onDisk[x] THEN DiskText(x) ELSE vfsText[x]]
M_OpenStore ==
  /\ alive /\ mpc = "locked" /\ cur.k \in {"open", "wchg"} /\ chLeft = <<>>
  /\ LET d == cur.d IN
     IF ~HasPath(d)
     THEN \* no local path: ignored.  Before the repair a didOpen panicked on the main loop (as_path().unwrap())
          /\ alive' = ~(PreFixF9 /\ cur.k = "open")
          /\ vfsW' = FALSE /\ mpc' = "idle" /\ cur' = Nil
          /\ UNCHANGED <<vfsText, vfsVer, opened, pending, loaded, diagTodo>>
     ELSE IF cur.k = "wchg" /\ IsPipe(d) /\ ~opened[d]
     THEN \* not a regular file: the event is ignored (reading it would never return) - the stored text, if any, stays
          /\ vfsW' = FALSE /\ mpc' = "idle" /\ cur' = Nil
          /\ UNCHANGED <<vfsText, vfsVer, opened, pending, loaded, alive, diagTodo>>
     ELSE IF cur.k = "wchg" /\ (opened[d] \/ ~onDisk[d])
     THEN \* opened: skipped; vanished: treated as DELETED (remove_uri; applied like a deletion - before the F44 repair it was not)
          LET rm == ~opened[d] /\ vfsText[d] # Absent
              apply == rm /\ ~PreFixWDel
          IN /\ vfsText' = IF opened[d] THEN vfsText ELSE [vfsText EXCEPT ![d] = Absent]
             /\ vfsVer' = IF rm THEN [vfsVer EXCEPT ![d] = @ + 1] ELSE vfsVer
             /\ pending' = IF rm THEN pending \cup {d} ELSE pending
             /\ vfsW' = apply /\ mpc' = (IF apply THEN "stored" ELSE "idle") /\ cur' = (IF apply THEN cur ELSE Nil)
             /\ diagTodo' = {}
             /\ UNCHANGED <<opened, loaded, alive>>
     ELSE /\ vfsText' = [x \in Docs |-> StripCR(IF cur.k = "wchg" /\ x = d THEN DiskText(d) ELSE LoadPkg(d)[x])]
          /\ vfsVer' = [x \in Docs |-> IF vfsText'[x] # vfsText[x] \/ x = d THEN vfsVer[x] + 1 ELSE vfsVer[x]]
          /\ pending' = pending \cup {x \in Docs : vfsText'[x] # vfsText[x] \/ x = d}
          /\ opened' = IF cur.k = "open" THEN [opened EXCEPT ![d] = TRUE] ELSE opened
          /\ loaded' = (loaded \/ InPkg(d))
          /\ diagTodo' = IF cur.k = "open" THEN {d} ELSE {}
          /\ mpc' = "stored"
          /\ UNCHANGED <<vfsW, cur, alive>>
  /\ UNCHANGED <<cvars, chLeft, dvars, tvars>>

\* DELETED watched file: vfs.write().remove_uri(uri) (+ the roots recomputed); if a file was removed the guard is dropped and
\* apply_vfs_change follows, as after a stored text (before the F44 repair - PreFixWDel - the change was only queued)
M_WatchedDelete ==
  /\ alive /\ mpc = "locked" /\ cur.k = "wdel"
  /\ LET d == cur.d
         rm == ~opened[d] /\ vfsText[d] # Absent
         apply == rm /\ ~PreFixWDel
     IN /\ vfsText' = IF rm THEN [vfsText EXCEPT ![d] = Absent] ELSE vfsText
        /\ vfsVer' = IF rm THEN [vfsVer EXCEPT ![d] = @ + 1] ELSE vfsVer
        /\ pending' = IF rm THEN pending \cup {d} ELSE pending
        /\ vfsW' = apply /\ mpc' = (IF apply THEN "stored" ELSE "idle") /\ cur' = (IF apply THEN cur ELSE Nil)
  /\ diagTodo' = {}
  /\ UNCHANGED <<cvars, chLeft, alive, opened, loaded, dvars, tvars>>

\* drop(vfs) before apply_vfs_change (hook: DocStoreUpdated is logged right after it)
M_UnlockVfs ==
  /\ alive /\ vfsW
  /\ \/ (mpc = "locked" /\ cur.k = "change" /\ chLeft = <<>>)
     \/ mpc = "stored"
  /\ vfsW' = HoldVfsAcrossApply            \* the mutation keeps the guard until after apply_change
  /\ mpc' = "unlocked"
  /\ diagTodo' = IF cur.k = "change"
                 THEN (IF RespawnAllDiags THEN {x \in Docs : opened[x]} \cup {cur.d} ELSE {cur.d})
                 ELSE diagTodo
  /\ UNCHANGED <<cvars, cur, chLeft, alive, vfsText, vfsVer, opened, pending, loaded, dvars, tvars>>

\* apply_vfs_change: vfs.write(); take_change(); drop
M_TakeChange ==
  /\ alive /\ mpc = "unlocked" /\ (~vfsW \/ HoldVfsAcrossApply)
  /\ taken' = pending /\ pending' = {}
  /\ mpc' = "cancel"
  /\ UNCHANGED <<cvars, cur, chLeft, diagTodo, alive, vfsW, vfsText, vfsVer, opened, loaded, dbText, dbVer, cancelFlag, tvars>>

\* AnalysisHost::apply_change: request_cancellation() raises the pending-write flag (hook: ApplyBegin)
M_RequestCancel ==
  /\ alive /\ mpc = "cancel"
  /\ cancelFlag' = TRUE
  /\ mpc' = "acquire"
  /\ UNCHANGED <<cvars, cur, chLeft, diagTodo, alive, svars, dbText, dbVer, taken, tvars>>

\* ... then waits for the storage write lock, i.e. until every snapshot is dropped
M_AcquireDbWrite ==
  /\ alive /\ mpc = "acquire" /\ Snaps = {}
  /\ mpc' = "set"
  /\ UNCHANGED <<cvars, cur, chLeft, diagTodo, alive, svars, dvars, tvars>>

\* change.apply(db); the write lock is released (hook: ApplyEnd)
M_SetInputs ==
  /\ alive /\ mpc = "set"
  /\ dbText' = [d \in Docs |-> IF d \in taken THEN vfsText[d] ELSE dbText[d]]
  /\ dbVer' = [d \in Docs |-> IF d \in taken THEN vfsVer[d] ELSE dbVer[d]]
  /\ taken' = {} /\ cancelFlag' = FALSE
  /\ vfsW' = FALSE
  /\ mpc' = IF diagTodo = {} THEN "idle" ELSE "diag"
  /\ cur' = IF diagTodo = {} THEN Nil ELSE cur
  /\ UNCHANGED <<cvars, chLeft, diagTodo, alive, vfsText, vfsVer, opened, pending, loaded, tvars>>

\* spawn_update_diagnostics(uri): snapshot + spawn_blocking; not opened => abort it; else replace and abort
\* the predecessor (abort has no effect on a blocking task that has started)
M_SpawnDiagT(t) ==
  /\ alive /\ mpc = "diag" /\ diagTodo # {} /\ t \notin DOMAIN tasks
  /\ LET d == CHOOSE x \in diagTodo : TRUE
         r == [Task("diag", d, "plain") EXCEPT !.snap = ~SnapshotInTask, !.issued = dbVer[d], !.snapVer = dbVer[d],
                                               !.spawnVfs = vfsVer[d], !.aborted = ~opened[d]]
         prev == diagTask[d]
         ts == Upd(tasks, t, r)
     IN /\ tasks' = IF opened[d] /\ prev # 0 /\ prev \in DOMAIN tasks
                    THEN [ts EXCEPT ![prev].aborted = TRUE] ELSE ts
        /\ diagTask' = IF opened[d] THEN [diagTask EXCEPT ![d] = t] ELSE diagTask
        /\ nextDiag' = nextDiag + 1
        /\ diagTodo' = diagTodo \ {d}
        /\ mpc' = IF diagTodo \ {d} = {} THEN "idle" ELSE "diag"
        /\ cur' = IF diagTodo \ {d} = {} THEN Nil ELSE cur
  /\ UNCHANGED <<cvars, chLeft, alive, svars, dvars, inflight, retq, evq, published>>
M_SpawnDiag == M_SpawnDiagT(0 - nextDiag)

\* on_did_close: forget that the client maintains it (text stays), publish an empty list directly
M_Close ==
  /\ alive /\ mpc = "close"
  /\ opened' = [opened EXCEPT ![cur.d] = FALSE]
  /\ published' = [published EXCEPT ![cur.d] = [ver |-> dbVer[cur.d], c |-> "closed"]]
  /\ mpc' = "idle" /\ cur' = Nil
  /\ UNCHANGED <<cvars, chLeft, diagTodo, alive, vfsW, vfsText, vfsVer, pending, loaded, dvars, tasks, inflight, nextDiag, diagTask, retq, evq>>

\* the async task awaiting the diagnostics task runs on the main loop's thread between two handlers and emits
\* CollectDiagnosticsEvent::Internal.  The runtime schedules the waiters of finished tasks in no particular order
\* (observed on the real binary: the waiter of a newer task ran before that of an older one) (hook: DiagEmit)
D_EmitT(t) ==
  /\ Idle
  /\ \E i \in 1..Len(retq) : (retq[i] = t) /\ (retq' = SubSeq(retq, 1, i - 1) \o SubSeq(retq, i + 1, Len(retq)))
  /\ LET r == tasks[t]
         c == IF r.res = "cancelled" THEN "cancelled" ELSE "ok"
     IN /\ evq' = IF (c = "cancelled" /\ ~CancelledDiagPublishesEmpty) \/ (PublishOnlyLatest /\ diagTask[r.d] # t) THEN evq
                  ELSE Append(evq, [d |-> r.d, ver |-> r.snapVer, c |-> c])
        /\ tasks' = Del(tasks, t)
  /\ UNCHANGED <<cvars, mvars, svars, dvars, inflight, nextDiag, diagTask, published>>
D_Emit == \E t \in DOMAIN tasks : D_EmitT(t)

\* on_update_diagnostics: internal event -> publishDiagnostics (hook: Publish)
E_Publish ==
  /\ Idle /\ evq # <<>>
  /\ published' = [published EXCEPT ![Head(evq).d] = [ver |-> Head(evq).ver, c |-> Head(evq).c]]
  /\ evq' = Tail(evq)
  /\ UNCHANGED <<cvars, mvars, svars, dvars, tasks, inflight, nextDiag, diagTask, retq>>

MainNext == M_Dequeue \/ M_Skip \/ M_Fatal \/ M_WaitPermit \/ M_SpawnTask \/ M_PollTasks \/ M_LockVfs
            \/ M_IgnoreChange \/ M_ApplyEdit \/ M_OpenStore \/ M_WatchedDelete \/ M_UnlockVfs \/ M_TakeChange
            \/ M_RequestCancel \/ M_AcquireDbWrite \/ M_SetInputs \/ M_SpawnDiag \/ M_Close \/ D_Emit \/ E_Publish

-----------------------------------------------------------------------------
(* Tasks on the blocking pool: request_snap closures and handler::diagnostics *)

TU == <<cvars, mvars, svars, dvars, inflight, nextDiag, diagTask, published>>
TQ == <<retq, evq>>

\* the closure starts (hook: TaskStart).  A not-yet-started task whose handle was aborted never runs.
T_Start(t) ==
  /\ t \in DOMAIN tasks /\ tasks[t].st = "spawned" /\ ~tasks[t].aborted
  /\ tasks' = [tasks EXCEPT ![t].st = "started",
                            ![t].snap = TRUE,
                            ![t].snapVer = IF SnapshotInTask THEN dbVer[tasks[t].d] ELSE @,
                            ![t].snapText = IF SnapshotInTask THEN dbText[tasks[t].d] ELSE @]
  /\ (SnapshotInTask => mpc \notin {"set"})      \* snapshot() needs the storage read lock
  /\ UNCHANGED <<TU, TQ>>

T_Aborted(t) ==
  /\ t \in DOMAIN tasks /\ tasks[t].st = "spawned" /\ tasks[t].aborted
  /\ tasks' = Del(tasks, t)
  /\ UNCHANGED <<TU, TQ>>

\* convert::from_file_pos(&snap.vfs(), ..): read lock on the LIVE document store
T_ReadVfs(t) ==
  /\ t \in DOMAIN tasks /\ tasks[t].st = "started" /\ ~vfsW
  /\ LET d == tasks[t].d
         v == IF ReadWithLiveVfs THEN vfsVer[d] ELSE tasks[t].spawnVfs
     IN tasks' = IF vfsText[d] = Absent
                 THEN [tasks EXCEPT ![t].st = "ret", ![t].res = "err", ![t].readVer = v, ![t].convVer = v]
                 ELSE [tasks EXCEPT ![t].st = "query", ![t].readVer = v]
  /\ UNCHANGED <<TU, TQ>>

\* every query entry on a snapshot checks the pending-write flag and unwinds with Cancelled
T_QueryStep(t) ==
  /\ t \in DOMAIN tasks /\ tasks[t].st = "query" /\ cancelFlag
  /\ tasks' = IF CancelledAnsweredOk /\ tasks[t].kind = "req"
              THEN [tasks EXCEPT ![t].st = "ret", ![t].res = "ok", ![t].convVer = tasks[t].readVer,
                                 ![t].ans = <<tasks[t].rk, "NULL">>]
              ELSE [tasks EXCEPT ![t].st = "ret", ![t].res = "cancelled", ![t].convVer = tasks[t].readVer]
  /\ UNCHANGED <<TU, TQ>>

\* the query ran to completion (it may not have noticed a flag raised meanwhile) (hook: QueryDone)
T_QueryDone(t) ==
  /\ t \in DOMAIN tasks /\ tasks[t].st = "query"
  \* the answer is Ans(kind, snapshot text) - unless the position was converted with another version's line table
  /\ \E r \in QueryOutcomes :
     \E a \in (IF r # "ok" THEN {<<>>}
               ELSE {Ans(tasks[t].rk, tasks[t].snapText)}
                    \cup (IF AnsFree \/ tasks[t].readVer # tasks[t].snapVer THEN {Wrong(tasks[t].rk)} ELSE {})) :
       tasks' = IF IsConv(tasks[t].rk) /\ r = "ok"
                THEN [tasks EXCEPT ![t].st = "qdone", ![t].res = r, ![t].ans = a]
                ELSE [tasks EXCEPT ![t].st = "ret", ![t].res = r, ![t].convVer = tasks[t].readVer, ![t].ans = a]
  /\ UNCHANGED <<TU, TQ>>

\* goto_definition / references / rename: `let vfs = snap.vfs();` AFTER the query, ranges converted with it
T_ConvertWithVfs(t) ==
  /\ t \in DOMAIN tasks /\ tasks[t].st = "qdone" /\ ~vfsW
  /\ LET cv == IF ConvertWithLiveVfs THEN vfsVer[tasks[t].d] ELSE tasks[t].readVer IN
     \E a \in {tasks[t].ans} \cup (IF ~AnsFree /\ cv # tasks[t].readVer THEN {Wrong(tasks[t].rk)} ELSE {}) :
       tasks' = [tasks EXCEPT ![t].st = "ret", ![t].convVer = cv, ![t].ans = a]
  /\ UNCHANGED <<TU, TQ>>

\* request task: the closure returns, the snapshot is dropped (hook: TaskReturn)
T_Return(t) ==
  /\ t \in DOMAIN tasks /\ tasks[t].kind = "req" /\ tasks[t].st = "ret"
  /\ tasks' = [tasks EXCEPT ![t].st = "returned", ![t].snap = FALSE]
  /\ UNCHANGED <<TU, TQ>>

\* diagnostics task: the closure returns (snapshot dropped); a cancelled computation yields Vec::new()
D_Return(t) ==
  /\ t \in DOMAIN tasks /\ tasks[t].kind = "diag" /\ tasks[t].st = "ret"
  /\ tasks' = [tasks EXCEPT ![t].st = "returned", ![t].snap = FALSE]
  /\ retq' = Append(retq, t)
  /\ UNCHANGED <<TU, evq>>

TaskNext(t) == T_Start(t) \/ T_Aborted(t) \/ T_ReadVfs(t) \/ T_QueryStep(t) \/ T_QueryDone(t)
               \/ T_ConvertWithVfs(t) \/ T_Return(t) \/ D_Return(t)

-----------------------------------------------------------------------------
(* The client *)

Quiescent == /\ inbox = <<>> /\ mpc = "idle" /\ evq = <<>> /\ retq = <<>> /\ DOMAIN tasks = {}
             /\ (IF PreFixWDel THEN pending \subseteq {d \in Docs : vfsText[d] = Absent} ELSE pending = {})

CU == <<mvars, svars, dvars, tvars>>
Send(m) == inbox' = Append(inbox, m)

\* mode "conc": valid edits and requests at any moment
C_EditT(d, t) ==
  /\ Conc /\ alive /\ nEdits < MaxEdits /\ cOpen[d]
  /\ cText' = [cText EXCEPT ![d] = t]
  /\ Send(Msg("change", d, 0, <<Ch(TRUE, P0, P0, t)>>, P0, ""))
  /\ nEdits' = nEdits + 1
  /\ UNCHANGED <<cOpen, nextId, sent, resp, onDisk, hist, CU>>
C_Edit(d) == C_EditT(d, Append(cText[d], "a"))

C_RequestI(d, rk, id) ==
  /\ Conc /\ alive /\ id \in 1..MaxReqs /\ id \notin sent
  /\ Send(Msg("req", d, id, <<>>, P0, rk))
  /\ nextId' = nextId + 1 /\ sent' = sent \cup {id}
  /\ UNCHANGED <<cText, cOpen, nEdits, resp, onDisk, hist, CU>>
C_Request(d, rk) == C_RequestI(d, rk, nextId)

\* mode "seq": the message grammar of C15
Texts == {<<>>, <<"a">>, <<"nl">>, <<"c4">>, <<"a", "nl", "c2">>, <<"c4", "nl", "a">>}
Ins == {<<>>, <<"a">>, <<"nl", "c4">>}
PosCands(s) ==
  LET B == {PosOf(s, i) : i \in 0..Len(s)} IN
    B \cup {[l |-> p.l + 1, c |-> p.c] : p \in B} \cup {[l |-> p.l, c |-> p.c + 1] : p \in B}
      \cup {[l |-> p.l, c |-> p.c - 1] : p \in {q \in B : q.c > 0}}
      \cup {[l |-> p.l - 1, c |-> p.c] : p \in {q \in B : q.l > 0}}
      \cup {[l |-> Huge31, c |-> 0], [l |-> 0, c |-> Huge32], [l |-> Huge32, c |-> Huge32]}
TextOr(d) == IF vfsText[Canon(d)] = Absent THEN <<"a", "nl", "a">> ELSE vfsText[Canon(d)]     \* positions are drawn relative to this
Change1(s) == {Ch(TRUE, P0, P0, t) : t \in Texts} \cup {Ch(FALSE, p, q, t) : p \in PosCands(s), q \in PosCands(s), t \in Ins}
ChangeAbsent == {Ch(TRUE, P0, P0, <<"a">>), Ch(FALSE, P0, P0, <<"a">>), Ch(FALSE, [l |-> 1, c |-> 0], P0, <<>>)}
ChangesFor(d) == IF vfsText[Canon(d)] = Absent THEN ChangeAbsent ELSE Change1(vfsText[Canon(d)])
\* second change of a notification: a few representatives, positions relative to the text after the first
Change2(s) == {Ch(TRUE, P0, P0, <<"a">>)} \cup {Ch(FALSE, P0, P0, <<"a">>)}
              \cup {Ch(FALSE, PosOf(s, Len(s)), PosOf(s, Len(s)), <<"c2">>)}
              \cup {Ch(FALSE, [l |-> PosOf(s, Len(s)).l + 1, c |-> 0], [l |-> PosOf(s, Len(s)).l + 1, c |-> 0], <<"a">>)}
After1(s, c) == IF Appliable(s, c) THEN ApplyChange(s, c) ELSE <<>>
ReqKindsSeq == {"hover", "definition", "references", "highlight", "completion", "signatureHelp", "prepareRename",
                "rename", "semFull", "semRange", "semRangeRev", "syntaxTree"}

DocKinds == {"open", "close", "change", "req", "wdel", "wchg", "save", "fsdel"}
MsgsOf(k, d) ==
  CASE k = "open" -> {Msg("open", d, 0, <<Ch(TRUE, P0, P0, t)>>, P0, "") : t \in Texts}
    [] k = "change" ->
            {Msg("change", d, 0, <<c>>, P0, "") : c \in ChangesFor(d)}
       \cup UNION {{Msg("change", d, 0, <<c, c2>>, P0, "") : c2 \in Change2(After1(TextOr(d), c))}
                   : c \in {x \in ChangesFor(d) : x.full \/ x.t = <<"a">>}}
    [] k = "req" -> {Msg("req", d, nextId, <<>>, p, rk) : p \in PosCands(TextOr(d)), rk \in ReqKindsSeq}
    [] k \in {"cancel", "dollar", "config"} -> {Msg(k, "", 0, <<>>, P0, "")}
    [] k = "fatal" -> {Msg("fatal", "", 0, <<>>, P0, rk) : rk \in {"badparams", "unknown", "initialized2"}}
    [] OTHER -> {Msg(k, d, 0, <<>>, P0, "")}
Messages == UNION {MsgsOf(k, d) : k \in DocKinds, d \in Docs}
            \cup UNION {MsgsOf(k, "") : k \in {"cancel", "dollar", "config"} \cup (IF ThirdPartyFatal THEN {"fatal"} ELSE {})}
\* simulation: kind drawn with weights, document biased towards those the server holds
KindSeq == <<"open", "open", "close", "change", "change", "change", "change", "change", "req", "req", "req",
             "wdel", "wchg", "save", "fsdel", "cancel", "dollar", "config">>
Held == {d \in Docs : vfsText[Canon(d)] # Absent}

Prefix == <<Msg("open", "d1", 0, <<Ch(TRUE, P0, P0, <<"a", "nl", "c4", "c2">>)>>, P0, "")>>
Obs == [alive |-> alive, text |-> [d \in Docs |-> vfsText[Canon(d)]], opened |-> [d \in Docs |-> opened[Canon(d)]]]
Pick(S) == IF Gen = "sim" THEN {RandomElement(S)} ELSE S

\* kinds of message, so that simulation draws the kind uniformly and then the parameters
Kind(S, k) == {m \in S : m.k = k}
C_Script ==
  /\ ~Conc /\ alive /\ Quiescent /\ Len(hist) < ScriptLen
  /\ \E m \in (IF Len(hist) < Len(Prefix) THEN {Prefix[Len(hist) + 1]}
               ELSE IF Gen = "sim"
               THEN LET k == KindSeq[RandomElement(1..Len(KindSeq))]
                        d == IF Held # {} /\ RandomElement(1..4) > 1 THEN RandomElement(Held) ELSE RandomElement(Docs)
                    IN {RandomElement(MsgsOf(k, d))}
               ELSE Messages) :
       /\ (m.k = "req" => nextId <= MaxReqs)
       /\ IF m.k = "fsdel"
          THEN onDisk' = [onDisk EXCEPT ![Canon(m.d)] = FALSE] /\ UNCHANGED inbox    \* the driver deletes the file
          ELSE Send(m) /\ UNCHANGED onDisk
       /\ nextId' = IF m.k = "req" THEN nextId + 1 ELSE nextId
       /\ sent' = IF m.k = "req" THEN sent \cup {nextId} ELSE sent
       /\ hist' = Append(hist, [m |-> m, pre |-> Obs])
  /\ UNCHANGED <<cText, cOpen, nEdits, resp, CU>>

\* script generation: print the finished script with the predicted state before every message and at the end
Finish ==
  /\ ~Conc /\ alive /\ Quiescent /\ Len(hist) = ScriptLen
  /\ PrintT(<<"CASE", ToJson([steps |-> hist, final |-> Obs, nreq |-> nextId - 1])>>)
  /\ IF Gen = "sim"
     THEN \* start over: one simulation run yields many scripts (server restarted by the driver)
          /\ hist' = <<>> /\ nextId' = 1 /\ sent' = {} /\ resp' = [i \in 1..MaxReqs |-> 0]
          /\ onDisk' = [d \in Docs |-> DiskInit(d)]
          /\ vfsText' = [d \in Docs |-> Absent] /\ vfsVer' = [d \in Docs |-> 0] /\ opened' = [d \in Docs |-> FALSE]
          /\ pending' = {} /\ loaded' = FALSE
          /\ dbText' = [d \in Docs |-> Absent] /\ dbVer' = [d \in Docs |-> 0]
          /\ diagTask' = [d \in Docs |-> 0] /\ nextDiag' = 1
          /\ published' = [d \in Docs |-> [ver |-> 0, c |-> "none"]]
          /\ UNCHANGED <<cText, cOpen, nEdits, inbox, mvars, vfsW, cancelFlag, taken, tasks, inflight, retq, evq>>
     ELSE /\ hist' = Append(hist, [m |-> Nil, pre |-> Obs])      \* marks the script as printed
          /\ UNCHANGED <<cText, cOpen, nEdits, nextId, sent, resp, inbox, onDisk, CU>>

ClientNext == (\E d \in Docs : C_Edit(d) \/ \E rk \in ReqKinds : C_Request(d, rk)) \/ C_Script \/ Finish

Next == MainNext \/ (\E t \in TaskIdsAll : TaskNext(t)) \/ ClientNext

Spec == Init /\ [][Next]_vars
FairSpec == Spec /\ WF_vars(MainNext) /\ \A t \in TaskIdsAll : WF_vars(TaskNext(t))

-----------------------------------------------------------------------------
(* Properties *)

TypeOK == /\ mpc \in {"idle", "wait_permit", "spawn", "lock", "locked", "stored", "unlocked", "cancel", "acquire", "set",
                      "diag", "close", "skip", "fatal", "ignore"}
          /\ \A t \in DOMAIN tasks : tasks[t].st \in {"spawned", "started", "query", "qdone", "ret", "returned"}
          /\ inflight \subseteq 1..MaxReqs

\* C15
Alive == alive
AtMostOneResponse == \A i \in 1..MaxReqs : resp[i] <= 1
AllAnswered == Quiescent => \A i \in sent : resp[i] = 1
\* an edit that cannot be applied leaves the document forgotten and changes no text (action property)
EditSafety ==
  [][ /\ \A d \in Docs : (vfsText'[d] # vfsText[d] /\ cur.k = "change") =>
            /\ d = cur.d /\ chLeft # <<>>
            /\ IF Appliable(vfsText[d], Head(chLeft))
               THEN vfsText'[d] = ApplyChange(vfsText[d], Head(chLeft))
               ELSE vfsText'[d] = Absent /\ ~opened'[d]
      /\ (mpc = "locked" /\ cur.k = "change" /\ chLeft # <<>> /\ vfsText[cur.d] # Absent /\ mpc' = "locked"
          /\ ~Appliable(vfsText[cur.d], Head(chLeft))) => (vfsText'[cur.d] = Absent /\ chLeft' = <<>>)
    ]_vars

\* C16
\* the main loop is never stuck: in every state it can take a step, or a task can, or everything is quiet
NoDeadlock == ~alive \/ Quiescent \/ ENABLED MainNext \/ \E t \in DOMAIN tasks : ENABLED TaskNext(t)
\* a non-cancelled answer was computed and converted against ONE version of the document
Mixed(r) == r.res = "ok" /\ ~(r.snapVer = r.readVer /\ r.readVer = r.convVer)
NoMixture == \A t \in DOMAIN tasks : (tasks[t].kind = "req" /\ tasks[t].st = "returned") => ~Mixed(tasks[t])
\* ... namely the version the request was issued against
IssuedVersion == \A t \in DOMAIN tasks : (tasks[t].kind = "req" /\ tasks[t].st = "returned" /\ tasks[t].res = "ok") => tasks[t].snapVer = tasks[t].issued
\* an ok answer whose query and conversions saw one version IS the answer for the snapshot taken when it was spawned
RightAnswer(r) == r.ans = Ans(r.rk, r.snapText)
AnswerContent == \A t \in DOMAIN tasks :
                   (tasks[t].kind = "req" /\ tasks[t].st = "returned" /\ tasks[t].res = "ok" /\ ~Mixed(tasks[t])) => RightAnswer(tasks[t])
\* once everything is quiet the server's text is the client's and the last published diagnostics are those of it
Converged(d) == /\ vfsText[d] = StripCR(cText[d]) /\ dbText[d] = vfsText[d]
                /\ published[d].ver = dbVer[d] /\ published[d].c = "ok"
Convergence == (Conc /\ Quiescent) => \A d \in Docs : (opened[d] /\ cOpen[d]) => Converged(d)
TextConvergence == (Conc /\ Quiescent) => \A d \in Docs : vfsText[d] = StripCR(cText[d]) /\ dbText[d] = vfsText[d]
\* whatever the document store holds has been handed to the analysis once the main loop is idle: in particular a file
\* reported deleted is gone from the analysis too (F44)
StoreApplied == (alive /\ mpc = "idle") => \A d \in Docs : dbVer[d] = vfsVer[d]
\* the storage write lock is only taken while no snapshot exists; the document store is free at that point
LockDiscipline == (mpc = "set" => Snaps = {}) /\ (mpc \in {"cancel", "acquire", "set"} => (vfsW = HoldVfsAcrossApply))

\* liveness (FairSpec, no state constraint)
ReqLive == \A i \in 1..MaxReqs : (i \in sent) ~> (resp[i] = 1)
ApplyLive == (mpc # "idle") ~> (mpc = "idle")
InboxLive == (inbox # <<>>) ~> (inbox = <<>>)
=============================================================================
