\* EXPECTED VIOLATION (mutation): snapshot taken inside the task
CONSTANTS
 Docs = {"d1"}
 Mode = "conc"
 MaxEdits = 2
 MaxReqs = 2
 MaxInFlight = 2
 ReqKinds = {"plain", "conv"}
 QueryOutcomes = {"ok"}
 ReadWithLiveVfs = FALSE
 ConvertWithLiveVfs = FALSE
 CancelledDiagPublishesEmpty = FALSE
 RespawnAllDiags = TRUE
 PublishOnlyLatest = TRUE
 HoldVfsAcrossApply = FALSE
 SnapshotInTask = TRUE
 CancelledAnsweredOk = FALSE
 AnsFree = FALSE
 PollWhileWaiting = FALSE
 PreFixF9 = FALSE
 PreFixWDel = FALSE
 ThirdPartyFatal = FALSE
 Gen = "none"
 ScriptLen = 0
SPECIFICATION Spec
INVARIANTS IssuedVersion
CHECK_DEADLOCK FALSE
