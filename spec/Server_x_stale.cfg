\* EXPECTED VIOLATION (F8c): today's design, ONE document: an older diagnostics result published after the newer one
CONSTANTS
 Docs = {"d1"}
 Mode = "conc"
 MaxEdits = 2
 MaxReqs = 0
 MaxInFlight = 2
 ReqKinds = {"plain", "conv"}
 QueryOutcomes = {"ok"}
 ReadWithLiveVfs = TRUE
 ConvertWithLiveVfs = TRUE
 CancelledDiagPublishesEmpty = TRUE
 RespawnAllDiags = FALSE
 PublishOnlyLatest = FALSE
 HoldVfsAcrossApply = FALSE
 SnapshotInTask = FALSE
 CancelledAnsweredOk = FALSE
 AnsFree = FALSE
 PollWhileWaiting = FALSE
 PreFixF9 = FALSE
 PreFixWDel = FALSE
 ThirdPartyFatal = FALSE
 Gen = "none"
 ScriptLen = 0
SPECIFICATION Spec
INVARIANTS Convergence
CHECK_DEADLOCK FALSE
