CONSTANTS Mode = "fuel" Alphabet <- Rep MaxLen = 0 F = 64 U = 7 MaxDepth = 12
SPECIFICATION Spec
INVARIANTS SafeDepth
CHECK_DEADLOCK FALSE
