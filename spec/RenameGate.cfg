SPECIFICATION Spec
INVARIANTS TypeOK PrepareIffRename NoForeignEdit RefusedNoEdit RefusalIffReject EachReasonSuffices Emit
CHECK_DEADLOCK FALSE
