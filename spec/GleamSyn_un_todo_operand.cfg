CONSTANTS Budget = 6 Sim = TRUE Start = "FILE"
  Masked = {"none_todo_operand", "p_neg"}
SPECIFICATION Spec
INVARIANTS Balanced
CHECK_DEADLOCK FALSE
