CONSTANTS Budget = 6 Sim = TRUE Start = "FILE"
  Masked = {"none_todo_operand", "p_neg", "p_as_var"}
SPECIFICATION Spec
INVARIANTS Balanced
CHECK_DEADLOCK FALSE
