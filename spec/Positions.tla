---------------------------- MODULE Positions ----------------------------
(***************************************************************************)
(* The editor's view of a text document (LSP 3.17, positionEncoding        *)
(* utf-16): a document is a sequence of characters; a position is          *)
(* (line, UTF-16 column); the server works on UTF-8 byte offsets.          *)
(*                                                                         *)
(* The module is a transition system: the editor types the document one    *)
(* character at a time (action Type) and keeps, operationally, the table   *)
(* an LSP client computes for the boundaries of the text: for boundary i   *)
(* (between character i and i+1) the byte offset, the line and the UTF-16  *)
(* column.  The declarative definitions (ByteOf/LineOf/ColOf) are checked  *)
(* against the operational table in every reachable state, together with   *)
(* the theorems property C14 relies on (positions are injective and        *)
(* strictly monotone in the boundary).                                     *)
(*                                                                         *)
(* Every reachable state (EmitAll) or every full-length state is printed   *)
(* as one CASE line; the harness replays it into glas' LineMap.            *)
(***************************************************************************)
EXTENDS Naturals, Sequences, FiniteSets, TLC, Json, IOUtils

CONSTANTS MaxLen,      \* documents up to this many characters
          EmitAll      \* TRUE: print every reachable document (BFS); FALSE: only full-length ones

\* "a": ASCII, "nl": line feed, c2/c3/c4: 2-/3-/4-byte UTF-8 (c4 = two UTF-16 units)
Alphabet == {"a", "nl", "c2", "c3", "c4"}

Utf8Len(c)  == CASE c = "a" -> 1 [] c = "nl" -> 1 [] c = "c2" -> 2 [] c = "c3" -> 3 [] c = "c4" -> 4
Utf16Len(c) == IF c = "c4" THEN 2 ELSE 1
\* The unit columns are counted in is negotiated (LSP 3.17: general.positionEncodings / capabilities.positionEncoding),
\* UTF-16 unless both sides agree otherwise.  Environment POS_ENC selects the encoding the tables are written for.
Enc == IF "POS_ENC" \in DOMAIN IOEnv THEN IOEnv.POS_ENC ELSE "utf-16"
ColLen(c) == CASE Enc = "utf-8" -> Utf8Len(c) [] Enc = "utf-32" -> 1 [] OTHER -> Utf16Len(c)

VARIABLES doc,   \* the characters typed so far
          tab    \* tab[i+1] = [b |-> byte, l |-> line, c |-> utf16 col] of boundary i, i \in 0..Len(doc)

vars == <<doc, tab>>

Init == /\ doc = <<>>
        /\ tab = << [b |-> 0, l |-> 0, c |-> 0] >>

\* the client's cursor after typing character ch at the end of the text
Step(last, ch) ==
    IF ch = "nl" THEN [b |-> last.b + 1, l |-> last.l + 1, c |-> 0]
    ELSE [b |-> last.b + Utf8Len(ch), l |-> last.l, c |-> last.c + ColLen(ch)]

Type(ch) == /\ Len(doc) < MaxLen
            /\ doc' = Append(doc, ch)
            /\ tab' = Append(tab, Step(tab[Len(tab)], ch))

Next == \E ch \in Alphabet : Type(ch)

Spec == Init /\ [][Next]_vars

-----------------------------------------------------------------------------
(* Declarative reference, independent of the incremental table.            *)

RECURSIVE Sum8(_, _, _), Sum16(_, _, _)
Sum8(d, lo, hi)  == IF lo > hi THEN 0 ELSE Utf8Len(d[lo]) + Sum8(d, lo + 1, hi)
Sum16(d, lo, hi) == IF lo > hi THEN 0 ELSE ColLen(d[lo]) + Sum16(d, lo + 1, hi)

ByteOf(d, i) == Sum8(d, 1, i)
LineOf(d, i) == Cardinality({k \in 1..i : d[k] = "nl"})
\* index of the last line feed at or before boundary i (0 if none)
LastNl(d, i) == LET S == {k \in 1..i : d[k] = "nl"}
                IN IF S = {} THEN 0 ELSE CHOOSE k \in S : \A j \in S : j <= k
ColOf(d, i)  == Sum16(d, LastNl(d, i) + 1, i)

TableMatchesReference ==
    /\ Len(tab) = Len(doc) + 1
    /\ \A i \in 0..Len(doc) :
          tab[i + 1] = [b |-> ByteOf(doc, i), l |-> LineOf(doc, i), c |-> ColOf(doc, i)]

Less(p, q) == p.l < q.l \/ (p.l = q.l /\ p.c < q.c)

\* what C14 needs from the reference itself
StrictlyMonotone ==
    \A i, j \in 1..Len(tab) : i < j => /\ tab[i].b < tab[j].b
                                       /\ Less(tab[i], tab[j])

\* a position identifies at most one boundary, so "position -> byte" is a function
PositionsInjective ==
    \A i, j \in 1..Len(tab) : (tab[i].l = tab[j].l /\ tab[i].c = tab[j].c) => i = j

-----------------------------------------------------------------------------
\* The document as a (meaningless) Gleam module: a run of "a" is one name, every other character one foreign character,
\* each a token of its own that is no statement - the server reports one syntax error per token, whose range is the token.
\* Toks = the (start boundary, end boundary) pairs of those tokens: what publishDiagnostics must name, as positions of tab.
TokStarts(d) == {i \in 1..Len(d) : d[i] # "nl" /\ (d[i] # "a" \/ i = 1 \/ d[i - 1] # "a")}
TokEnd(d, i) == IF d[i] # "a" THEN i
                ELSE CHOOSE j \in i..Len(d) : (\A k \in i..j : d[k] = "a") /\ (j = Len(d) \/ d[j + 1] # "a")
Toks(d) == {<<i - 1, TokEnd(d, i)>> : i \in TokStarts(d)}

Emit == (EmitAll \/ Len(doc) = MaxLen) =>
           PrintT(<<"CASE", ToJson([doc |-> doc, tab |-> tab, toks |-> Toks(doc), enc |-> Enc])>>)
=============================================================================
