SPECIFICATION Spec
INVARIANTS Explain
POSTCONDITION Done
CHECK_DEADLOCK FALSE
