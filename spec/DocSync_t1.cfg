CONSTANTS MaxLen = 4 MaxIns = 2 MaxChanges = 1 TrackHist = FALSE HistLen = 0
SPECIFICATION Spec
INVARIANTS InSync PositionsPreserved AtMostOneBoundary
CHECK_DEADLOCK FALSE
