CONSTANTS MaxPkgs = 2 NameIdx = {1, 3} Palette = 2 MaxMods = 2 TestDirs = FALSE NBases = 1 NSchemes = 1
          Entries = {"version", "path", "none"} Places = {"packages", "sibling", "nested"} Sim = FALSE
SPECIFICATION Spec
INVARIANTS TypeOK RootsDistinct ExternalIsPlace RootOfIsInnermost ModuleNameInjective ResolveIsFunction ResolveIsVisible DropIsLocal ImportsAcyclic DepsShape
CHECK_DEADLOCK FALSE
