CONSTANTS MaxPkgs = 2 NNames = 2 MaxMods = 2 TestDirs = FALSE NBases = 1 NSchemes = 1 Sim = FALSE
SPECIFICATION Spec
INVARIANTS TypeOK RootsDistinct RootOfIsInnermost ModuleNameInjective ResolveIsFunction ResolveIsVisible ImportsAcyclic DepsShape
CHECK_DEADLOCK FALSE
