---------------------------- MODULE Trace_Server ----------------------------
(***************************************************************************)
(* Trace validation for Server (C16).  A trace file holds one or more      *)
(* sessions of the real server binary: hook events (GLAS_VERIF_TRACE, one  *)
(* global sequence number) merged with what the LSP client sent.  Every    *)
(* line is bound to ONE action of Server; fields logged by the hooks are   *)
(* PROBED state and must equal the model's state at that point:            *)
(*   free  (try_write on the document store)   = ~vfsW                     *)
(*   tok   (fingerprint of the stored text)    = vfsText[d]                *)
(* Actions of the main loop that have no hook (M_Dequeue, M_LockVfs,       *)
(* M_ApplyEdit, M_UnlockVfs, M_TakeChange, M_AcquireDbWrite, M_WaitPermit, *)
(* M_PollTasks, T_Aborted) are taken silently.  TaskReturn is logged after *)
(* the closure dropped its snapshot, so T_Return may also be taken         *)
(* silently while the main loop waits for the storage write lock; the log  *)
(* line is then an observation.                                            *)
(* The trace is accepted iff some interleaving of silent steps consumes    *)
(* every line.  Property monitors that are expected to fire on today's     *)
(* design (NoMixture, diagnostics convergence) do not stop the validation: *)
(* they are printed as MON lines and judged by the driver.                 *)
(***************************************************************************)
EXTENDS Server, IOUtils

Rec == ndJsonDeserialize(IOEnv.TRACE)

VARIABLE l
tv == <<vars, l>>

E == Rec[l]
Is(ev) == l <= Len(Rec) /\ E.ev = ev
Tok(s) == IF s = "ABSENT" THEN Absent ELSE <<s>>
Step == l' = l + 1 /\ TLCSet(1, IF TLCGet(1) < l + 1 THEN l + 1 ELSE TLCGet(1))
Obs0 == UNCHANGED vars

InitFrom(r) ==
  /\ cText = [d \in Docs |-> Tok(r.docs[d])] /\ cOpen = [d \in Docs |-> r.docs[d] # "ABSENT"]
  /\ nEdits = 0 /\ nextId = 1 /\ sent = {} /\ resp = [i \in 1..MaxReqs |-> 0] /\ inbox = <<>>
  /\ onDisk = [d \in Docs |-> TRUE] /\ hist = <<>>
  /\ mpc = "idle" /\ cur = Nil /\ chLeft = <<>> /\ diagTodo = {} /\ alive = TRUE
  /\ vfsW = FALSE /\ vfsText = [d \in Docs |-> Tok(r.docs[d])] /\ vfsVer = [d \in Docs |-> 0]
  /\ opened = [d \in Docs |-> r.docs[d] # "ABSENT"] /\ pending = {} /\ loaded = TRUE
  /\ dbText = [d \in Docs |-> Tok(r.docs[d])] /\ dbVer = [d \in Docs |-> 0] /\ cancelFlag = FALSE /\ taken = {}
  /\ tasks = <<>> /\ inflight = {} /\ nextDiag = 1 /\ diagTask = [d \in Docs |-> 0]
  /\ retq = <<>> /\ evq = <<>> /\ published = [d \in Docs |-> [ver |-> 0, c |-> r.pubc[d]]]   \* as left by the open phase

TInit == l = 2 /\ Rec[1].ev = "Reset" /\ InitFrom(Rec[1]) /\ TLCSet(1, 2)

\* a new session in the same file: every variable starts over (the previous session may have ended in a hang)
ResetTo(r) ==
  /\ cText' = [d \in Docs |-> Tok(r.docs[d])] /\ cOpen' = [d \in Docs |-> r.docs[d] # "ABSENT"]
  /\ nEdits' = 0 /\ nextId' = 1 /\ sent' = {} /\ resp' = [i \in 1..MaxReqs |-> 0] /\ inbox' = <<>>
  /\ onDisk' = [d \in Docs |-> TRUE] /\ hist' = <<>>
  /\ mpc' = "idle" /\ cur' = Nil /\ chLeft' = <<>> /\ diagTodo' = {} /\ alive' = TRUE
  /\ vfsW' = FALSE /\ vfsText' = [d \in Docs |-> Tok(r.docs[d])] /\ vfsVer' = [d \in Docs |-> 0]
  /\ opened' = [d \in Docs |-> r.docs[d] # "ABSENT"] /\ pending' = {} /\ loaded' = TRUE
  /\ dbText' = [d \in Docs |-> Tok(r.docs[d])] /\ dbVer' = [d \in Docs |-> 0] /\ cancelFlag' = FALSE /\ taken' = {}
  /\ tasks' = <<>> /\ inflight' = {} /\ nextDiag' = 1 /\ diagTask' = [d \in Docs |-> 0]
  /\ retq' = <<>> /\ evq' = <<>> /\ published' = [d \in Docs |-> [ver |-> 0, c |-> r.pubc[d]]]
Reset == Is("Reset") /\ ResetTo(E)

Mon(t) == LET r == tasks'[t] IN
  /\ Mixed(r) => PrintT(<<"MON", ToJson([k |-> "mix", sess |-> Rec[l].sess, t |-> t, rk |-> r.rk,
                                          snap |-> r.snapVer, read |-> r.readVer, conv |-> r.convVer])>>)
  \* AnswerContent as a monitor: an ok answer that is not Ans(kind, snapshot text); `mixed` says whether the model explains it
  /\ (r.kind = "req" /\ r.res = "ok" /\ ~RightAnswer(r)) =>
        PrintT(<<"MON", ToJson([k |-> "ans", sess |-> Rec[l].sess, t |-> t, rk |-> r.rk, mixed |-> Mixed(r)])>>)

Logged ==
  \/ Reset
  \/ (Is("Send") /\ E.k = "change" /\ C_EditT(E.d, Tok(E.tok)))
  \/ (Is("Send") /\ E.k = "req" /\ C_RequestI(E.d, E.rk, E.t))
  \* the store was updated and its guard dropped: probed lock state and probed content
  \/ (Is("DocStoreUpdated") /\ mpc = "unlocked" /\ cur.d = E.d /\ E.free = ~vfsW /\ vfsText[E.d] = Tok(E.tok) /\ Obs0)
  \/ (Is("ApplyBegin") /\ E.free = ~vfsW /\ M_RequestCancel)
  \/ (Is("ApplyEnd") /\ M_SetInputs)
  \* the snapshot is taken for the text the client issued the request against (FIFO, edits applied inline)
  \/ (Is("Spawn") /\ E.kind = "req" /\ cur.id = E.t /\ (E.tok = "" \/ dbText[cur.d] = Tok(E.tok)) /\ M_SpawnTask)
  \/ (Is("Spawn") /\ E.kind = "diag" /\ M_SpawnDiagT(E.t) /\ tasks'[E.t].d = E.d)
  \/ (Is("TaskStart") /\ T_Start(E.t))
  \/ (Is("ReadVfs") /\ E.t \in DOMAIN tasks /\ vfsText[tasks[E.t].d] = Tok(E.tok) /\ T_ReadVfs(E.t))
  \/ (Is("QueryEnd") /\ E.res = "cancelled" /\ T_QueryStep(E.t))
  \* cm = content class computed by the driver: the answer equals / differs from the reference answer for the
  \* workspace the request was issued against; bound to the model's abstract answer and judged by Mon
  \/ (Is("QueryEnd") /\ E.res # "cancelled" /\ T_QueryDone(E.t) /\ tasks'[E.t].res = E.res
        /\ (E.res = "ok" => tasks'[E.t].ans = IF E.cm = "mismatch" THEN Wrong(tasks[E.t].rk)
                                               ELSE Ans(tasks[E.t].rk, tasks[E.t].snapText)))
  \/ (Is("ConvertVfs") /\ E.t \in DOMAIN tasks /\ vfsText[tasks[E.t].d] = Tok(E.tok) /\ T_ConvertWithVfs(E.t))
  \/ (Is("TaskReturn") /\ E.t \in DOMAIN tasks /\ tasks[E.t].st = "ret"
        /\ (T_Return(E.t) \/ D_Return(E.t)) /\ tasks'[E.t].res = E.res /\ Mon(E.t))
  \/ (Is("TaskReturn") /\ (IF E.t \in DOMAIN tasks THEN tasks[E.t].st = "returned" ELSE TRUE) /\ Obs0)      \* returned silently before
  \/ (Is("DiagEmit") /\ E.t \in DOMAIN tasks /\ tasks[E.t].d = E.d /\ D_EmitT(E.t))
  \/ (Is("Publish") /\ evq # <<>> /\ Head(evq).d = E.d /\ E_Publish)
  \* the client is quiet: every request answered once, texts converged; diagnostics provenance is reported
  \/ (Is("Quiesce") /\ Quiescent /\ (\A i \in sent : resp[i] = 1)
        /\ \A d \in Docs : cOpen[d] => (vfsText[d] = Tok(E.docs[d]) /\ dbText[d] = vfsText[d] /\ cText[d] = vfsText[d])
        /\ PrintT(<<"MON", ToJson([k |-> "diag", sess |-> E.sess,
                                   docs |-> [x \in Docs |-> [open |-> cOpen[x], pubver |-> published[x].ver, c |-> published[x].c,
                                                             dbver |-> dbVer[x]]]])>>)
        /\ Obs0)

\* silent steps
EarlyReturn == /\ mpc = "acquire"
               /\ \E t \in DOMAIN tasks :
                    /\ tasks[t].st = "ret" /\ \A u \in DOMAIN tasks : tasks[u].st = "ret" => t <= u
                    /\ (T_Return(t) \/ D_Return(t)) /\ Mon(t)
Eager == M_PollTasks \/ (\E t \in DOMAIN tasks : T_Aborted(t))
Lazy == M_Dequeue \/ M_Skip \/ M_LockVfs \/ M_ApplyEdit \/ M_UnlockVfs \/ M_TakeChange \/ M_AcquireDbWrite \/ M_WaitPermit
        \/ EarlyReturn

TNext == IF ENABLED Eager THEN Eager /\ UNCHANGED l
         ELSE \/ (Logged /\ Step)
              \/ (l <= Len(Rec) /\ Lazy /\ UNCHANGED l)

TSpec == TInit /\ [][TNext]_tv

Accepted == IF TLCGet(1) = Len(Rec) + 1 THEN TRUE
            ELSE Print(<<"REJECTED", TLCGet(1), Rec[TLCGet(1)]>>, FALSE)
=============================================================================
