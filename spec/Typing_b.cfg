CONSTANTS Budget = 1 NFuns = 1 Sim = FALSE Masked = {"lambda_annot", "call_gen_rec"}
SPECIFICATION Spec
INVARIANTS Closed BindersTyped EmitCase
CHECK_DEADLOCK FALSE
