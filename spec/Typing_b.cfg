CONSTANTS Budget = 1 NFuns = 1 Sim = FALSE Mode = "rules" MaxParams = 0 Rounds = 6 Focus = {}
  Masked = {"lambda_annot", "call_gen_rec", "call_rec_labels", "late_use"}
SPECIFICATION Spec
INVARIANTS Closed BindersTyped BindersScoped SigsWellFormed Derivable GenericsAcyclic EmitCase
CHECK_DEADLOCK FALSE
