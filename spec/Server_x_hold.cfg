\* EXPECTED VIOLATION (mutation): document-store guard held across apply_change
CONSTANTS
 Docs = {"d1"}
 Mode = "conc"
 MaxEdits = 2
 MaxReqs = 2
 MaxInFlight = 2
 ReqKinds = {"plain", "conv"}
 QueryOutcomes = {"ok"}
 ReadWithLiveVfs = FALSE
 ConvertWithLiveVfs = FALSE
 CancelledDiagPublishesEmpty = FALSE
 RespawnAllDiags = TRUE
 PublishOnlyLatest = TRUE
 HoldVfsAcrossApply = TRUE
 SnapshotInTask = FALSE
 CancelledAnsweredOk = FALSE
 AnsFree = FALSE
 PollWhileWaiting = FALSE
 PreFixF9 = FALSE
 PreFixWDel = FALSE
 ThirdPartyFatal = FALSE
 Gen = "none"
 ScriptLen = 0
SPECIFICATION Spec
INVARIANTS NoDeadlock
CHECK_DEADLOCK FALSE
