\* C12 TRACE: recorded hostrace runs against Host (run with -workers 1, TRACE=<file>)
CONSTANTS
  Readers = {1, 2, 3, 4}
  Files = {1, 2, 3}
  K = 99
  MaxQ = 99
  ExclusiveHost = TRUE
  ChecksFlag = TRUE
  SyntheticWrite = TRUE
  LastWins = TRUE
  MaxDup = 3
  MaxMeta = 0
  DeadlineMs = 30000
SPECIFICATION TSpec
INVARIANTS Isolation NoTornRead Frozen CancelledOnlyIfPending NoIntermediate
POSTCONDITION Accepted
CHECK_DEADLOCK FALSE
