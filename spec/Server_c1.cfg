\* C16 MC, repaired design, 1 document, 2 edits x 2 requests: all safety properties
CONSTANTS
 Docs = {"d1"}
 Mode = "conc"
 MaxEdits = 2
 MaxReqs = 2
 MaxInFlight = 2
 ReqKinds = {"plain", "conv"}
 QueryOutcomes = {"ok"}
 ReadWithLiveVfs = FALSE
 ConvertWithLiveVfs = FALSE
 CancelledDiagPublishesEmpty = FALSE
 RespawnAllDiags = TRUE
 PublishOnlyLatest = TRUE
 HoldVfsAcrossApply = FALSE
 SnapshotInTask = FALSE
 CancelledAnsweredOk = FALSE
 AnsFree = FALSE
 PollWhileWaiting = FALSE
 PreFixF9 = FALSE
 PreFixWDel = FALSE
 ThirdPartyFatal = FALSE
 Gen = "none"
 ScriptLen = 0
SPECIFICATION Spec
INVARIANTS TypeOK NoDeadlock AtMostOneResponse AllAnswered NoMixture IssuedVersion AnswerContent Convergence LockDiscipline Alive
CHECK_DEADLOCK FALSE
