CONSTANTS MaxEdits = 1 FileLen = 2 Sim = FALSE
SPECIFICATION Spec
INVARIANTS Admissible EmitCase
CHECK_DEADLOCK FALSE
