CONSTANTS Budget = 2 MaxItems = 1 Sim = FALSE Headers = "plain"
  Masked = {}
SPECIFICATION Spec
INVARIANTS PendingInvisible TargetsAreBinders Balanced ScopeDeclarative RenameComplete EmitCase
CHECK_DEADLOCK FALSE
