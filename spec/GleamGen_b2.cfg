CONSTANTS Budget = 2 MaxItems = 1 Sim = FALSE
  Masked = {"clause_guard", "unary", "pas_var", "alias", "unqalias", "none", "unq", "unqctor", "unqtype", "typealias"}
SPECIFICATION Spec
INVARIANTS PendingInvisible TargetsAreBinders Balanced ScopeDeclarative RenameComplete EmitCase
CHECK_DEADLOCK FALSE
