\* thorough: the two-import headers x budget 2 over the import-sensitive productions and the constructs that reach
\* patterns (statements, case): `let q.A(a) = m2.c`, `case r.A(1) { m2.A(a: b) -> .. }`, ...
CONSTANTS Budget = 2 MaxItems = 1 Sim = FALSE Headers = "pairs"
  Masked = {"item_b", "params1", "params2", "pipe", "call", "use", "expr_stmt", "ctor_unq", "ctor_unq_labelled",
            "block", "lambda", "binop", "list", "tuple", "own_ctor_labelled", "own_ctor2_labelled", "own_field",
            "two_clauses", "clause_alt", "unknown_field", "case_nobind_bind", "pas", "plit", "ptuple", "plist", "pconcat", "p_own_ctor", "p_own_ctor2", "p_own_ctor_pos"}
SPECIFICATION Spec
INVARIANTS PendingInvisible TargetsAreBinders Balanced ScopeDeclarative RenameComplete EmitCase
CHECK_DEADLOCK FALSE
